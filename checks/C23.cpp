// C23  Finite-field polynomial arithmetic and factorisation are correct -- E5 finite tables vs brute-force
// mod-p coefficient vectors (DESIGN 5 C23).  GaloisFieldDict / GaloisField: all pairs x {+,-,*,/,%,gf_div,gcd,lcm,
// pow_mod, frobenius_map, wrapper ops}; all triples (small) x compose_mod; unary {neg, sqr, pow, diff, monic, eval,
// shifts, scalar ops, sqf_list/sqf_part/is_sqf, constructors, wrapper queries}; every monic polynomial x every
// rand() seed of a menu x {gf_factor, gf_zassenhaus, gf_shoup, gf_ddf_*, gf_edf_*} vs trial division by the
// brute-force table of monic irreducibles.  std::rand() (seed of the GMP random state inside the factorisation
// routines) is interposed so that the seed is an enumerated environment choice.
#include "common.h"
#include "key.h"
#include "a2_polymodel.h"
using namespace verif;
using namespace a2;

// ---------------------------------------------------------------- rand() interposition
static int g_rand_base = 0;
static long g_rand_calls = 0;
extern "C" int rand(void) throw()
{
    long v = (long)g_rand_base * 1000003L + 7919L * g_rand_calls;
    g_rand_calls++;
    return (int)(v & 0x7fffffff);
}

enum {
    K_ARITH, K_DIV, K_DIV_BY_ZERO_REFUSED, K_GCD_LCM, K_POWMOD, K_POWMOD_NOT_JUDGED, K_FROBENIUS, K_WRAPPER, K_COMPOSE, K_COMPOSE_REFUSED, K_UNARY,
    K_EVAL, K_EVAL_NONCANONICAL_REPRESENTATIVE, K_SCALAR, K_SCALAR_DIV_BY_MULTIPLE_OF_P_NOT_JUDGED, K_SQF, K_SQF_ZERO_NOT_JUDGED, K_CTOR,
    K_FACTOR, K_ZASSENHAUS, K_SHOUP, K_DDF, K_EDF, K_NOT_SQUAREFREE_SKIPPED, K_RAND_CALLS, K_GUARDED, K_GUARDED_BAD, K_NCOUNTERS
};
static const std::vector<std::string> CN
    = {"arith_ops_checked", "division_ops_checked", "division_by_zero_poly_refused", "gcd_lcm_checked", "pow_mod_checked",
       "pow_mod_zero_or_unit_modulus_not_judged", "frobenius_map_checked", "galoisfield_wrapper_ops_checked", "compose_mod_checked",
       "compose_mod_zero_modulus_refused", "unary_ops_checked", "eval_checked", "eval_noncanonical_representative_counted", "scalar_ops_checked",
       "scalar_division_by_multiple_of_p_not_judged", "sqf_ops_checked", "sqf_of_zero_not_judged", "constructor_checked", "gf_factor_checked",
       "gf_zassenhaus_checked", "gf_shoup_checked", "ddf_checked", "edf_checked", "not_squarefree_precondition_skipped", "rand_calls_observed",
       "guarded_ops", "guarded_ops_crash_or_hang"};

// ---------------------------------------------------------------- brute-force model over GF(p)
typedef std::vector<int> GP; // little endian, stripped
static void strip(GP &a)
{
    while (!a.empty() && a.back() == 0)
        a.pop_back();
}
static int md(long long v, int p)
{
    v %= p;
    if (v < 0)
        v += p;
    return (int)v;
}
static int inv(int a, int p)
{
    for (int i = 1; i < p; i++)
        if (a * i % p == 1)
            return i;
    return 0;
}
static int deg(const GP &a)
{
    return (int)a.size() - 1;
}
static GP g_add(const GP &a, const GP &b, int p)
{
    GP r(std::max(a.size(), b.size()), 0);
    for (size_t i = 0; i < r.size(); i++)
        r[i] = md((i < a.size() ? a[i] : 0) + (i < b.size() ? b[i] : 0), p);
    strip(r);
    return r;
}
static GP g_neg(const GP &a, int p)
{
    GP r(a.size());
    for (size_t i = 0; i < a.size(); i++)
        r[i] = md(-a[i], p);
    return r;
}
static GP g_sub(const GP &a, const GP &b, int p)
{
    return g_add(a, g_neg(b, p), p);
}
static GP g_mul(const GP &a, const GP &b, int p)
{
    if (a.empty() || b.empty())
        return GP();
    GP r(a.size() + b.size() - 1, 0);
    for (size_t i = 0; i < a.size(); i++)
        for (size_t j = 0; j < b.size(); j++)
            r[i + j] = md(r[i + j] + a[i] * b[j], p);
    strip(r);
    return r;
}
static GP g_scale(const GP &a, int c, int p)
{
    GP r(a.size());
    for (size_t i = 0; i < a.size(); i++)
        r[i] = md((long long)a[i] * md(c, p), p);
    strip(r);
    return r;
}
static void g_divmod(GP a, const GP &b, int p, GP &q, GP &r) // b != 0
{
    q.assign(a.size() >= b.size() ? a.size() - b.size() + 1 : 0, 0);
    int il = inv(b.back(), p);
    while (a.size() >= b.size() && !a.empty()) {
        int f = md(a.back() * il, p);
        size_t s = a.size() - b.size();
        q[s] = f;
        for (size_t j = 0; j < b.size(); j++)
            a[s + j] = md(a[s + j] - f * b[j], p);
        strip(a); // leading term cancels
    }
    strip(q);
    r = a;
}
static GP g_mod(const GP &a, const GP &b, int p)
{
    GP q, r;
    g_divmod(a, b, p, q, r);
    return r;
}
static GP g_quo(const GP &a, const GP &b, int p)
{
    GP q, r;
    g_divmod(a, b, p, q, r);
    return q;
}
static GP g_monic(const GP &a, int p)
{
    if (a.empty())
        return a;
    return g_scale(a, inv(a.back(), p), p);
}
static GP g_gcd(GP a, GP b, int p)
{
    while (!b.empty()) {
        GP r = g_mod(a, b, p);
        a = b;
        b = r;
    }
    return g_monic(a, p);
}
static GP g_pow(const GP &a, unsigned n, int p)
{
    GP r{1};
    for (unsigned i = 0; i < n; i++)
        r = g_mul(r, a, p);
    return r;
}
static GP g_powmod(const GP &a, unsigned long n, const GP &f, int p)
{
    GP r = g_mod(GP{1}, f, p);
    for (unsigned long i = 0; i < n; i++)
        r = g_mod(g_mul(r, a, p), f, p);
    return r;
}
// g(h) mod f by Horner; *zero_plus_scalar reports whether some Horner step adds a non-zero coefficient to an
// accumulator that is exactly zero (used only to name the defect class of a mismatch)
static GP g_compose_mod(const GP &g, const GP &h, const GP &f, int p, bool *zero_plus_scalar = nullptr)
{
    GP r;
    for (size_t i = g.size(); i-- > 0;) {
        r = g_mul(r, h, p);
        if (zero_plus_scalar && r.empty() && g[i] != 0 && i + 1 != g.size())
            *zero_plus_scalar = true;
        r = g_add(r, GP{g[i]}, p);
        strip(r);
        r = g_mod(r, f, p);
    }
    return r;
}
static GP g_diff(const GP &a, int p)
{
    GP r;
    for (size_t i = 1; i < a.size(); i++)
        r.push_back(md((long long)i * a[i], p));
    strip(r);
    return r;
}
static int g_eval(const GP &a, long long x, int p)
{
    int xm = md(x, p), r = 0;
    for (size_t i = a.size(); i-- > 0;)
        r = md(r * xm + a[i], p);
    return r;
}
static std::string gstr(const GP &a)
{
    if (a.empty())
        return "0";
    std::string o;
    for (size_t i = a.size(); i-- > 0;) {
        if (a[i] == 0)
            continue;
        if (!o.empty())
            o += "+";
        if (i == 0 || a[i] != 1)
            o += std::to_string(a[i]);
        if (i >= 1)
            o += "x";
        if (i >= 2)
            o += "^" + std::to_string(i);
    }
    return o;
}
// monic irreducible polynomials by brute force: a monic polynomial of degree d is irreducible iff no monic irreducible
// of degree <= d/2 divides it
struct Field {
    int p = 0, maxdeg = 0;
    std::vector<std::vector<GP>> irr; // by degree
};
static GP nth_monic(int p, int d, long long k) // k in [0, p^d)
{
    GP a(d + 1, 0);
    for (int i = 0; i < d; i++) {
        a[i] = (int)(k % p);
        k /= p;
    }
    a[d] = 1;
    return a;
}
static long long ipow(long long b, int e)
{
    long long r = 1;
    while (e-- > 0)
        r *= b;
    return r;
}
static void build_field(Field &F, int p, int maxdeg)
{
    F.p = p;
    F.maxdeg = maxdeg;
    F.irr.assign(maxdeg + 1, {});
    for (int d = 1; d <= maxdeg; d++) {
        long long n = ipow(p, d);
        for (long long k = 0; k < n; k++) {
            GP a = nth_monic(p, d, k);
            bool red = false;
            for (int e = 1; e <= d / 2 && !red; e++)
                for (auto &f : F.irr[e])
                    if (g_mod(a, f, p).empty()) {
                        red = true;
                        break;
                    }
            if (!red)
                F.irr[d].push_back(a);
        }
    }
}
typedef std::map<GP, unsigned> Fac;
// full factorisation of a non-zero polynomial of degree <= 2*maxdeg+1 by trial division (cofactor of degree <= maxdeg*2+1
// with no factor of degree <= maxdeg is irreducible only when its degree <= 2*maxdeg+1)
static bool g_factor(const Field &F, GP a, Fac &out)
{
    out.clear();
    a = g_monic(a, F.p);
    for (int d = 1; d <= F.maxdeg && deg(a) >= 2 * d; d++)
        for (auto &f : F.irr[d])
            while (deg(a) >= d && g_mod(a, f, F.p).empty()) {
                out[f]++;
                a = g_quo(a, f, F.p);
            }
    if (deg(a) >= 1) {
        // remaining cofactor: all irreducible factors have degree > min(maxdeg, deg/2) ...
        int d0 = std::min(F.maxdeg, deg(a) / 2);
        (void)d0;
        if (deg(a) > 2 * F.maxdeg + 1)
            return false; // cannot decide with this table
        bool found = true;
        while (found && deg(a) >= 1) {
            found = false;
            for (int d = 1; d <= F.maxdeg && d <= deg(a) && !found; d++)
                for (auto &f : F.irr[d])
                    if (g_mod(a, f, F.p).empty()) {
                        out[f]++;
                        a = g_quo(a, f, F.p);
                        found = true;
                        break;
                    }
        }
        if (deg(a) >= 1)
            out[a]++; // no factor of degree <= maxdeg and degree <= 2*maxdeg+1: irreducible
    }
    return true;
}
static std::string facstr(const Fac &f)
{
    std::string o;
    for (auto &kv : f)
        o += "(" + gstr(kv.first) + ")^" + std::to_string(kv.second) + " ";
    return o.empty() ? "1" : o;
}

// ---------------------------------------------------------------- library side
struct PS { // one prime's alphabet
    int p;
    Field F;
    std::vector<GP> M;
    std::vector<GaloisFieldDict> L;
    std::vector<RCP<const GaloisField>> W;
    long long npair_list; // size of the pair alphabet (prefix of M: all polynomials of degree <= dpair)
    long long ntriple_mod, ntriple_arg;
    std::vector<GP> FM; // monic polynomials for the factorisation table
    std::vector<GaloisFieldDict> FL;
};
static std::vector<PS> PSV;
static RCP<const Symbol> X;
static RCP<const Basic> XB;

static GaloisFieldDict mk(const GP &a, int p)
{
    std::vector<integer_class> v;
    for (int c : a)
        v.push_back(integer_class(c));
    return GaloisFieldDict::from_vec(v, integer_class(p));
}
static bool to_gp(const GaloisFieldDict &d, int p, GP &out, std::string &why)
{
    out.clear();
    if (d.modulo_ != integer_class(p)) {
        std::ostringstream s;
        s << "modulus " << d.modulo_ << " instead of " << p;
        why = s.str();
        return false;
    }
    for (auto &c : d.dict_) {
        if (c < 0 || c >= integer_class(p)) {
            std::ostringstream s;
            s << "coefficient " << c << " outside [0," << p << ")";
            why = s.str();
            return false;
        }
        out.push_back((int)mp_get_si(c));
    }
    if (!out.empty() && out.back() == 0) {
        why = "leading zero coefficient not stripped";
        return false;
    }
    return true;
}
static std::string S(const char *op, const std::string &cls)
{
    return std::string("gf:") + op + ":" + cls;
}
template <class W>
static bool chk(Ctx &c, int p, const char *op, const GaloisFieldDict &r, const GP &want, W what, const char *cls = "wrong")
{
    GP got;
    std::string why;
    if (!to_gp(r, p, got, why)) {
        c.violation(S(op, "non-canonical-result"), what() + " mod " + std::to_string(p) + " -> " + why + "; model " + gstr(want));
        return false;
    }
    if (got != want) {
        c.violation(S(op, cls), what() + " mod " + std::to_string(p) + " -> library " + gstr(got) + "; brute-force model " + gstr(want));
        return false;
    }
    return true;
}
// run f, which must throw DivisionByZeroError
template <class Fn, class W>
static void expect_zero_division(Ctx &c, const char *op, Fn f, W what)
{
    try {
        f();
        c.violation(S(op, "zero-divisor-accepted"), what() + " did not raise DivisionByZeroError");
    } catch (DivisionByZeroError &) {
        c.count(K_DIV_BY_ZERO_REFUSED);
    } catch (std::exception &e) {
        c.violation(S(op, "zero-divisor-wrong-exception"), what() + " throws " + e.what());
    }
}

static const PS *locate(long long &i, const std::vector<long long> &sizes)
{
    for (size_t k = 0; k < PSV.size(); k++) {
        if (i < sizes[k])
            return &PSV[k];
        i -= sizes[k];
    }
    return nullptr;
}

// ---------------------------------------------------------------- pairs
static std::vector<long long> pair_sizes;
static void pair_body(long long idx, Ctx &c)
{
    cap_memory_once();
    long long i = idx;
    const PS &ps = *locate(i, pair_sizes);
    const int p = ps.p;
    const long long N = ps.npair_list;
    const GP &ma = ps.M[i / N], &mb = ps.M[i % N];
    const GaloisFieldDict &A = ps.L[i / N], &B = ps.L[i % N];
    if (!ma.empty() && !mb.empty())
        c.nontrivial();
    auto what = [&](const char *op) { return [&ma, &mb, op] { return std::string(op) + " with a = " + gstr(ma) + ", b = " + gstr(mb); }; };
    char ob[96];
    try {
        chk(c, p, "add", A + B, g_add(ma, mb, p), what("a + b"));
        chk(c, p, "sub", A - B, g_sub(ma, mb, p), what("a - b"));
        GP prod = g_mul(ma, mb, p);
        chk(c, p, "mul", A * B, prod, what("a * b"));
        GaloisFieldDict C = A;
        C *= B;
        chk(c, p, "mul", C, prod, what("a *= b"));
        C = A;
        C += B;
        chk(c, p, "add", C, g_add(ma, mb, p), what("a += b"));
        C = A;
        C -= B;
        chk(c, p, "sub", C, g_sub(ma, mb, p), what("a -= b"));
        if ((A == B) != (ma == mb) || (A != B) == (ma == mb))
            c.violation(S("eq", "wrong"), what("a == b")() + " mod " + std::to_string(p) + " -> " + (A == B ? "true" : "false"));
        c.eval(7);
        c.count(K_ARITH, 7);
        snprintf(ob, sizeof ob, "mul:p%d:deg%d*deg%d=deg%d", p, deg(ma), deg(mb), deg(prod));
        c.outcome(ob);
    } catch (std::exception &e) {
        c.violation(S("arith", "throws"), what("a (+,-,*) b")() + " mod " + std::to_string(p) + " throws " + e.what());
    }
    // division with remainder
    if (mb.empty()) {
        expect_zero_division(c, "div", [&] { GaloisFieldDict q = A / B; }, what("a / b"));
        expect_zero_division(c, "mod", [&] { GaloisFieldDict q = A % B; }, what("a % b"));
        expect_zero_division(c, "gf_div", [&] { GaloisFieldDict q, r; A.gf_div(B, outArg(q), outArg(r)); }, what("a.gf_div(b)"));
        c.eval(3);
    } else {
        try {
            GP q, r;
            g_divmod(ma, mb, p, q, r);
            chk(c, p, "div", A / B, q, what("a / b"));
            chk(c, p, "mod", A % B, r, what("a % b"));
            GaloisFieldDict Q, R;
            A.gf_div(B, outArg(Q), outArg(R));
            chk(c, p, "gf_div", Q, q, what("quotient of a.gf_div(b)"));
            chk(c, p, "gf_div", R, r, what("remainder of a.gf_div(b)"));
            c.eval(3);
            c.count(K_DIV, 3);
            snprintf(ob, sizeof ob, "div:p%d:deg%d/deg%d:q%d:r%d", p, deg(ma), deg(mb), deg(q), deg(r));
            c.outcome(ob);
        } catch (std::exception &e) {
            c.violation(S("div", "throws"), what("a (/,%,gf_div) b")() + " mod " + std::to_string(p) + " throws " + e.what());
        }
    }
    // gcd / lcm
    try {
        GP g = g_gcd(ma, mb, p);
        chk(c, p, "gf_gcd", A.gf_gcd(B), g, what("a.gf_gcd(b)"));
        GP l;
        if (!ma.empty() && !mb.empty())
            l = g_monic(g_quo(g_mul(ma, mb, p), g, p), p);
        chk(c, p, "gf_lcm", A.gf_lcm(B), l, what("a.gf_lcm(b)"));
        c.eval(2);
        c.count(K_GCD_LCM, 2);
        snprintf(ob, sizeof ob, "gcd:p%d:deg%d,deg%d:g%d", p, deg(ma), deg(mb), deg(g));
        c.outcome(ob);
    } catch (std::exception &e) {
        c.violation(S("gf_gcd", "throws"), what("gcd/lcm")() + " mod " + std::to_string(p) + " throws " + e.what());
    }
    // b.gf_pow_mod(a, n) = a^n mod b
    for (unsigned long n = 0; n <= 4; n++) {
        if (mb.empty() || (n == 0 && deg(mb) == 0)) {
            c.count(K_POWMOD_NOT_JUDGED); // zero modulus: undefined; a^0 modulo a unit: convention (1 vs 0) not judged
            continue;
        }
        try {
            GaloisFieldDict r = B.gf_pow_mod(A, n);
            c.eval();
            c.count(K_POWMOD);
            chk(c, p, "gf_pow_mod", r, g_powmod(ma, n, mb, p), [&] { return "b.gf_pow_mod(a, " + std::to_string(n) + ") with a = " + gstr(ma) + ", b = " + gstr(mb); });
        } catch (std::exception &e) {
            c.violation(S("gf_pow_mod", "throws"), what("b.gf_pow_mod(a, n)")() + " mod " + std::to_string(p) + " throws " + e.what());
        }
    }
    // Frobenius: a^p mod b through the monomial base of b
    if (deg(mb) >= 1) {
        try {
            std::vector<GaloisFieldDict> base = B.gf_frobenius_monomial_base();
            GaloisFieldDict r = A.gf_frobenius_map(B, base);
            c.eval(2);
            c.count(K_FROBENIUS);
            chk(c, p, "gf_frobenius_map", r, g_powmod(ma, p, mb, p), what("a.gf_frobenius_map(b, b.gf_frobenius_monomial_base())"));
        } catch (std::exception &e) {
            c.violation(S("gf_frobenius_map", "throws"), what("a.gf_frobenius_map(b)")() + " mod " + std::to_string(p) + " throws " + e.what());
        }
    }
    // GaloisField wrapper (generic *_upoly templates)
    try {
        const GaloisField &GA = *ps.W[i / N], &GB = *ps.W[i % N];
        chk(c, p, "add_upoly", add_upoly(GA, GB)->get_poly(), g_add(ma, mb, p), what("add_upoly(a, b)"));
        chk(c, p, "sub_upoly", sub_upoly(GA, GB)->get_poly(), g_sub(ma, mb, p), what("sub_upoly(a, b)"));
        chk(c, p, "mul_upoly", mul_upoly(GA, GB)->get_poly(), g_mul(ma, mb, p), what("mul_upoly(a, b)"));
        c.eval(3);
        c.count(K_WRAPPER, 3);
        if (!mb.empty()) {
            chk(c, p, "quo_upoly", quo_upoly(GA, GB)->get_poly(), g_quo(ma, mb, p), what("quo_upoly(a, b)"));
            c.eval();
            c.count(K_WRAPPER);
        }
    } catch (std::exception &e) {
        c.violation(S("wrapper", "throws"), what("GaloisField add/sub/mul/quo_upoly")() + " mod " + std::to_string(p) + " throws " + e.what());
    }
    if (idx % 40009 == 0)
        c.sample("{\"op\":\"pair\",\"p\":" + std::to_string(p) + ",\"a\":" + jstr(gstr(ma)) + ",\"b\":" + jstr(gstr(mb)) + ",\"gcd\":" + jstr(gstr(g_gcd(ma, mb, p))) + "}");
}

// ---------------------------------------------------------------- compose_mod triples
static std::vector<long long> triple_sizes;
static void triple_body(long long idx, Ctx &c)
{
    cap_memory_once();
    long long i = idx;
    const PS &ps = *locate(i, triple_sizes);
    const int p = ps.p;
    const long long NA = ps.ntriple_arg;
    const long long fi = i / (NA * NA), gi = (i / NA) % NA, hi = i % NA;
    const GP &mf = ps.M[fi], &mg = ps.M[gi], &mh = ps.M[hi];
    if (deg(mf) >= 1 && deg(mg) >= 1 && deg(mh) >= 1)
        c.nontrivial();
    auto what = [&] { return "f.gf_compose_mod(g, h) with f = " + gstr(mf) + ", g = " + gstr(mg) + ", h = " + gstr(mh); };
    try {
        GaloisFieldDict r = ps.L[fi].gf_compose_mod(ps.L[gi], ps.L[hi]);
        c.eval();
        if (mf.empty()) {
            // zero modulus: only legal when no reduction is needed (g constant)
            if (mg.size() >= 2)
                c.violation(S("gf_compose_mod", "zero-modulus-accepted"), what() + " mod " + std::to_string(p) + " did not raise DivisionByZeroError");
            return;
        }
        c.count(K_COMPOSE);
        if (deg(mf) == 0 && mg.size() == 1) {
            c.count(K_POWMOD_NOT_JUDGED); // constant g modulo a unit: returned unreduced by convention
            return;
        }
        bool zps = false;
        GP w = g_compose_mod(mg, mh, mf, p, &zps);
        chk(c, p, "gf_compose_mod", r, w, what, zps ? "zero-poly-plus-scalar" : "wrong");
        char ob[64];
        snprintf(ob, sizeof ob, "compose:p%d:f%d:g%d:h%d:r%d", p, deg(mf), deg(mg), deg(mh), (int)r.dict_.size() - 1);
        c.outcome(ob);
    } catch (DivisionByZeroError &) {
        if (mf.empty())
            c.count(K_COMPOSE_REFUSED);
        else
            c.violation(S("gf_compose_mod", "throws"), what() + " mod " + std::to_string(p) + " raises DivisionByZeroError");
    } catch (std::exception &e) {
        c.violation(S("gf_compose_mod", "throws"), what() + " mod " + std::to_string(p) + " throws " + e.what());
    }
}

// ---------------------------------------------------------------- factorisation checks
static Fac fac_of_set(const std::set<GaloisFieldDict, GaloisFieldDict::DictLess> &s, int p, bool &ok, std::string &why)
{
    Fac f;
    ok = true;
    for (auto &d : s) {
        GP g;
        if (!to_gp(d, p, g, why)) {
            ok = false;
            return f;
        }
        f[g]++;
    }
    return f;
}
static Fac distinct(const Fac &f)
{
    Fac r;
    for (auto &kv : f)
        r[kv.first] = 1;
    return r;
}
// gf_factor on any polynomial
static void check_gf_factor(Ctx &c, const PS &ps, const GaloisFieldDict &A, const GP &ma)
{
    const int p = ps.p;
    auto what = [&] { return "gf_factor(" + gstr(ma) + ") mod " + std::to_string(p) + " with rand() seed menu " + std::to_string(g_rand_base); };
    try {
        g_rand_calls = 0;
        auto res = A.gf_factor();
        c.eval();
        c.count(K_FACTOR);
        c.count(K_RAND_CALLS, g_rand_calls);
        int lc = ma.empty() ? 0 : ma.back();
        if (res.first != integer_class(lc)) {
            std::ostringstream s;
            s << res.first;
            c.violation(S("gf_factor", "wrong-leading-coefficient"), what() + " -> leading coefficient " + s.str() + "; expected " + std::to_string(lc));
        }
        Fac got;
        for (auto &f : res.second) {
            GP g;
            std::string why;
            if (!to_gp(f.first, p, g, why)) {
                c.violation(S("gf_factor", "non-canonical-result"), what() + " -> factor: " + why);
                return;
            }
            if (got.count(g)) {
                c.violation(S("gf_factor", "factor-listed-twice"), what() + " -> factor " + gstr(g) + " listed twice");
                return;
            }
            got[g] = f.second;
        }
        Fac want;
        if (deg(ma) >= 1 && !g_factor(ps.F, ma, want))
            return;
        if (got != want) {
            // name the defect: product / monic / irreducible / multiplicity
            GP prod{1};
            std::string cls = "wrong-multiplicity";
            for (auto &kv : got) {
                prod = g_mul(prod, g_pow(kv.first, kv.second, p), p);
                Fac ff;
                if (kv.first.empty() || kv.first.back() != 1)
                    cls = "factor-not-monic";
                else if (deg(kv.first) < 1 || (g_factor(ps.F, kv.first, ff) && (ff.size() != 1 || ff.begin()->second != 1)))
                    cls = "factor-not-irreducible";
            }
            if (prod != g_monic(ma, p) && cls == "wrong-multiplicity")
                cls = "product-differs";
            c.violation(S("gf_factor", cls), what() + " -> " + facstr(got) + "; trial division gives " + facstr(want));
        }
        c.outcome("factor:p" + std::to_string(p) + ":" + std::to_string(want.size()) + "factors:deg" + std::to_string(deg(ma)));
    } catch (std::exception &e) {
        c.violation(S("gf_factor", "throws"), what() + " throws " + e.what());
    }
}
template <class Fn>
static void check_sqf_factor(Ctx &c, const PS &ps, const char *op, int counter, const GP &ma, const Fac &want, Fn fn)
{
    const int p = ps.p;
    auto what = [&] { return std::string(op) + "(" + gstr(ma) + ") mod " + std::to_string(p) + " with rand() seed menu " + std::to_string(g_rand_base); };
    try {
        g_rand_calls = 0;
        std::set<GaloisFieldDict, GaloisFieldDict::DictLess> res = fn();
        c.eval();
        c.count(counter);
        c.count(K_RAND_CALLS, g_rand_calls);
        bool ok;
        std::string why;
        Fac got = fac_of_set(res, p, ok, why);
        if (!ok) {
            c.violation(S(op, "non-canonical-result"), what() + " -> " + why);
            return;
        }
        if (got != want) {
            std::string cls = "wrong-factor-set";
            GP prod{1};
            for (auto &kv : got) {
                prod = g_mul(prod, kv.first, p);
                Fac ff;
                if (deg(kv.first) < 1 || (g_factor(ps.F, kv.first, ff) && (ff.size() != 1 || ff.begin()->second != 1)))
                    cls = "factor-not-irreducible";
            }
            if (cls == "wrong-factor-set" && prod != ma)
                cls = "product-differs";
            c.violation(S(op, cls), what() + " -> " + facstr(got) + "; trial division gives " + facstr(want));
        }
    } catch (std::exception &e) {
        c.violation(S(op, "throws"), what() + " throws " + e.what());
    }
}
static void check_ddf(Ctx &c, const PS &ps, const char *op, const GP &ma, const Fac &want, const std::vector<std::pair<GaloisFieldDict, unsigned>> &res)
{
    const int p = ps.p;
    auto what = [&] { return std::string(op) + "(" + gstr(ma) + ") mod " + std::to_string(p); };
    std::map<unsigned, GP> wantd, gotd;
    for (auto &kv : want) {
        unsigned d = deg(kv.first);
        if (!wantd.count(d))
            wantd[d] = GP{1};
        wantd[d] = g_mul(wantd[d], kv.first, p);
    }
    for (auto &r : res) {
        GP g;
        std::string why;
        if (!to_gp(r.first, p, g, why)) {
            c.violation(S(op, "non-canonical-result"), what() + " -> " + why);
            return;
        }
        if (gotd.count(r.second)) {
            c.violation(S(op, "degree-listed-twice"), what() + " -> degree " + std::to_string(r.second) + " listed twice");
            return;
        }
        gotd[r.second] = g;
    }
    c.count(K_DDF);
    if (gotd != wantd) {
        std::string gs, ws;
        for (auto &kv : gotd)
            gs += "(" + gstr(kv.second) + ", " + std::to_string(kv.first) + ") ";
        for (auto &kv : wantd)
            ws += "(" + gstr(kv.second) + ", " + std::to_string(kv.first) + ") ";
        c.violation(S(op, "wrong"), what() + " -> " + gs + "; distinct-degree products by trial division " + ws);
    }
}

static std::vector<long long> factor_sizes;
static int NSEEDS = 4;
static void factor_body(long long idx, Ctx &c)
{
    cap_memory_once();
    long long i = idx;
    const PS &ps = *locate(i, factor_sizes);
    const int p = ps.p;
    const long long k = i / NSEEDS;
    g_rand_base = (int)(i % NSEEDS);
    const GP &ma = ps.FM[k];
    const GaloisFieldDict &A = ps.FL[k];
    c.nontrivial();
    check_gf_factor(c, ps, A, ma);
    Fac want;
    if (!g_factor(ps.F, ma, want))
        return;
    bool sqf = true, equal_degree = true;
    for (auto &kv : want) {
        sqf = sqf && kv.second == 1;
        equal_degree = equal_degree && deg(kv.first) == deg(want.begin()->first);
    }
    if (!sqf) {
        c.count(K_NOT_SQUAREFREE_SKIPPED); // gf_zassenhaus / gf_shoup / ddf / edf require a monic square-free input
        return;
    }
    check_sqf_factor(c, ps, "gf_zassenhaus", K_ZASSENHAUS, ma, want, [&] { return A.gf_zassenhaus(); });
    check_sqf_factor(c, ps, "gf_shoup", K_SHOUP, ma, want, [&] { return A.gf_shoup(); });
    if (g_rand_base == 0) { // deterministic routines: once per polynomial
        try {
            check_ddf(c, ps, "gf_ddf_zassenhaus", ma, want, A.gf_ddf_zassenhaus());
            c.eval();
        } catch (std::exception &e) {
            c.violation(S("gf_ddf_zassenhaus", "throws"), "gf_ddf_zassenhaus(" + gstr(ma) + ") mod " + std::to_string(p) + " throws " + e.what());
        }
        try {
            check_ddf(c, ps, "gf_ddf_shoup", ma, want, A.gf_ddf_shoup());
            c.eval();
        } catch (std::exception &e) {
            c.violation(S("gf_ddf_shoup", "throws"), "gf_ddf_shoup(" + gstr(ma) + ") mod " + std::to_string(p) + " throws " + e.what());
        }
    }
    if (equal_degree) {
        unsigned n = deg(want.begin()->first);
        check_sqf_factor(c, ps, "gf_edf_zassenhaus", K_EDF, ma, want, [&] { return A.gf_edf_zassenhaus(n); });
        check_sqf_factor(c, ps, "gf_edf_shoup", K_EDF, ma, want, [&] { return A.gf_edf_shoup(n); });
    }
    c.outcome("sqf-factor:p" + std::to_string(p) + ":deg" + std::to_string(deg(ma)) + ":" + std::to_string(want.size()) + "factors" + (equal_degree ? ":equal-degree" : ""));
    if (idx % 1201 == 0)
        c.sample("{\"op\":\"factor\",\"p\":" + std::to_string(p) + ",\"f\":" + jstr(gstr(ma)) + ",\"seed_menu\":" + std::to_string(g_rand_base) + ",\"model\":" + jstr(facstr(want)) + "}");
}

// ---------------------------------------------------------------- unary
static std::vector<long long> unary_sizes;
static void unary_body(long long idx, Ctx &c)
{
    cap_memory_once();
    long long i = idx;
    const PS &ps = *locate(i, unary_sizes);
    const int p = ps.p;
    const GP &ma = ps.M[i];
    const GaloisFieldDict &A = ps.L[i];
    const std::string as = gstr(ma) + " mod " + std::to_string(p);
    if (!ma.empty())
        c.nontrivial();
    auto W = [&](const std::string &op) { return [op, &ma] { return op + " with a = " + gstr(ma); }; };
    try {
        chk(c, p, "neg", -A, g_neg(ma, p), W("-a"));
        GaloisFieldDict C = A;
        C.negate();
        chk(c, p, "neg", C, g_neg(ma, p), W("a.negate()"));
        chk(c, p, "gf_sqr", A.gf_sqr(), g_mul(ma, ma, p), W("a.gf_sqr()"));
        for (unsigned n = 0; n <= 5; n++)
            chk(c, p, "gf_pow", A.gf_pow(n), g_pow(ma, n, p), W("a.gf_pow(" + std::to_string(n) + ")"));
        chk(c, p, "gf_diff", A.gf_diff(), g_diff(ma, p), W("a.gf_diff()"));
        integer_class lc;
        GaloisFieldDict mon;
        A.gf_monic(lc, outArg(mon));
        chk(c, p, "gf_monic", mon, g_monic(ma, p), W("a.gf_monic()"));
        if (lc != integer_class(ma.empty() ? 0 : ma.back()))
            c.violation(S("gf_monic", "wrong-leading-coefficient"), "gf_monic(" + as + ") reports a wrong leading coefficient");
        if ((int)A.degree() != std::max(0, deg(ma)) || A.size() != ma.size() || A.empty() != ma.empty() || A.is_one() != (ma == GP{1}))
            c.violation(S("degree", "wrong"), "degree/size/empty/is_one of " + as + " disagree with the model");
        for (unsigned e = 0; e <= ma.size() + 1 && !ma.empty(); e++)
            if (A.get_coeff(e) != integer_class(e < ma.size() ? ma[e] : 0))
                c.violation(S("get_coeff", "wrong"), "get_coeff(" + std::to_string(e) + ") of " + as + " is wrong");
        for (unsigned n = 0; n <= 2; n++) {
            GP sh(ma.empty() ? 0 : n, 0);
            sh.insert(sh.end(), ma.begin(), ma.end());
            chk(c, p, "gf_lshift", A.gf_lshift(integer_class(n)), sh, W("a.gf_lshift(" + std::to_string(n) + ")"));
        }
        for (unsigned n = 0; n <= ma.size() + 1; n++) {
            GaloisFieldDict Q, R;
            A.gf_rshift(integer_class(n), outArg(Q), outArg(R));
            GP q(ma.begin() + std::min<size_t>(n, ma.size()), ma.end()), r(ma.begin(), ma.begin() + std::min<size_t>(n, ma.size()));
            strip(r);
            chk(c, p, "gf_rshift", Q, q, W("quotient of a.gf_rshift(" + std::to_string(n) + ")"));
            chk(c, p, "gf_rshift", R, r, W("remainder of a.gf_rshift(" + std::to_string(n) + ")"));
        }
        c.eval(20);
        c.count(K_UNARY, 20);
    } catch (std::exception &e) {
        c.violation(S("unary", "throws"), "unary operation on " + as + " throws " + e.what());
    }
    // evaluation
    try {
        std::vector<integer_class> pts;
        for (int v = -2; v <= p + 1; v++) {
            integer_class r = A.gf_eval(integer_class(v));
            c.eval();
            c.count(K_EVAL);
            int w = g_eval(ma, v, p);
            if (r < 0 || r >= integer_class(p)) {
                c.count(K_EVAL_NONCANONICAL_REPRESENTATIVE);
                if (v >= 0 && v < p) {
                    std::ostringstream s;
                    s << r;
                    c.violation(S("gf_eval", "out-of-range"), "gf_eval(" + std::to_string(v) + ") of " + as + " = " + s.str() + " is outside [0,p)");
                }
            }
            integer_class rr;
            mp_fdiv_r(rr, r, integer_class(p));
            if (rr != integer_class(w)) {
                std::ostringstream s;
                s << r;
                c.violation(S("gf_eval", "wrong"), "gf_eval(" + std::to_string(v) + ") of " + as + " = " + s.str() + "; model " + std::to_string(w));
            }
            pts.push_back(integer_class(v));
        }
        std::vector<integer_class> me = A.gf_multi_eval(pts);
        for (size_t k = 0; k < pts.size(); k++)
            if (me.size() != pts.size() || me[k] != A.gf_eval(pts[k]))
                c.violation(S("gf_multi_eval", "wrong"), "gf_multi_eval of " + as + " disagrees with gf_eval");
        c.outcome("eval:p" + std::to_string(p) + ":deg" + std::to_string(deg(ma)));
    } catch (std::exception &e) {
        c.violation(S("gf_eval", "throws"), "gf_eval of " + as + " throws " + e.what());
    }
    // scalar operators (integer_class right-hand sides)
    for (int v = -1; v <= p + 1; v++) {
        try {
            integer_class s(v);
            GaloisFieldDict C = A;
            C += s;
            const char *zc = ma.empty() && md(v, p) != 0 ? "zero-poly-plus-scalar" : "wrong";
            chk(c, p, "add-scalar", C, g_add(ma, GP{md(v, p)} == GP{0} ? GP() : GP{md(v, p)}, p), W("a += " + std::to_string(v)), zc);
            C = A;
            C -= s;
            chk(c, p, "sub-scalar", C, g_sub(ma, GP{md(v, p)} == GP{0} ? GP() : GP{md(v, p)}, p), W("a -= " + std::to_string(v)), zc);
            C = A;
            C *= s;
            chk(c, p, "mul-scalar", C, g_scale(ma, v, p), W("a *= " + std::to_string(v)));
            c.eval(3);
            c.count(K_SCALAR, 3);
            if (md(v, p) == 0) {
                if (v == 0) {
                    expect_zero_division(c, "div-scalar", [&] { GaloisFieldDict D = A; D /= s; }, W("a /= 0"));
                    expect_zero_division(c, "mod-scalar", [&] { GaloisFieldDict D = A; D %= s; }, W("a %= 0"));
                } else
                    c.count(K_SCALAR_DIV_BY_MULTIPLE_OF_P_NOT_JUDGED);
            } else {
                C = A;
                C /= s;
                chk(c, p, "div-scalar", C, g_scale(ma, inv(md(v, p), p), p), W("a /= " + std::to_string(v)));
                C = A;
                C %= s;
                chk(c, p, "mod-scalar", C, GP(), W("a %= " + std::to_string(v)));
                c.eval(2);
                c.count(K_SCALAR, 2);
            }
        } catch (std::exception &e) {
            c.violation(S("scalar", "throws"), "scalar operation (" + std::to_string(v) + ") on " + as + " throws " + e.what());
        }
    }
    // square-free routines
    try {
        Fac want;
        if (ma.empty())
            c.count(K_SQF_ZERO_NOT_JUDGED);
        else if (g_factor(ps.F, ma, want)) {
            bool sqf = true;
            std::map<unsigned, GP> bymult;
            GP part{1};
            for (auto &kv : want) {
                sqf = sqf && kv.second == 1;
                if (!bymult.count(kv.second))
                    bymult[kv.second] = GP{1};
                bymult[kv.second] = g_mul(bymult[kv.second], kv.first, p);
                part = g_mul(part, kv.first, p);
            }
            bool lsqf = A.gf_is_sqf();
            if (lsqf != sqf)
                c.violation(S("gf_is_sqf", "wrong"), "gf_is_sqf(" + as + ") = " + (lsqf ? "true" : "false") + "; trial division gives " + facstr(want));
            chk(c, p, "gf_sqf_part", A.gf_sqf_part(), part, W("a.gf_sqf_part()"));
            auto lst = A.gf_sqf_list();
            std::map<unsigned, GP> got;
            GP prod{1};
            bool canonical = true, parts_ok = true;
            std::string gs;
            for (auto &e : lst) {
                GP g;
                std::string why;
                if (!to_gp(e.first, p, g, why)) {
                    c.violation(S("gf_sqf_list", "non-canonical-result"), "gf_sqf_list(" + as + ") -> " + why);
                    parts_ok = false;
                    break;
                }
                gs += "(" + gstr(g) + ")^" + std::to_string(e.second) + " ";
                prod = g_mul(prod, g_pow(g, e.second, p), p);
                Fac ff;
                if (deg(g) < 1 || g.back() != 1 || e.second < 1)
                    parts_ok = false;
                else if (g_factor(ps.F, g, ff))
                    for (auto &kv : ff)
                        if (kv.second != 1)
                            parts_ok = false;
                if (got.count(e.second))
                    canonical = false;
                got[e.second] = g;
            }
            if (prod != g_monic(ma, p) || !parts_ok)
                c.violation(S("gf_sqf_list", "wrong"), "gf_sqf_list(" + as + ") -> " + gs + "; does not multiply back to the monic input with monic square-free parts; trial division gives " + facstr(want));
            else if (!canonical || got != bymult)
                c.violation(S("gf_sqf_list", "not-grouped-by-multiplicity"), "gf_sqf_list(" + as + ") -> " + gs + "; parts are not the products of the factors of equal multiplicity " + facstr(want));
            c.eval(3);
            c.count(K_SQF, 3);
            c.outcome("sqf:p" + std::to_string(p) + ":" + std::to_string(bymult.size()) + "parts:" + (sqf ? "sqf" : "not-sqf"));
        }
    } catch (std::exception &e) {
        c.violation(S("sqf", "throws"), "square-free routine on " + as + " throws " + e.what());
    }
    // constructors: non-canonical coefficient representatives, map and integer constructors
    try {
        std::vector<integer_class> v1, v2;
        map_uint_mpz mp;
        for (size_t k = 0; k < ma.size(); k++) {
            v1.push_back(integer_class(ma[k] + p));
            v2.push_back(integer_class(ma[k] - 2 * p));
            mp[(unsigned)k] = integer_class(ma[k] - p);
        }
        v1.push_back(integer_class(p)); // a leading coefficient that vanishes mod p
        chk(c, p, "from_vec", GaloisFieldDict::from_vec(v1, integer_class(p)), ma, W("from_vec(coefficients + p, trailing p)"));
        chk(c, p, "from_vec", GaloisFieldDict::from_vec(v2, integer_class(p)), ma, W("from_vec(coefficients - 2p)"));
        chk(c, p, "map-ctor", GaloisFieldDict(mp, integer_class(p)), ma, W("GaloisFieldDict(map of coefficients - p)"));
        if (ma.size() <= 1) {
            int c0 = ma.empty() ? 0 : ma[0];
            chk(c, p, "int-ctor", GaloisFieldDict(c0 - p, integer_class(p)), ma, W("GaloisFieldDict(int c - p)"));
            chk(c, p, "int-ctor", GaloisFieldDict(integer_class(c0 + 3 * p), integer_class(p)), ma, W("GaloisFieldDict(integer c + 3p)"));
        }
        c.eval(3);
        c.count(K_CTOR, 3);
    } catch (std::exception &e) {
        c.violation(S("ctor", "throws"), "constructor for " + as + " throws " + e.what());
    }
    // GaloisField wrapper queries
    try {
        const GaloisField &G = *ps.W[i];
        GP g;
        std::string why;
        if (!to_gp(G.get_poly(), p, g, why) || g != ma)
            c.violation(S("GaloisField::from_vec", "wrong"), "GaloisField::from_vec(" + as + ") holds " + gstr(g) + " " + why);
        if (G.get_degree() != std::max(0, deg(ma)) || G.size() != (int)ma.size())
            c.violation(S("GaloisField::degree", "wrong"), "GaloisField get_degree/size of " + as + " disagree with the model");
        for (int v = 0; v < p; v++)
            if (G.eval(integer_class(v)) != integer_class(g_eval(ma, v, p)))
                c.violation(S("GaloisField::eval", "wrong"), "GaloisField::eval(" + std::to_string(v) + ") of " + as + " is wrong");
        // get_args: the terms as expressions
        MM<PolyA> mm, t;
        for (auto &arg : G.get_args()) {
            if (!walk(*arg, t)) {
                c.violation(S("GaloisField::get_args", "not-a-polynomial"), "get_args of " + as + " contains " + sstr(arg));
                t = MM<PolyA>();
            }
            mm = madd(mm, t);
        }
        MM<PolyA> wantm;
        for (size_t k = 0; k < ma.size(); k++)
            if (ma[k])
                wantm.t[Mono{(int)k, 0, 0}] = PolyA((long)ma[k]);
        if (!(mm == wantm))
            c.violation(S("GaloisField::get_args", "wrong"), "sum of get_args of " + as + " is " + mm.str());
        for (unsigned n = 0; n <= 3; n++)
            chk(c, p, "pow_upoly", pow_upoly(G, n)->get_poly(), g_pow(ma, n, p), W("pow_upoly(GaloisField a, " + std::to_string(n) + ")"));
        chk(c, p, "neg_upoly", neg_upoly(G)->get_poly(), g_neg(ma, p), W("neg_upoly(GaloisField a)"));
        // from_uintpoly: integer coefficients (shifted by multiples of p) reduced mod p
        map_uint_mpz mp;
        for (size_t k = 0; k < ma.size(); k++)
            if (ma[k] != 0)
                mp[(unsigned)k] = integer_class(ma[k] - p * (int)(k + 1));
        mp[(unsigned)ma.size()] = integer_class(2 * p);
        RCP<const UIntPoly> ui = UIntPoly::from_dict(XB, std::move(mp));
        chk(c, p, "from_uintpoly", GaloisField::from_uintpoly(*ui, integer_class(p))->get_poly(), ma, W("GaloisField::from_uintpoly(coefficients shifted by multiples of p)"));
        c.eval(8);
        c.count(K_WRAPPER, 8);
    } catch (std::exception &e) {
        c.violation(S("wrapper", "throws"), "GaloisField wrapper query on " + as + " throws " + e.what());
    }
    // frobenius monomial base: x^(i*p) mod a
    if (deg(ma) >= 1) {
        try {
            auto base = A.gf_frobenius_monomial_base();
            if ((int)base.size() != deg(ma))
                c.violation(S("gf_frobenius_monomial_base", "wrong-size"), "gf_frobenius_monomial_base of " + as + " has " + std::to_string(base.size()) + " entries");
            else
                for (int k = 0; k < deg(ma); k++)
                    chk(c, p, "gf_frobenius_monomial_base", base[k], g_powmod(GP{0, 1}, (unsigned long)k * p, ma, p), W("entry " + std::to_string(k) + " of a.gf_frobenius_monomial_base()"));
            c.eval();
            c.count(K_FROBENIUS);
        } catch (std::exception &e) {
            c.violation(S("gf_frobenius_monomial_base", "throws"), "gf_frobenius_monomial_base of " + as + " throws " + e.what());
        }
    }
    // gf_factor of every (also non-monic, also zero/constant) polynomial, seed menu 0
    g_rand_base = 0;
    check_gf_factor(c, ps, A, ma);
    if (idx % 499 == 0)
        c.sample("{\"op\":\"unary\",\"p\":" + std::to_string(p) + ",\"a\":" + jstr(gstr(ma)) + "}");
}

// ---------------------------------------------------------------- guarded: get_coeff on the zero polynomial
static void special_body(long long i, Ctx &c)
{
    if (i >= (long long)PSV.size())
        return;
    const PS &ps = PSV[i];
    c.count(K_GUARDED);
    c.nontrivial();
    std::string desc = "get_coeff(0), get_coeff(1) of the zero polynomial mod " + std::to_string(ps.p);
    std::string oc = guarded(c, 1, [&] {
        try {
            GaloisFieldDict z = mk(GP(), ps.p);
            if (z.get_coeff(0) != 0 || z.get_coeff(1) != 0)
                c.violation(S("get_coeff", "zero-poly-wrong"), desc + " is not 0");
            RCP<const GaloisField> g = GaloisField::from_vec(XB, {}, integer_class(ps.p));
            if (g->get_coeff(0) != 0)
                c.violation(S("get_coeff", "zero-poly-wrong"), "GaloisField " + desc + " is not 0");
        } catch (std::exception &e) {
            c.violation(S("get_coeff", "zero-poly-throws"), desc + " throws " + e.what());
        }
    });
    c.eval();
    c.outcome("special:get_coeff-zero:" + (oc.empty() ? std::string("returned") : oc));
    if (!oc.empty()) {
        c.count(K_GUARDED_BAD);
        c.violation(S("get_coeff", std::string("zero-poly-") + (oc == "hang" ? "hang" : "crash")), desc + " -> " + oc);
    }
}

int main(int argc, char **argv)
{
    init(argc, argv, "C23");
    const bool thorough = opts().thorough();
    X = symbol("x");
    XB = X;
    if (std::rand() != 0 || std::rand() != 7919) {
        fprintf(stderr, "C23: rand() interposition is not effective\n");
        return 2;
    }
    g_rand_calls = 0;
    struct Spec {
        int p, dpair, dtrip_mod, dtrip_arg, dfac;
    };
    std::vector<Spec> specs;
    if (thorough)
        specs = {{2, 6, 3, 3, 10}, {3, 4, 2, 2, 6}, {5, 3, 2, 1, 4}, {7, 2, 2, 1, 4}, {11, 2, -1, -1, 3}, {13, 2, -1, -1, 3}};
    else
        specs = {{2, 5, 3, 3, 7}, {3, 3, 2, 2, 4}, {5, 2, 2, 1, 3}, {7, 1, -1, -1, 2}};
    NSEEDS = thorough ? 6 : 4;
    uint64_t states = 0;
    for (auto &s : specs) {
        PS ps;
        ps.p = s.p;
        int dlist = std::max(s.dpair, s.dtrip_mod);
        build_field(ps.F, s.p, std::max(s.dfac, dlist) / 2 + 1);
        // all polynomials of degree <= dlist, ordered by (degree, value): the first p^(d+1) entries are those of degree <= d
        long long n = ipow(s.p, dlist + 1);
        for (long long k = 0; k < n; k++) {
            GP a;
            long long kk = k;
            while (kk) {
                a.push_back((int)(kk % s.p));
                kk /= s.p;
            }
            ps.M.push_back(a);
            ps.L.push_back(mk(a, s.p));
            std::vector<integer_class> v;
            for (int cc : a)
                v.push_back(integer_class(cc));
            ps.W.push_back(GaloisField::from_vec(XB, v, integer_class(s.p)));
        }
        ps.npair_list = ipow(s.p, s.dpair + 1);
        ps.ntriple_mod = s.dtrip_mod < 0 ? 0 : ipow(s.p, s.dtrip_mod + 1);
        ps.ntriple_arg = s.dtrip_arg < 0 ? 0 : ipow(s.p, s.dtrip_arg + 1);
        for (int d = 1; d <= s.dfac; d++) {
            long long m = ipow(s.p, d);
            for (long long k = 0; k < m; k++) {
                ps.FM.push_back(nth_monic(s.p, d, k));
                ps.FL.push_back(mk(ps.FM.back(), s.p));
            }
        }
        states += ps.M.size() + ps.FM.size();
        PSV.push_back(ps);
    }
    for (auto &ps : PSV) {
        pair_sizes.push_back(ps.npair_list * ps.npair_list);
        triple_sizes.push_back(ps.ntriple_mod * ps.ntriple_arg * ps.ntriple_arg);
        unary_sizes.push_back(ps.M.size());
        factor_sizes.push_back((long long)ps.FM.size() * NSEEDS);
    }
    auto total = [](const std::vector<long long> &v) { return std::accumulate(v.begin(), v.end(), 0LL); };
    auto where = [](long long i, const std::vector<long long> &sz) {
        const PS *ps = locate(i, sz);
        return std::make_pair(ps, i);
    };
    {
        CaseSet cs;
        cs.name = "special";
        cs.n = PSV.size();
        cs.counter_names = CN;
        cs.hang_s = 900; // wall backstop; the guarded probes are limited by CPU time
        cs.desc = [&](long long i) { return "get_coeff on the zero polynomial mod " + std::to_string(PSV[i].p); };
        cs.crash_sig = [&](long long, const std::string &oc) { return "gf:special:" + oc; };
        cs.body = special_body;
        run_cases(cs);
    }
    {
        CaseSet cs;
        cs.name = "unary";
        cs.n = total(unary_sizes);
        cs.counter_names = CN;
        cs.hang_s = 300; // wall-clock backstop only (machine may be heavily loaded); real hang classes are probed under a CPU-time limit
        cs.desc = [&](long long i) {
            auto w = where(i, unary_sizes);
            return "unary operations on a = " + gstr(w.first->M[w.second]) + " mod " + std::to_string(w.first->p);
        };
        cs.crash_sig = [&](long long, const std::string &oc) { return "gf:unary:" + oc; };
        cs.body = unary_body;
        run_cases(cs);
    }
    if (!past_deadline()) {
        CaseSet cs;
        cs.name = "factor";
        cs.n = total(factor_sizes);
        cs.counter_names = CN;
        cs.hang_s = 300; // wall-clock backstop only (machine may be heavily loaded); real hang classes are probed under a CPU-time limit
        cs.desc = [&](long long i) {
            auto w = where(i, factor_sizes);
            return "factorisation of " + gstr(w.first->FM[w.second / NSEEDS]) + " mod " + std::to_string(w.first->p) + " with rand() seed menu " + std::to_string(w.second % NSEEDS);
        };
        cs.crash_sig = [&](long long, const std::string &oc) { return "gf:factor:" + oc; };
        cs.body = factor_body;
        run_cases(cs);
    }
    if (!past_deadline()) {
        CaseSet cs;
        cs.name = "compose";
        cs.n = total(triple_sizes);
        cs.counter_names = CN;
        cs.hang_s = 300; // wall-clock backstop only (machine may be heavily loaded); real hang classes are probed under a CPU-time limit
        cs.desc = [&](long long i) {
            auto w = where(i, triple_sizes);
            long long NA = w.first->ntriple_arg;
            return "f.gf_compose_mod(g, h) with f = " + gstr(w.first->M[w.second / (NA * NA)]) + ", g = " + gstr(w.first->M[(w.second / NA) % NA]) + ", h = " + gstr(w.first->M[w.second % NA])
                   + " mod " + std::to_string(w.first->p);
        };
        cs.crash_sig = [&](long long, const std::string &oc) { return "gf:compose:" + oc; };
        cs.body = triple_body;
        run_cases(cs);
    }
    if (!past_deadline()) {
        CaseSet cs;
        cs.name = "pairs";
        cs.n = total(pair_sizes);
        cs.counter_names = CN;
        cs.hang_s = 300; // wall-clock backstop only (machine may be heavily loaded); real hang classes are probed under a CPU-time limit
        cs.desc = [&](long long i) {
            auto w = where(i, pair_sizes);
            long long N = w.first->npair_list;
            return "a = " + gstr(w.first->M[w.second / N]) + ", b = " + gstr(w.first->M[w.second % N]) + " mod " + std::to_string(w.first->p);
        };
        cs.crash_sig = [&](long long, const std::string &oc) { return "gf:pairs:" + oc; };
        cs.body = pair_body;
        run_cases(cs);
    }
    Run &R = run();
    R.states = states;
    R.transitions = R.evaluations;
    std::string b;
    for (auto &s : specs)
        b += "p=" + std::to_string(s.p) + ": pairs deg<=" + std::to_string(s.dpair) + ", factorisation of every monic deg<=" + std::to_string(s.dfac)
             + (s.dtrip_mod >= 0 ? ", compose_mod f deg<=" + std::to_string(s.dtrip_mod) + " g,h deg<=" + std::to_string(s.dtrip_arg) : "") + "; ";
    R.bound_completed = b + std::to_string(NSEEDS) + " rand() seed menus";
    R.rule = "for each prime: every ordered pair of ALL polynomials up to the degree bound x {+,-,*,*=,/,%,gf_div,gcd,lcm,pow_mod 0..4,frobenius_map,==,"
             "GaloisField add/sub/mul/quo_upoly}; every triple x gf_compose_mod; every polynomial x {neg, sqr, pow 0..5, diff, monic, degree/coeff, shifts, "
             "eval at -2..p+1, scalar += -= *= /= %= with -1..p+1, is_sqf/sqf_part/sqf_list, constructors with non-canonical representatives, wrapper "
             "queries, frobenius monomial base, gf_factor}; every monic polynomial x every rand() seed menu x {gf_factor; if square-free: gf_zassenhaus, "
             "gf_shoup, gf_ddf_*; if equal-degree: gf_edf_*}.  Oracle: std::vector<int> arithmetic mod p, Euclid, trial division by the brute-force table "
             "of monic irreducibles (factors must be monic, irreducible, distinct, with the right multiplicities, product = input). "
             "distinct_nontrivial = pairs of non-zero polynomials, non-zero polynomials, factorisation cases, non-constant triples";
    R.assumptions = {"int arithmetic mod p <= 13 in the model is correct", "rand() is interposed: the GMP random state inside the factorisation routines is seeded with "
                     "seed_menu*1000003 + 7919*k for the k-th generator created in the case; other seeds are not covered",
                     "gf_eval at arguments outside [0,p) is judged up to congruence (non-canonical representatives are counted)",
                     "a^0 modulo a unit and scalar division by a non-zero multiple of p are not judged; square-free routines on the zero polynomial are not judged",
                     "gf_zassenhaus/gf_shoup/ddf/edf are called only on inputs satisfying their documented precondition (monic, square-free, equal-degree)"};
    return R.finish();
}
