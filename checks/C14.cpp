// C14  LLVM-compiled functions compute the expression's value -- same harness as C13 on
// LLVMDoubleVisitor / LLVMFloatVisitor / LLVMLongDoubleVisitor x opt_level 0..3 x symbolic_cse on/off
// x dumps/loads round trip (DESIGN 5 C14).  Needs the `full` configuration (WITH_LLVM, MPFR).
#include "common.h"
#include "checks/a13_harness.h"
#include <symengine/llvm_double.h>
using namespace a13;

#ifdef HAVE_SYMENGINE_LLVM
template <class VIS, class SC>
struct LLVMTraits {
    typedef VIS V;
    typedef SC T;
    static std::string tname();
    static NumCfg num();
    static int nvariants()
    {
        return 8;
    }
    static bool vcse(int k)
    {
        return k & 1;
    }
    static unsigned vopt(int k)
    {
        return k >> 1;
    }
    static std::string vname(int k)
    {
        return "opt_level=" + std::to_string(vopt(k)) + ",symbolic_cse=" + (vcse(k) ? "on" : "off");
    }
    static void init(V &v, const vec_basic &in, const vec_basic &out, int k)
    {
        v.init(in, out, vcse(k), vopt(k));
    }
    static void call(V &v, T *outs, const T *inps)
    {
        v.call(outs, inps);
    }
    static T single(const vec_basic &in, const Basic &e, int k, const T *inps)
    {
        V v;
        v.init(in, e, vcse(k), vopt(k));
        std::vector<T> iv(inps, inps + in.size());
        return v.call(iv);
    }
    static bool fragile()
    {
        return true;
    }
    static double hang_s()
    {
        return 600; // the first compilation in a worker initialises LLVM; the box may be heavily shared
    }
    static std::unique_ptr<V> reload(V &v)
    {
        std::unique_ptr<V> r(new V());
        r->loads(v.dumps());
        return r;
    }
};
typedef LLVMTraits<LLVMDoubleVisitor, double> TD;
typedef LLVMTraits<LLVMFloatVisitor, float> TF;
template <>
std::string TD::tname()
{
    return "llvm-double";
}
template <>
NumCfg TD::num()
{
    return CFG_DOUBLE;
}
template <>
std::string TF::tname()
{
    return "llvm-float";
}
template <>
NumCfg TF::num()
{
    return CFG_FLOAT;
}
#ifdef SYMENGINE_HAVE_LLVM_LONG_DOUBLE
typedef LLVMTraits<LLVMLongDoubleVisitor, long double> TL;
template <>
std::string TL::tname()
{
    return "llvm-longdouble";
}
template <>
NumCfg TL::num()
{
    return CFG_LDOUBLE;
}
#endif
#endif

int main(int argc, char **argv)
{
    init(argc, argv, "C14");
    Run &R = run();
#ifndef HAVE_SYMENGINE_LLVM
    fprintf(stderr, "C14 needs a build with WITH_LLVM\n");
    return 2;
#else
    bool thorough = opts().thorough();
    // crashing children must die quickly: no core files, no external symbolizer for LLVM's fatal-error stack traces
    setenv("LLVM_DISABLE_SYMBOLIZATION", "1", 1);
    struct rlimit nocore = {0, 0};
    setrlimit(RLIMIT_CORE, &nocore);
    // terms with <= 1 operation: double x all 8 configurations, float / long double x opt_level {0,3} x cse {off,on};
    // quick: 5-leaf alphabet, thorough: 10-leaf alphabet.
    PoolCfg pc = pool_cfg(thorough ? 1 : 0);
    pc.maxn = 1;
    TermPool P;
    build_pool(P, pc, "pool");
    std::vector<Recipe> none, deep;
    std::vector<int> all8 = {0, 1, 2, 3, 4, 5, 6, 7}, four = {0, 1, 6, 7};
    EvalChecks<TD>::run_terms(P, "terms:double", all8, none, {});
    phase_log("C14", "terms:double n<=1");
    EvalChecks<TF>::run_terms(P, "terms:float", four, none, {});
#ifdef SYMENGINE_HAVE_LLVM_LONG_DOUBLE
    EvalChecks<TL>::run_terms(P, "terms:longdouble", four, none, {});
#endif
    phase_log("C14", "terms:float,longdouble n<=1");
    std::string deepbound;
    // tuples
    EvalChecks<TD>::run_tuples("tuples:double", thorough ? 3 : 2, four);
    phase_log("C14", "tuples:double");
    EvalChecks<TF>::run_tuples("tuples:float", thorough ? 2 : 1, four);
#ifdef SYMENGINE_HAVE_LLVM_LONG_DOUBLE
    EvalChecks<TL>::run_tuples("tuples:longdouble", thorough ? 2 : 1, four);
#endif
    phase_log("C14", "tuples:float,longdouble");

    if (thorough && !past_deadline()) {
        // level 2 over the small alphabet, default configuration (opt_level 3) with symbolic_cse off and on
        PoolCfg p0 = pool_cfg(-2);
        p0.maxn = 1;
        TermPool P0;
        build_pool(P0, p0, "pool0");
        deep = P0.level_recipes(p0, 2);
        EvalChecks<TD>::run_terms(P0, "terms2:double", {}, deep, {6}, false);
        phase_log("C14", "terms:double n=2");
        deepbound = "; plus all " + std::to_string(deep.size()) + " transitions into level 2 over " + std::to_string(p0.leavesV.size())
                    + " value leaves for llvm-double in the default configuration (opt_level 3, symbolic_cse off)";
        R.counters["level2_recipes(transitions, not de-duplicated)"] = deep.size();
    }
    // histories: every type; depth 3 (thorough: depth 4 for double)
    EvalChecks<TD>::run_histories("histories:double", thorough ? 3 : 2);
    phase_log("C14", "histories:double");
    EvalChecks<TF>::run_histories("histories:float", 2);
#ifdef SYMENGINE_HAVE_LLVM_LONG_DOUBLE
    EvalChecks<TL>::run_histories("histories:longdouble", 2);
#endif
    phase_log("C14", "histories:float,longdouble");
    R.states = P.V.size() + P.B.size();
    R.transitions = R.evaluations;
    R.counters["pool_value_states"] = P.V.size();
    R.counters["pool_boolean_states"] = P.B.size();
    R.bound_completed = "terms: all expressions with <= 1 operation over " + std::to_string(pc.leavesV.size()) + " value + " + std::to_string(pc.leavesB.size())
                        + " boolean leaves (" + std::to_string(P.V.size() + P.B.size())
                        + " states) x {double x opt_level 0-3, float / long double x opt_level 0,3}"
                        + " x symbolic_cse on/off x dumps/loads x 3x3 grid" + deepbound
                        + "; tuples: all ordered tuples of <= " + (thorough ? "3 (double), 2 (float, long double)" : "2 (double), 1 (float, long double)")
                        + " outputs from a 12-expression pool x 3 input vectors x opt_level {0,3} x cse {off,on}"
                        + "; histories: all sequences of <= " + (thorough ? "3 (double), 2 (float, long double)" : "2")
                        + " init calls from a menu of 10 (3 failing), one process per history";
    R.rule = "same typed term algebra, tuple pool and init menu as C13, compiled by the LLVM visitors; every compiled function is called on the grid x in "
             "{-1.5,0.5,2} x y in {-0.75,1,3} and compared with RealEval within 4*delta for the target format (u = 2^-24 / 2^-53 / 2^-64); the object "
             "code from dumps() is loaded into a new visitor which must return bit-identical outputs; every init history on one visitor must be "
             "bit-identical to a fresh visitor given the last init. distinct_nontrivial as in C13";
    R.assumptions = {"libquadmath / MPFR special functions", "host libm (glibc) within 4 ulp, 16 ulp for tgamma/lgamma/erf/erfc, in float, double and x87 long double",
                     "points where the value is non-real, non-finite, ill-conditioned or within delta of a discontinuity are skipped and counted",
                     "LLVM 14 MCJIT on x86-64 only"};
    return R.finish();
#endif
}
