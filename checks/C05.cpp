// C05  Exact number arithmetic is correct and normalised -- E5 full pair table vs GMP model (DESIGN 5 C05)
//
// Alphabet G = every Gaussian rational whose real and imaginary parts are fractions n/d with
// |n| <= B, 1 <= d <= B (B = 3 quick, 5 thorough)  UNION  a fixed list of multi-limb boundary values.
// Every ordered pair x {add, sub, mul, div} through Number::op (double dispatch) and through the
// top-level add()/sub()/mul()/div(); every value x fixed integer exponents through Number::pow and pow().
// Oracle: Gaussian rationals over GMP mpq (core/exact.h).  The result is compared through the
// independent structural key (raw numerator/denominator limbs of the stored object, no eq/hash/str):
// Integer iff denominator 1, Rational in lowest terms with positive denominator, Complex iff im != 0,
// x/0 -> zoo, 0/0 -> nan, 0^negative -> zoo.
#include "common.h"
#include "key.h"
using namespace verif;

struct Val {
    std::string name;
    RCP<const Number> e;
    GQ m;
    std::string k; // key at construction time (operands must never change)
};
static std::vector<Val> V;

static std::string model_key(const GQ &g)
{
    auto q = [](const mpq_class &x) { return x.get_num().get_str() + "/" + x.get_den().get_str(); };
    if (g.im != 0)
        return "C:" + q(g.re) + "," + q(g.im);
    if (g.re.get_den() == 1)
        return "I:" + g.re.get_num().get_str();
    return "Q:" + q(g.re);
}
static const char *model_kind(const GQ &g)
{
    return g.im != 0 ? "Complex" : g.re.get_den() == 1 ? "Integer" : "Rational";
}
static int kind_rank(const std::string &k)
{
    return k[0] == 'I' ? 0 : k[0] == 'Q' ? 1 : k[0] == 'C' ? 2 : 3;
}

static RCP<const Number> lib_rat(const mpq_class &q)
{
    return Rational::from_two_ints(*integer(integer_class(q.get_num().get_str())), *integer(integer_class(q.get_den().get_str())));
}
static RCP<const Number> lib_value(const GQ &g)
{
    RCP<const Number> re = lib_rat(g.re);
    if (g.im == 0)
        return re;
    return Complex::from_two_nums(*re, *lib_rat(g.im));
}
static std::set<std::string> seen;
static void addv(const GQ &g)
{
    std::string mk = model_key(g);
    if (!seen.insert(mk).second)
        return;
    Val v;
    v.m = g;
    v.name = gq_str(g);
    v.e = lib_value(g);
    v.k = key(*v.e);
    V.push_back(v);
}
static mpq_class Qs(const char *n, const char *d = "1")
{
    mpq_class q{mpz_class(n), mpz_class(d)};
    q.canonicalize();
    return q;
}

enum { ADD, SUB, MUL, DIV, NOPS };
static const char *OPN[] = {"add", "sub", "mul", "div", "pow"};

// expected result: 0 = value in g, 1 = zoo, 2 = nan
static int model_op(int op, const GQ &a, const GQ &b, GQ &g)
{
    switch (op) {
        case ADD:
            g = a + b;
            return 0;
        case SUB:
            g = a - b;
            return 0;
        case MUL:
            g = a * b;
            return 0;
        default:
            if (b.is_zero())
                return a.is_zero() ? 2 : 1;
            g = gq_div(a, b);
            return 0;
    }
}
static int model_pow(const GQ &a, long n, GQ &g)
{
    if (n >= 0) {
        g = gq_pow(a, n); // 0^0 = 1
        return 0;
    }
    if (a.is_zero())
        return 1;
    g = gq_div(GQ{1, 0}, gq_pow(a, -n));
    return 0;
}
static std::string want_key(int cls, const GQ &g)
{
    return cls == 1 ? "Inf(I:0)" : cls == 2 ? "NaN" : model_key(g);
}

struct Obs {
    bool threw = false, libexc = false;
    std::string what, k, kind;
    RCP<const Basic> r;
};
static Obs observe(const std::function<RCP<const Basic>()> &f)
{
    Obs o;
    try {
        o.r = f();
        o.k = key(*o.r);
        o.kind = type_code_name(o.r->get_type_code());
    } catch (SymEngineException &x) {
        o.threw = o.libexc = true;
        o.what = x.what();
        o.kind = "throws";
    } catch (std::exception &x) {
        o.threw = true;
        o.what = x.what();
        o.kind = "throws-std";
    }
    return o;
}

// judge one observation; returns the outcome class
static std::string judge(Ctx &c, const Obs &o, int cls, const GQ &g, const std::string &call, const std::string &sigcall)
{
    std::string want = want_key(cls, g);
    if (o.threw) {
        c.violation(sigcall + "=throws" + (o.libexc ? "" : "-std"),
                    call + " threw '" + o.what + "'; exact model: " + (cls ? want : gq_str(g) + " [" + want + "]"));
        return o.kind;
    }
    if (o.k == want)
        return o.kind;
    // classify: right value in a non-normalised representation, or wrong value
    GQ got;
    std::string how = "wrong-value";
    if (cls == 0 && to_gq(*o.r, got) && got == g)
        how = std::string("not-normalised:") + o.kind + "-for-" + model_kind(g);
    else if (cls != 0)
        how = std::string("wrong-value:expected-") + (cls == 1 ? "zoo" : "nan");
    c.violation(sigcall + "=" + how, call + " = " + sstr(o.r) + " [" + o.k + "]; exact model: " + (cls ? want : gq_str(g) + " [" + want + "]"));
    return o.kind + "!";
}

int main(int argc, char **argv)
{
    init(argc, argv, "C05");
    const bool thorough = opts().thorough();
    const int B = thorough ? 5 : 3;
    // ---- small Gaussian rationals, simplest first (by max(|n|, d), then value)
    std::vector<mpq_class> fr;
    {
        std::set<std::string> s;
        for (int d = 1; d <= B; d++)
            for (int n = -B; n <= B; n++) {
                mpq_class q(n, d);
                q.canonicalize();
                if (s.insert(q.get_str()).second)
                    fr.push_back(q);
            }
        auto height = [](const mpq_class &q) {
            mpz_class a = abs(q.get_num());
            return std::make_tuple(a > q.get_den() ? a : q.get_den(), q.get_den(), a, q < 0 ? 1 : 0);
        };
        std::sort(fr.begin(), fr.end(), [&](const mpq_class &x, const mpq_class &y) { return height(x) < height(y); });
    }
    for (size_t h = 0; h < fr.size(); h++) // order pairs by the larger index: simplest first
        for (size_t i = 0; i <= h; i++) {
            addv(GQ{fr[i], fr[h]});
            addv(GQ{fr[h], fr[i]});
        }
    const size_t nsmall = V.size();
    // ---- fixed multi-limb boundary list (replaces the "random multi-limb" part of the quantifier)
    const char *P31 = "2147483648", *P63 = "9223372036854775808", *P64 = "18446744073709551616",
               *P64m = "18446744073709551615", *P64p = "18446744073709551617", *T40 = "10000000000000000000000000000000000000000",
               *F30_7 = "37893265687455865519472640000000" /* 30!/7 */, *P128p = "340282366920938463463374607431768211457" /* 2^128+1 */;
    std::vector<GQ> big = {
        {Qs(P31), 0},
        {-Qs(P31), 0},
        {Qs(P63), 0},
        {-Qs(P63), 0},
        {Qs(P64m), 0},
        {Qs(P64), 0},
        {Qs(P64p), 0},
        {-Qs(P64m), 0},
        {-Qs(P64p), 0},
        {Qs(T40), 0},
        {-Qs(T40), 0},
        {Qs(F30_7), 0},
        {Qs(P128p, "3"), 0},
        {Qs("3", P128p), 0},
        {Qs(P64p, P64m), 0},
        {Qs("1", P64), 0},
        {-Qs("1", P63), 0},
        {-Qs(P63, "3"), 0},
        {Qs("7", F30_7), 0},
        {0, Qs(P64)},
        {Qs(P63), Qs(P63)},
        {Qs(P64p), -Qs(P64m)},
        {Qs("1", P64), Qs(T40)},
        {-1, Qs(P128p, "3")},
        {Qs(P31), -Qs(P31)},
        {Qs(T40), 1},
        {Qs(P64m, P64p), Qs("1", P31)},
    };
    if (thorough) { // more limb boundaries and forced cancellations (common factors 2^32+1 = 641*6700417, 2^64-1 = (2^32-1)(2^32+1))
        const char *P32 = "4294967296", *P32m = "4294967295", *P32p = "4294967297", *P62 = "4611686018427387904", *P63m = "9223372036854775807",
                   *P63p = "9223372036854775809", *P127 = "170141183460469231731687303715884105728", *P128 = "340282366920938463463374607431768211456",
                   *P128m = "340282366920938463463374607431768211455", *P192p = "6277101735386680763835789423207666416102355444464034512897";
        std::vector<GQ> more = {
            {Qs(P32), 0},
            {Qs(P32m), 0},
            {-Qs(P32p), 0},
            {Qs(P62), 0},
            {Qs(P63m), 0},
            {-Qs(P63p), 0},
            {Qs(P127), 0},
            {-Qs(P128), 0},
            {Qs(P128m), 0},
            {Qs(P192p), 0},
            {Qs(P32p, P64m), 0},
            {Qs(P64m, P32p), 0},
            {-Qs(P128m, P64p), 0},
            {Qs("641", P32), 0},
            {Qs(P63m, P63), 0},
            {-Qs("1", P128), 0},
            {Qs(P32m), Qs(P32p)},
            {0, -Qs(P128m, P64p)},
            {Qs(P127), -Qs("1", P127)},
            {Qs(P192p, "3"), Qs("3", P192p)},
            {-Qs(P63p), Qs(P63m)},
            {Qs("1", P32m), Qs("1", P32p)},
        };
        for (auto &g : more)
            big.push_back(g);
    }
    for (auto &g : big)
        addv(g);
    const long long n = V.size();
    std::vector<long> EXPS;
    for (long e = 0; e <= (thorough ? 12 : 6); e++) {
        EXPS.push_back(e);
        if (e)
            EXPS.push_back(-e);
    }
    for (long e : (thorough ? std::vector<long>{31, 32, 33, 63, 64, 65, 127, 128} : std::vector<long>{64, 127})) {
        EXPS.push_back(e);
        EXPS.push_back(-e);
    }
    const long long ne = EXPS.size();

    // ---- layer 0: the alphabet itself is normalised (constructors from_two_ints / from_two_nums)
    CaseSet c0;
    c0.name = "construct";
    c0.n = n;
    c0.desc = [&](long long i) { return "construct " + V[i].name; };
    c0.body = [&](long long i, Ctx &c) {
        c.eval();
        std::string want = model_key(V[i].m);
        c.outcome(std::string("construct:") + model_kind(V[i].m));
        if (V[i].k != want)
            c.violation(std::string("construct(") + model_kind(V[i].m) + ")=not-normalised",
                        "from_two_ints/from_two_nums for " + V[i].name + " gives [" + V[i].k + "], model [" + want + "]");
    };
    run_cases(c0);

    // ---- layer 1: all ordered pairs x 4 operations x 2 APIs
    enum { K_EVAL_NUM, K_EVAL_TOP, K_INT, K_RAT, K_CPX, K_ZOO, K_NAN, K_DEMOTE, K_MULTILIMB, K_ZERODIV, K_POW_EVAL, K_POW_NEG, K_POW_ZERO_BASE };
    std::vector<std::string> cn = {"evaluations_Number_dispatch", "evaluations_top_level", "expected_Integer", "expected_Rational", "expected_Complex",
                                   "expected_zoo", "expected_nan", "results_demoted_below_operand_kind", "evaluations_with_multi_limb_operand",
                                   "zero_divisor_cases", "pow_evaluations", "pow_negative_exponent", "pow_zero_base"};
    CaseSet cs;
    cs.name = "pair";
    cs.n = n * n;
    cs.counter_names = cn;
    cs.desc = [&](long long i) { return "a=" + V[i / n].name + "  b=" + V[i % n].name + "  ops add,sub,mul,div via Number::op and top-level"; };
    cs.crash_sig = [&](long long i, const std::string &oc) {
        return "pair:" + oc + ":(" + model_kind(V[i / n].m) + "," + model_kind(V[i % n].m) + ")";
    };
    cs.body = [&](long long i, Ctx &c) {
        const Val &a = V[i / n], &b = V[i % n];
        bool big = (size_t)(i / n) >= nsmall || (size_t)(i % n) >= nsmall;
        bool demoted = false;
        for (int op = 0; op < NOPS; op++) {
            GQ g;
            int cls = model_op(op, a.m, b.m, g);
            c.count(cls == 1 ? K_ZOO : cls == 2 ? K_NAN : g.im != 0 ? K_CPX : g.re.get_den() == 1 ? K_INT : K_RAT, 2);
            if (cls)
                c.count(K_ZERODIV, 2);
            std::string want = want_key(cls, g);
            int rank = std::max(kind_rank(a.k), kind_rank(b.k));
            if (kind_rank(want) < rank || cls) {
                demoted = true;
                c.count(K_DEMOTE, 2);
            }
            for (int api = 0; api < 2; api++) {
                Obs o = observe([&]() -> RCP<const Basic> {
                    if (api == 0) {
                        switch (op) {
                            case ADD:
                                return a.e->add(*b.e);
                            case SUB:
                                return a.e->sub(*b.e);
                            case MUL:
                                return a.e->mul(*b.e);
                            default:
                                return a.e->div(*b.e);
                        }
                    }
                    switch (op) {
                        case ADD:
                            return add(a.e, b.e);
                        case SUB:
                            return sub(a.e, b.e);
                        case MUL:
                            return mul(a.e, b.e);
                        default:
                            return div(a.e, b.e);
                    }
                });
                c.eval();
                c.count(api == 0 ? K_EVAL_NUM : K_EVAL_TOP);
                if (big)
                    c.count(K_MULTILIMB);
                std::string fn = std::string(api == 0 ? "Number::" : "") + OPN[op];
                std::string oc = judge(c, o, cls, g, fn + "(" + a.name + ", " + b.name + ")",
                                       fn + "(" + model_kind(a.m) + "," + model_kind(b.m) + ")");
                c.outcome(fn + "(" + model_kind(a.m) + "," + model_kind(b.m) + ")->" + oc);
            }
        }
        if (demoted)
            c.nontrivial();
        if (key(*a.e) != a.k || key(*b.e) != b.k)
            c.violation("operand-mutated(" + std::string(model_kind(a.m)) + "," + model_kind(b.m) + ")",
                        "an operand changed under arithmetic: a=" + a.name + " b=" + b.name);
        if (i % 20011 == 7) {
            GQ g;
            int cls = model_op(DIV, a.m, b.m, g);
            c.sample("{\"op\":\"div\",\"a\":" + jstr(a.name) + ",\"b\":" + jstr(b.name) + ",\"model\":" + jstr(want_key(cls, g)) + ",\"impl\":"
                     + jstr(observe([&]() -> RCP<const Basic> { return div(a.e, b.e); }).k) + "}");
        }
    };
    run_cases(cs);

    // ---- layer 2: integer powers of either sign
    CaseSet cp;
    cp.name = "pow";
    cp.n = n * ne;
    cp.counter_names = cn;
    cp.desc = [&](long long i) { return "base=" + V[i / ne].name + "  exponent=" + std::to_string(EXPS[i % ne]) + "  via Number::pow and pow()"; };
    auto expcls = [&](long e) { return std::string(e == 0 ? "Integer=0" : e > 0 ? "Integer>0" : "Integer<0"); };
    cp.crash_sig = [&](long long i, const std::string &oc) {
        return "pow:" + oc + ":(" + model_kind(V[i / ne].m) + "," + expcls(EXPS[i % ne]) + ")";
    };
    cp.body = [&](long long i, Ctx &c) {
        const Val &a = V[i / ne];
        long e = EXPS[i % ne];
        RCP<const Integer> ex = integer(e);
        GQ g;
        int cls = model_pow(a.m, e, g);
        if (e < 0)
            c.count(K_POW_NEG, 2);
        if (a.m.is_zero())
            c.count(K_POW_ZERO_BASE, 2);
        c.count(cls == 1 ? K_ZOO : cls == 2 ? K_NAN : g.im != 0 ? K_CPX : g.re.get_den() == 1 ? K_INT : K_RAT, 2);
        std::string want = want_key(cls, g);
        if (kind_rank(want) < kind_rank(a.k) || cls) {
            c.count(K_DEMOTE, 2);
            c.nontrivial();
        } else if (e != 0 && e != 1 && !(a.m == GQ{1, 0}) && !a.m.is_zero())
            c.nontrivial();
        for (int api = 0; api < 2; api++) {
            Obs o = observe([&]() -> RCP<const Basic> {
                if (api == 0)
                    return a.e->pow(*ex);
                return pow(a.e, ex);
            });
            c.eval();
            c.count(K_POW_EVAL);
            std::string fn = api == 0 ? "Number::pow" : "pow";
            std::string oc = judge(c, o, cls, g, fn + "(" + a.name + ", " + std::to_string(e) + ")", fn + "(" + model_kind(a.m) + "," + expcls(e) + ")");
            c.outcome(fn + "(" + model_kind(a.m) + "," + expcls(e) + ")->" + oc);
        }
        if (key(*a.e) != a.k)
            c.violation(std::string("operand-mutated-by-pow(") + model_kind(a.m) + ")", "base changed under pow: " + a.name);
        if (i % 4001 == 11)
            c.sample("{\"op\":\"pow\",\"a\":" + jstr(a.name) + ",\"e\":" + std::to_string(e) + ",\"model\":" + jstr(want.substr(0, 80)) + "}");
    };
    run_cases(cp);

    Run &R = run();
    R.states = n;
    R.transitions = R.evaluations;
    R.counters["alphabet_small_gaussian_rationals"] = nsmall;
    R.counters["alphabet_multi_limb_values"] = n - nsmall;
    R.counters["exponents"] = ne;
    R.bound_completed = "full table: " + std::to_string(n) + " exact values (" + std::to_string(nsmall) + " Gaussian rationals with |num|<=" + std::to_string(B)
                        + ", den<=" + std::to_string(B) + "; " + std::to_string(n - nsmall) + " fixed multi-limb values), all " + std::to_string(n * n)
                        + " ordered pairs x {add,sub,mul,div} x {Number::op, top-level}; every value x " + std::to_string(ne)
                        + " integer exponents x {Number::pow, pow()}";
    R.rule = "every ordered pair of the alphabet through add/sub/mul/div (Number double dispatch and top-level functions) and every value through integer "
             "powers of both signs; each result's structural key (raw stored numerator/denominator, kind) must equal the key of the GMP Gaussian-rational "
             "model value in normal form (Integer iff den=1, Rational lowest terms den>0, Complex iff im!=0, x/0=zoo, 0/0=nan, 0^-n=zoo); operands must be "
             "unchanged. distinct_nontrivial = pairs (or base/exponent cases) where normalisation had to act: some result is of a lower kind than the operands "
             "or is zoo/nan (for pow also: any non-identity power)";
    R.assumptions = {"GMP mpq arithmetic (core/exact.h Gaussian rationals) is correct", "key() reads the stored numerator/denominator without normalising",
                     "multi-limb operands are a fixed boundary list (2^31, 2^63, 2^64-1, 2^64, 2^64+1, 10^40, 30!/7, (2^128+1)/3, reciprocals, as real and imaginary parts), "
                     "not random draws"};
    return R.finish();
}
