// a9_terms.h -- helpers shared by the drivers C10, C11, C39 (author a9): operator menus, layered
// E1 state construction with a crash-isolated constructor pass, independent symbol walks
// (free / structural), two-environment value comparison under the two-sided cut rule.
#ifndef VERIF_A9_TERMS_H
#define VERIF_A9_TERMS_H
#include "common.h"
#include "explore.h"
#include "refeval.h"

namespace a9
{
using namespace verif;
typedef RCP<const Basic> B;

struct UnOp {
    std::string name;
    std::function<B(const B &)> f;
};
struct BinOp {
    std::string name;
    std::function<B(const B &, const B &)> f;
};

inline std::vector<BinOp> arith_ops()
{
    return {{"add", [](const B &a, const B &b) { return add(a, b); }},
            {"sub", [](const B &a, const B &b) { return sub(a, b); }},
            {"mul", [](const B &a, const B &b) { return mul(a, b); }},
            {"div", [](const B &a, const B &b) { return div(a, b); }},
            {"pow", [](const B &a, const B &b) { return pow(a, b); }}};
}

#define A9_UN(fn)                                                                                                      \
    {                                                                                                                  \
#fn, [](const B &a) { return B(fn(a)); }                                                                       \
    }
// every one-argument function with a differentiation rule (or the Derivative fallback)
inline std::vector<UnOp> all_unary()
{
    return {A9_UN(sin),      A9_UN(cos),     A9_UN(tan),      A9_UN(cot),   A9_UN(sec),     A9_UN(csc),
            A9_UN(asin),     A9_UN(acos),    A9_UN(atan),     A9_UN(acot),  A9_UN(asec),    A9_UN(acsc),
            A9_UN(sinh),     A9_UN(cosh),    A9_UN(tanh),     A9_UN(coth),  A9_UN(sech),    A9_UN(csch),
            A9_UN(asinh),    A9_UN(acosh),   A9_UN(atanh),    A9_UN(acoth), A9_UN(asech),   A9_UN(acsch),
            A9_UN(log),      A9_UN(exp),     A9_UN(sqrt),     A9_UN(cbrt),  A9_UN(lambertw), A9_UN(gamma),
            A9_UN(loggamma), A9_UN(erf),     A9_UN(erfc),     A9_UN(abs),   A9_UN(sign),    A9_UN(floor),
            A9_UN(ceiling),  A9_UN(truncate), A9_UN(conjugate), A9_UN(zeta), A9_UN(dirichlet_eta), A9_UN(digamma),
            A9_UN(unevaluated_expr),
            {"f", [](const B &a) { return function_symbol("f", a); }}};
}
inline std::vector<BinOp> all_binfun()
{
    return {{"atan2", [](const B &a, const B &b) { return atan2(a, b); }},
            {"logb", [](const B &a, const B &b) { return log(a, b); }},
            {"beta", [](const B &a, const B &b) { return beta(a, b); }},
            {"lowergamma", [](const B &a, const B &b) { return lowergamma(a, b); }},
            {"uppergamma", [](const B &a, const B &b) { return uppergamma(a, b); }},
            {"polygamma", [](const B &a, const B &b) { return polygamma(a, b); }},
            {"zeta2", [](const B &a, const B &b) { return zeta(a, b); }},
            {"kronecker_delta", [](const B &a, const B &b) { return kronecker_delta(a, b); }},
            {"max", [](const B &a, const B &b) { return max({a, b}); }},
            {"min", [](const B &a, const B &b) { return min({a, b}); }},
            {"g", [](const B &a, const B &b) { return function_symbol("g", {a, b}); }}};
}

// ------------------------------------------------------------------ node predicates
inline bool contains_type(const Basic &e, const std::set<TypeID> &ts)
{
    if (ts.count(e.get_type_code()))
        return true;
    for (auto &a : e.get_args())
        if (contains_type(*a, ts))
            return true;
    return false;
}
inline bool has_nonfinite(const Basic &e)
{
    static const std::set<TypeID> ts = {SYMENGINE_INFTY, SYMENGINE_NOT_A_NUMBER};
    return contains_type(e, ts);
}

// ------------------------------------------------------------------ independent symbol walks
// identity of a symbol that does not rely on the library's eq/hash
inline std::string sym_id(const Basic &s)
{
    if (is_a<Dummy>(s))
        return "Dm:" + down_cast<const Dummy &>(s).get_name() + "#" + std::to_string(down_cast<const Dummy &>(s).get_index());
    return "S:" + down_cast<const Symbol &>(s).get_name();
}

typedef std::set<std::string> SymSet;

// free==true: symbols outside bound positions (Subs variables, ConditionSet/ImageSet symbol are bound);
// free==false: every structural occurrence.
inline void walk_symbols(const Basic &e, SymSet &out, bool free)
{
    switch (e.get_type_code()) {
        case SYMENGINE_SYMBOL:
        case SYMENGINE_DUMMY:
            out.insert(sym_id(e));
            return;
        case SYMENGINE_ADD: {
            const Add &a = down_cast<const Add &>(e);
            for (auto &p : a.get_dict())
                walk_symbols(*p.first, out, free);
            return;
        }
        case SYMENGINE_MUL: {
            const Mul &m = down_cast<const Mul &>(e);
            for (auto &p : m.get_dict()) {
                walk_symbols(*p.first, out, free);
                walk_symbols(*p.second, out, free);
            }
            return;
        }
        case SYMENGINE_POW: {
            const Pow &p = down_cast<const Pow &>(e);
            walk_symbols(*p.get_base(), out, free);
            walk_symbols(*p.get_exp(), out, free);
            return;
        }
        case SYMENGINE_SUBS: {
            const Subs &s = down_cast<const Subs &>(e);
            SymSet inner;
            walk_symbols(*s.get_arg(), inner, free);
            for (auto &p : s.get_dict()) {
                if (free) {
                    SymSet v;
                    walk_symbols(*p.first, v, false);
                    for (auto &x : v)
                        inner.erase(x);
                } else
                    walk_symbols(*p.first, inner, false);
            }
            out.insert(inner.begin(), inner.end());
            for (auto &p : s.get_dict())
                walk_symbols(*p.second, out, free);
            return;
        }
        case SYMENGINE_DERIVATIVE: {
            const Derivative &d = down_cast<const Derivative &>(e);
            walk_symbols(*d.get_arg(), out, free);
            for (auto &s : d.get_symbols())
                walk_symbols(*s, out, free);
            return;
        }
        case SYMENGINE_CONDITIONSET: {
            const ConditionSet &s = down_cast<const ConditionSet &>(e);
            SymSet inner;
            walk_symbols(*s.get_condition(), inner, free);
            if (free)
                inner.erase(sym_id(*s.get_symbol()));
            else
                inner.insert(sym_id(*s.get_symbol()));
            out.insert(inner.begin(), inner.end());
            return;
        }
        case SYMENGINE_IMAGESET: {
            const ImageSet &s = down_cast<const ImageSet &>(e);
            SymSet inner;
            walk_symbols(*s.get_expr(), inner, free);
            if (free)
                inner.erase(sym_id(*s.get_symbol()));
            else
                inner.insert(sym_id(*s.get_symbol()));
            out.insert(inner.begin(), inner.end());
            walk_symbols(*s.get_baseset(), out, free);
            return;
        }
        case SYMENGINE_PIECEWISE: {
            for (auto &p : down_cast<const Piecewise &>(e).get_vec()) {
                walk_symbols(*p.first, out, free);
                walk_symbols(*p.second, out, free);
            }
            return;
        }
        case SYMENGINE_UINTPOLY:
            walk_symbols(*down_cast<const UIntPoly &>(e).get_var(), out, free);
            return;
        case SYMENGINE_URATPOLY:
            walk_symbols(*down_cast<const URatPoly &>(e).get_var(), out, free);
            return;
        case SYMENGINE_GALOISFIELD:
            walk_symbols(*down_cast<const GaloisField &>(e).get_var(), out, free);
            return;
        case SYMENGINE_UEXPRPOLY: {
            const UExprPoly &p = down_cast<const UExprPoly &>(e);
            walk_symbols(*p.get_var(), out, free);
            for (auto &t : p.get_poly().get_dict())
                walk_symbols(*t.second.get_basic(), out, free);
            return;
        }
        case SYMENGINE_MINTPOLY:
            for (auto &v : down_cast<const MIntPoly &>(e).get_vars())
                walk_symbols(*v, out, free);
            return;
        case SYMENGINE_MEXPRPOLY: {
            const MExprPoly &p = down_cast<const MExprPoly &>(e);
            for (auto &v : p.get_vars())
                walk_symbols(*v, out, free);
            for (auto &t : p.get_poly().dict_)
                walk_symbols(*t.second.get_basic(), out, free);
            return;
        }
        default:
            for (auto &a : e.get_args())
                walk_symbols(*a, out, free);
            return;
    }
}
inline SymSet my_free(const Basic &e)
{
    SymSet s;
    walk_symbols(e, s, true);
    return s;
}
inline SymSet my_all_symbols(const Basic &e)
{
    SymSet s;
    walk_symbols(e, s, false);
    return s;
}

// ------------------------------------------------------------------ short class of an expression
inline std::string cls(const Basic &e, int depth = 1)
{
    std::string t = type_code_name(e.get_type_code());
    if (depth <= 0)
        return t;
    if (is_a<Pow>(e)) {
        const Pow &p = down_cast<const Pow &>(e);
        return "Pow(" + cls(*p.get_base(), depth - 1) + "," + cls(*p.get_exp(), depth - 1) + ")";
    }
    if (is_a<FunctionSymbol>(e) || is_a<Add>(e) || is_a<Mul>(e) || is_a_Number(e) || is_a<Symbol>(e) || is_a<Dummy>(e)
        || is_a<Constant>(e))
        return t;
    vec_basic a = e.get_args();
    if (a.empty() || a.size() > 4)
        return t;
    std::string o = t + "(";
    for (size_t i = 0; i < a.size(); i++)
        o += (i ? "," : "") + cls(*a[i], depth - 1);
    return o + ")";
}

// ------------------------------------------------------------------ two-environment comparison
struct CmpResult {
    int res = -1; // 1 equal, 0 different, -1 undecidable
    std::string why;
    rq relerr = 0; // smallest |a-b|/scale over the side pairings
    bool has_float = false;
};
// value of a under ea versus value of b under eb; two-sided cut rule as refeval.h same_value
inline CmpResult cmp_values(const Basic &a, const Env &ea, const Basic &b, const Env &eb, rq tol_exact = 1e-25Q,
                            rq tol_float = 1e-9Q)
{
    CmpResult r;
    Value xs[2], ys[2];
    xs[0] = refeval(a, ea, +1);
    if (!xs[0].ok) {
        r.why = "lhs:" + xs[0].why;
        return r;
    }
    ys[0] = refeval(b, eb, +1);
    if (!ys[0].ok) {
        r.why = "rhs:" + ys[0].why;
        return r;
    }
    r.has_float = xs[0].has_float || ys[0].has_float;
    rq tol = (r.has_float ? tol_float : tol_exact) * (rq)(xs[0].nodes + ys[0].nodes + 1);
    rq scale = fmaxq(xs[0].scale, ys[0].scale);
    auto rel = [&](cq p, cq q) {
        rq s = fmaxq(fmaxq(absq(p), absq(q)), scale);
        if (s < 1e-300Q)
            s = 1e-300Q;
        return absq(p - q) / s;
    };
    r.relerr = rel(xs[0].v, ys[0].v);
    if (r.relerr <= tol) {
        r.res = 1;
        return r;
    }
    if (xs[0].on_cut || ys[0].on_cut) {
        xs[1] = refeval(a, ea, -1);
        ys[1] = refeval(b, eb, -1);
        if (!xs[1].ok || !ys[1].ok) {
            r.why = "cut-side-eval-failed";
            return r;
        }
        for (int i = 0; i < 2; i++)
            for (int j = 0; j < 2; j++) {
                rq e = rel(xs[i].v, ys[j].v);
                r.relerr = fminq(r.relerr, e);
                if (e <= tol) {
                    r.res = 1;
                    return r;
                }
            }
    }
    r.res = 0;
    r.why = "lhs=" + cstr(xs[0].v) + " rhs=" + cstr(ys[0].v);
    return r;
}

// ------------------------------------------------------------------ layered construction
struct Trans {
    int kind; // 0 unary, 1 binary
    int op, a, b;
};
struct Builder {
    StateSet SS;
    std::vector<UnOp> un;
    std::vector<BinOp> bin;
    uint64_t dropped_nonfinite = 0, refused = 0;
    std::function<bool(const B &)> keep; // optional extra filter

    std::string recipe(const Trans &t) const
    {
        if (t.kind == 0)
            return un[t.op].name + "(" + SS.S[t.a].recipe + ")";
        return bin[t.op].name + "(" + SS.S[t.a].recipe + ", " + SS.S[t.b].recipe + ")";
    }
    B apply(const Trans &t) const
    {
        if (t.kind == 0)
            return un[t.op].f(SS.S[t.a].e);
        return bin[t.op].f(SS.S[t.a].e, SS.S[t.b].e);
    }
    // Execute the constructor calls in isolated workers first, then build states in the parent only from
    // transitions that ran cleanly. Returns [first,last) indices of the new states.
    std::pair<int, int> layer(const std::string &name, const std::vector<Trans> &ts, int depth)
    {
        CaseSet cs;
        cs.name = "construct:" + name;
        cs.n = ts.size();
        cs.counter_names = {"constructor_calls", "constructor_refused(exception)"};
        cs.desc = [&](long long i) { return recipe(ts[i]); };
        cs.crash_sig = [&](long long i, const std::string &oc) {
            const Trans &t = ts[i];
            return "construct:" + oc + ":" + (t.kind == 0 ? un[t.op].name : bin[t.op].name);
        };
        cs.body = [&](long long i, Ctx &c) {
            c.count(0);
            try {
                B r = apply(ts[i]);
                (void)r;
            } catch (std::exception &) {
                c.count(1);
            }
        };
        run_cases(cs);
        int first = SS.size();
        if (replaying())
            ; // states must still be built identically so that indices are reproducible
        for (size_t i = 0; i < ts.size(); i++) {
            if (cs.bad.count(i))
                continue;
            try {
                B r = apply(ts[i]);
                if (has_nonfinite(*r)) {
                    dropped_nonfinite++;
                    continue;
                }
                if (keep && !keep(r))
                    continue;
                SS.add(r, recipe(ts[i]), depth);
            } catch (std::exception &) {
                refused++;
            }
        }
        return {first, (int)SS.size()};
    }
};

inline Env env_with(const Env &e, const std::string &name, cq v)
{
    Env r = e;
    r.sym[name] = v;
    return r;
}

} // namespace a9
#endif
