// C43  Results do not depend on the integer backend -- E5 x configurations (DESIGN 5 C43)
//
// One source, compiled against every integer backend (plain = GMP C wrapper classes of
// mp_wrapper.h, gmpxx = mpz_class, boostmp = boost::multiprecision cpp_int + mp_boost.cpp).
// `--transcript` prints one line per call of a fixed exhaustive exact workload; the main
// instance runs every sibling executable (env VERIF_EXES) chunk by chunk, compares the
// transcripts line by line and additionally compares them with GMP computed directly by
// the driver (mpz_* on operands built from decimal strings; never through integer_class).
#include "common.h"
#include "key.h"
#include "exact.h"
#include <setjmp.h>
#include <poll.h>
#include <sys/time.h>
#include <dirent.h>
using namespace verif;

// ------------------------------------------------------------------ values
struct IV {
    std::string s, kind;
    integer_class v;
    mpz_class z;
    bool multi = false;
    long sl = 0; // value when it fits a long
};
typedef const IV &CI;
static std::string zs(const mpz_class &z)
{
    return z.get_str();
}
static IV mk(const std::string &s)
{
    IV x;
    x.s = s;
    x.v = integer_class(s);
    x.z = mpz_class(s, 10);
    size_t bits = mpz_sizeinbase(x.z.get_mpz_t(), 2);
    int sg = sgn(x.z);
    x.multi = bits > 64;
    if (x.z.fits_slong_p())
        x.sl = x.z.get_si();
    if (sg == 0)
        x.kind = "0";
    else if (x.z == 1)
        x.kind = "+1";
    else if (x.z == -1)
        x.kind = "-1";
    else
        x.kind = std::string(sg > 0 ? "+" : "-") + (bits <= 31 ? "s" : bits <= 64 ? "w" : "m");
    return x;
}
static IV mkz(const mpz_class &z)
{
    return mk(z.get_str());
}
static mpz_class zpow(const mpz_class &b, unsigned long e)
{
    mpz_class r;
    mpz_pow_ui(r.get_mpz_t(), b.get_mpz_t(), e);
    return r;
}
static mpz_class Z(const char *s)
{
    return mpz_class(s, 10);
}
static std::vector<IV> rng(long lo, long hi)
{
    std::vector<IV> v;
    for (long i = lo; i <= hi; i++)
        v.push_back(mk(std::to_string(i)));
    return v;
}
static std::vector<IV> lst(std::initializer_list<const char *> l)
{
    std::vector<IV> v;
    for (auto s : l)
        v.push_back(mk(s));
    return v;
}
static void addu(std::vector<IV> &v, const mpz_class &z) // append unless present
{
    std::string s = z.get_str();
    for (auto &x : v)
        if (x.s == s)
            return;
    v.push_back(mk(s));
}

struct QV {
    std::string s, kind;
    rational_class v;
    mpq_class z;
    bool multi = false;
};
typedef const QV &CQ;
static QV mkq(const std::string &n, const std::string &d) // d > 0, not necessarily canonical
{
    QV q;
    q.s = n + "/" + d;
    q.v = rational_class(integer_class(n), integer_class(d));
    canonicalize(q.v);
    q.z = mpq_class(mpz_class(n, 10), mpz_class(d, 10));
    q.z.canonicalize();
    IV a = mk(n), b = mk(d);
    q.multi = a.multi || b.multi;
    q.kind = a.kind + "/" + b.kind;
    return q;
}
struct NV {
    std::string s, kind;
    RCP<const Number> v;
    mpq_class z;
    bool multi = false;
};
typedef const NV &CN;

// ------------------------------------------------------------------ printing
static std::string S(const integer_class &i)
{
    std::ostringstream s;
    s << i;
    return s.str();
}
static std::string S(const rational_class &q)
{
    integer_class n = get_num(q), d = get_den(q);
    return S(n) + "/" + S(d);
}
static std::string SQ(const mpq_class &q)
{
    return q.get_num().get_str() + "/" + q.get_den().get_str();
}
static std::string K(const RCP<const Basic> &e)
{
    return key(*e);
}
static std::string NK(const mpq_class &q) // key() of the Number with value q
{
    if (q.get_den() == 1)
        return "I:" + q.get_num().get_str();
    return "Q:" + q.get_num().get_str() + "/" + q.get_den().get_str();
}
static std::string B(bool b)
{
    return b ? "1" : "0";
}
static RCP<const Integer> IN(CI a)
{
    return integer(a.v);
}

// ------------------------------------------------------------------ groups
struct Out {
    std::string desc, kinds, tags, res, ref, skip; // kinds: operand size classes (description); tags: defect-relevant argument class (signature)
    bool nontriv = false;
};
enum { DESC = 0, EXEC = 1, REF = 2 };
struct Group {
    std::string fn;
    long long n = 0;
    bool has_ref = false;
    std::function<void(long long, int, Out &)> f;
};
static std::vector<Group> GS;
static std::vector<long long> OFF;
static long long NCALLS = 0;

typedef std::function<std::string(CI)> F1;
typedef std::function<std::string(CI, CI)> F2;
typedef std::function<std::string(CI, CI, CI)> F3;
typedef std::vector<IV> AV;

static void tagskip(const std::string &t, Out &o)
{
    if (!t.empty() && t[0] == '!')
        o.skip = t.substr(1);
    else if (!t.empty())
        o.tags = t;
}
static void add_un(const std::string &fn, const AV &X, F1 pre, F1 exec, F1 ref)
{
    const AV *px = &X;
    Group g;
    g.fn = fn;
    g.n = X.size();
    g.has_ref = (bool)ref;
    g.f = [=](long long k, int mode, Out &o) {
        CI a = (*px)[k];
        if (mode == DESC) {
            o.desc = fn + "(" + a.s + ")";
            o.kinds = a.kind;
            o.nontriv = a.multi;
            tagskip(pre ? pre(a) : "", o);
        } else if (mode == EXEC)
            o.res = exec(a);
        else if (ref)
            o.ref = ref(a);
    };
    GS.push_back(g);
}
static void add_bin(const std::string &fn, const AV &X, const AV &Y, F2 pre, F2 exec, F2 ref)
{
    const AV *px = &X, *py = &Y;
    Group g;
    g.fn = fn;
    g.n = (long long)X.size() * Y.size();
    g.has_ref = (bool)ref;
    g.f = [=](long long k, int mode, Out &o) {
        CI a = (*px)[k / py->size()], b = (*py)[k % py->size()];
        if (mode == DESC) {
            o.desc = fn + "(" + a.s + ", " + b.s + ")";
            o.kinds = a.kind + "," + b.kind;
            o.nontriv = a.multi || b.multi;
            tagskip(pre ? pre(a, b) : "", o);
        } else if (mode == EXEC)
            o.res = exec(a, b);
        else if (ref)
            o.ref = ref(a, b);
    };
    GS.push_back(g);
}
static void add_tri(const std::string &fn, const AV &X, const AV &Y, const AV &W, F3 pre, F3 exec, F3 ref)
{
    const AV *px = &X, *py = &Y, *pw = &W;
    Group g;
    g.fn = fn;
    g.n = (long long)X.size() * Y.size() * W.size();
    g.has_ref = (bool)ref;
    g.f = [=](long long k, int mode, Out &o) {
        CI a = (*px)[k / (py->size() * pw->size())], b = (*py)[(k / pw->size()) % py->size()], c = (*pw)[k % pw->size()];
        if (mode == DESC) {
            o.desc = fn + "(" + a.s + ", " + b.s + ", " + c.s + ")";
            o.kinds = a.kind + "," + b.kind + "," + c.kind;
            o.nontriv = a.multi || b.multi || c.multi;
            tagskip(pre ? pre(a, b, c) : "", o);
        } else if (mode == EXEC)
            o.res = exec(a, b, c);
        else if (ref)
            o.ref = ref(a, b, c);
    };
    GS.push_back(g);
}
// generic list of named thunks (symbolic workloads)
struct Item {
    std::string desc, kind;
    bool nontriv;
    std::function<std::string()> exec, ref;
};
static void add_items(const std::string &fn, std::shared_ptr<std::vector<Item>> items)
{
    Group g;
    g.fn = fn;
    g.n = items->size();
    g.has_ref = false;
    for (auto &it : *items)
        if (it.ref)
            g.has_ref = true;
    g.f = [=](long long k, int mode, Out &o) {
        const Item &it = (*items)[k];
        if (mode == DESC) {
            o.desc = fn + "(" + it.desc + ")";
            o.tags = it.kind;
            o.nontriv = it.nontriv;
        } else if (mode == EXEC)
            o.res = it.exec();
        else if (it.ref)
            o.ref = it.ref();
    };
    GS.push_back(g);
}

static void build_groups(bool thorough); // below

static void locate(long long i, const Group *&g, long long &k)
{
    size_t gi = std::upper_bound(OFF.begin(), OFF.end(), i) - OFF.begin() - 1;
    g = &GS[gi];
    k = i - OFF[gi];
}

// ------------------------------------------------------------------ guarded execution (transcript side)
static sigjmp_buf JB;
static volatile sig_atomic_t ARMED = 0;
static std::string GRES;
static double CPU_LIMIT_S = 8; // per call, CPU time of the child (independent of machine load)
static void on_fpe(int sig)
{
    if (ARMED) {
        ARMED = 0;
        siglongjmp(JB, sig == SIGVTALRM ? 2 : 1);
    }
    if (sig == SIGVTALRM)
        return;
    signal(SIGFPE, SIG_DFL);
    raise(SIGFPE);
}
static void set_cpu_timer(double s)
{
    struct itimerval it;
    memset(&it, 0, sizeof it);
    it.it_value.tv_sec = (long)s;
    it.it_value.tv_usec = (long)((s - (long)s) * 1e6);
    setitimer(ITIMER_VIRTUAL, &it, nullptr);
}
static double cpu_now()
{
    struct timespec ts;
    clock_gettime(CLOCK_PROCESS_CPUTIME_ID, &ts);
    return ts.tv_sec + 1e-9 * ts.tv_nsec;
}
static std::string clean(std::string s)
{
    for (auto &c : s)
        if (c == '\t' || c == '\n' || c == '\r')
            c = ' ';
    return s;
}
static std::string guarded(const Group &g, long long k)
{
    Out d;
    g.f(k, DESC, d);
    if (!d.skip.empty())
        return "SKIP:" + d.skip;
    int jr = sigsetjmp(JB, 1);
    if (jr == 0) {
        ARMED = 1;
        set_cpu_timer(CPU_LIMIT_S);
        try {
            Out o;
            g.f(k, EXEC, o);
            GRES = o.res;
        } catch (SymEngineException &e) {
            GRES = "EXC:SymEngineException/" + std::to_string((int)e.error_code());
        } catch (std::bad_alloc &) {
            GRES = "EXC:std::bad_alloc";
        } catch (std::exception &) {
            GRES = "EXC:std::exception";
        } catch (...) {
            GRES = "EXC:unknown";
        }
        ARMED = 0;
        set_cpu_timer(0);
    } else if (jr == 2) {
        GRES = "TIMEOUT:cpu>" + std::to_string((int)CPU_LIMIT_S) + "s";
    } else {
        set_cpu_timer(0);
        GRES = "SIGNAL:SIGFPE"; // GMP raises SIGFPE for division by zero / even root of a negative
    }
    return clean(GRES);
}

static int transcript_main(long long from, long long to, bool list_only)
{
    struct rlimit rl;
    rl.rlim_cur = rl.rlim_max = (rlim_t)3 << 30;
    setrlimit(RLIMIT_AS, &rl);
    struct sigaction sa;
    memset(&sa, 0, sizeof sa);
    sa.sa_handler = on_fpe;
    sa.sa_flags = SA_NODEFER;
    sigaction(SIGFPE, &sa, nullptr);
    sigaction(SIGVTALRM, &sa, nullptr);
    const bool slowlog = getenv("C43_SLOW") != nullptr;
    if (to < 0 || to > NCALLS)
        to = NCALLS;
    for (long long i = std::max(0LL, from); i < to; i++) {
        const Group *g;
        long long k;
        locate(i, g, k);
        Out d;
        g->f(k, DESC, d);
        if (list_only) {
            printf("%lld\t%s\t[%s]%s\n", i, clean(d.desc).c_str(), d.kinds.c_str(), d.skip.empty() ? "" : (" SKIP:" + d.skip).c_str());
            continue;
        }
        double c0 = cpu_now();
        std::string r = guarded(*g, k);
        if (slowlog && cpu_now() - c0 > 0.05)
            fprintf(stderr, "SLOW %.2fs #%lld %s\n", cpu_now() - c0, i, clean(d.desc).substr(0, 150).c_str());
        printf("%lld\t%s\t%s\n", i, clean(d.desc).c_str(), r.c_str());
        fflush(stdout);
    }
    return 0;
}

// ------------------------------------------------------------------ running a sibling (comparison side)
static std::vector<std::string> EXES, EXENAME;
static std::string TIER = "quick";
static double STALL_S = 150; // wall-clock backstop; the child limits every call to CPU_LIMIT_S of CPU time

static std::string signame(int s)
{
    return std::string("CRASH:") + strsignal(s);
}
// runs exe over [a,b); fills res[i-a]; resumes after a crash/hang of a single call
static void run_range(const std::string &exe, long long a, long long b, std::vector<std::string> &res, std::vector<std::string> &descs,
                      bool confirm)
{
    res.assign(b - a, "");
    descs.assign(b - a, "");
    long long cur = a;
    long long spawns = 0;
    int confirmed = 0;
    while (cur < b) {
        if (++spawns > (b - a) + 20) { // every respawn consumes at least one call
            for (long long i = cur; i < b; i++)
                res[i - a] = "MACHINERY:too-many-respawns";
            return;
        }
        int fd[2];
        if (pipe(fd) != 0) {
            res[cur - a] = "MACHINERY:pipe";
            return;
        }
        pid_t p = fork();
        if (p == 0) {
            dup2(fd[1], 1);
            close(fd[0]);
            close(fd[1]);
            int dn = open("/dev/null", O_WRONLY);
            if (dn >= 0)
                dup2(dn, 2);
            std::string fa = std::to_string(cur), fb = std::to_string(b);
            execl(exe.c_str(), exe.c_str(), "--transcript", "--tier", TIER.c_str(), "--from", fa.c_str(), "--to", fb.c_str(), (char *)nullptr);
            _exit(127);
        }
        close(fd[1]);
        std::string buf;
        double last = now();
        bool hung = false;
        while (true) {
            struct pollfd pf = {fd[0], POLLIN, 0};
            int pr = poll(&pf, 1, 500);
            if (pr > 0) {
                char tmp[65536];
                ssize_t n = read(fd[0], tmp, sizeof tmp);
                if (n <= 0)
                    break;
                buf.append(tmp, n);
                last = now();
                size_t pos;
                while ((pos = buf.find('\n')) != std::string::npos) {
                    std::string line = buf.substr(0, pos);
                    buf.erase(0, pos + 1);
                    size_t t1 = line.find('\t'), t2 = line.find('\t', t1 + 1);
                    if (t1 == std::string::npos || t2 == std::string::npos || atoll(line.c_str()) != cur || cur >= b)
                        continue; // stray output
                    descs[cur - a] = line.substr(t1 + 1, t2 - t1 - 1);
                    res[cur - a] = line.substr(t2 + 1);
                    cur++;
                }
            } else if (now() - last > STALL_S) {
                hung = true;
                break;
            }
        }
        close(fd[0]);
        int st = 0;
        if (hung) {
            kill(p, SIGKILL);
            waitpid(p, &st, 0);
            if (cur < b)
                res[cur - a] = "HANG(>" + std::to_string((int)STALL_S) + "s)", cur++;
            continue;
        }
        waitpid(p, &st, 0);
        if (cur < b) {
            std::string why = WIFSIGNALED(st) ? signame(WTERMSIG(st)) : "EXIT:" + std::to_string(WEXITSTATUS(st));
            if (WIFEXITED(st) && WEXITSTATUS(st) == 0)
                why = "MACHINERY:missing-line";
            if (confirm && why.rfind("CRASH", 0) == 0 && ++confirmed <= 5) { // re-run the single call in a fresh process (first few per range)
                std::vector<std::string> r1, d1;
                run_range(exe, cur, cur + 1, r1, d1, false);
                if (r1[0].rfind("CRASH", 0) != 0)
                    why += "(state-dependent; alone: " + r1[0] + ")";
            }
            res[cur - a] = why;
            cur++;
        }
    }
}

static std::string rclass(const std::string &r) // coarse class of a result for signatures
{
    if (r.rfind("EXC:SymEngine", 0) == 0)
        return "exc:SymEngine";
    if (r.rfind("EXC:", 0) == 0)
        return "exc:std";
    if (r.rfind("SIGNAL:", 0) == 0)
        return "SIGFPE";
    if (r.rfind("CRASH", 0) == 0)
        return "crash";
    if (r.rfind("HANG", 0) == 0 || r.rfind("TIMEOUT", 0) == 0)
        return "hang";
    if (r.rfind("EXIT", 0) == 0 || r.rfind("MACHINERY", 0) == 0)
        return "machinery";
    return "val";
}
static std::string oclass(const std::string &r) // outcome class (vacuity guard): digit runs collapsed
{
    std::string o;
    for (size_t i = 0; i < r.size() && o.size() < 60;) {
        if (isdigit((unsigned char)r[i])) {
            size_t j = i;
            while (j < r.size() && isdigit((unsigned char)r[j]))
                j++;
            size_t len = j - i;
            if (len == 1 && (r[i] == '0' || r[i] == '1'))
                o += r[i];
            else
                o += len <= 9 ? "S" : len <= 19 ? "W" : "M";
            i = j;
        } else
            o += r[i++];
    }
    return o;
}

// The backends must be built from the same source state: bin/vcheck builds the three libraries one after the other (minutes),
// and /repo may be edited in between.  bin/vcheck writes a digest of the library sources (names, sizes, mtimes) next to each
// library just before building it; the digests of all configurations in this run must be equal.  (A first version compared
// file times with the archives' and wrongly refused to run after an edit of a file that only one backend compiles,
// e.g. mp_boost.cpp, because the other archives are then legitimately not rewritten.)
static bool builds_consistent(std::string &why)
{
    std::string first, firstlib;
    for (auto &e : EXES) {
        size_t p = e.rfind("/drv/");
        if (p == std::string::npos)
            continue;
        std::string f = e.substr(0, p) + "/lib/.source_state";
        std::ifstream in(f);
        std::string st;
        std::getline(in, st);
        if (st.empty()) {
            why = f + " missing (library not built by this bin/vcheck)";
            return false;
        }
        if (first.empty())
            first = st, firstlib = f;
        else if (st != first) {
            why = f + " differs from " + firstlib;
            return false;
        }
    }
    return true;
}

static long long CHUNK = 256;

int main(int argc, char **argv)
{
    bool transcript = false, list_only = false;
    long long from = 0, to = -1;
    for (int i = 1; i < argc; i++) {
        std::string a = argv[i];
        if (a == "--transcript")
            transcript = true;
        else if (a == "--list")
            transcript = list_only = true;
        else if (a == "--from" && i + 1 < argc)
            from = atoll(argv[++i]);
        else if (a == "--to" && i + 1 < argc)
            to = atoll(argv[++i]);
        else if (a == "--tier" && i + 1 < argc)
            TIER = argv[++i];
    }
    if (transcript) {
        build_groups(TIER == "thorough");
        return transcript_main(from, to, list_only);
    }
    init(argc, argv, "C43");
    TIER = opts().tier;
    bool thorough = opts().thorough();
    build_groups(thorough);
    const char *ex = getenv("VERIF_EXES");
    if (!ex || !*ex) {
        fprintf(stderr, "C43: VERIF_EXES not set (run through bin/vcheck)\n");
        return 2;
    }
    {
        std::stringstream ss(ex);
        std::string e;
        while (std::getline(ss, e, ':'))
            if (!e.empty()) {
                EXES.push_back(e);
                // .../build[/tag]/<cfg>/drv/C43
                size_t p = e.rfind("/drv/");
                size_t q = p == std::string::npos ? std::string::npos : e.rfind('/', p - 1);
                EXENAME.push_back(p == std::string::npos ? e : e.substr(q + 1, p - q - 1));
            }
    }
    if (EXES.size() < 2) {
        fprintf(stderr, "C43: needs at least two backends in VERIF_EXES\n");
        return 2;
    }
    {
        std::string why;
        if (!replaying() && !builds_consistent(why)) {
            fprintf(stderr, "C43: the backend libraries were not built from the same source state (%s): the repository changed while bin/vcheck "
                            "was building; run again\n", why.c_str());
            return 2;
        }
    }
    const size_t NB = EXES.size();
    // ~96 (quick) / ~256 (thorough) chunks: every worker is used and few processes are spawned; deterministic per tier
    CHUNK = std::max(64LL, (NCALLS + (thorough ? 256 : 96) - 1) / (thorough ? 256 : 96));
    const long long nchunks = (NCALLS + CHUNK - 1) / CHUNK;

    CaseSet cs;
    cs.name = "chunk";
    cs.n = nchunks;
    cs.hang_s = 3600; // stalls are detected per call inside run_range
    cs.counter_names = {"calls", "calls_compared_across_backends", "calls_with_direct_gmp_reference", "reference_agreed",
                        "skipped_raw_precondition", "exceptional_outcomes_agreeing", "backend_disagreements", "reference_mismatches",
                        "crash_or_hang_calls"};
    cs.desc = [&](long long i) {
        long long a = i * CHUNK, b = std::min(NCALLS, a + CHUNK);
        const Group *g;
        long long k;
        locate(a, g, k);
        return "calls [" + std::to_string(a) + "," + std::to_string(b) + ") starting in group " + g->fn;
    };
    cs.crash_sig = [&](long long, const std::string &oc) { return "driver-chunk:" + oc; };
    cs.body = [&](long long ci, Ctx &c) {
        long long a = ci * CHUNK, b = std::min(NCALLS, a + CHUNK);
        std::vector<std::vector<std::string>> res(NB), descs(NB);
        for (size_t e = 0; e < NB; e++)
            run_range(EXES[e], a, b, res[e], descs[e], true);
        for (long long i = a; i < b; i++) {
            const Group *g;
            long long k;
            locate(i, g, k);
            Out d;
            g->f(k, DESC, d);
            c.count(0);
            std::string mydesc = clean(d.desc);
            bool listmismatch = false;
            for (size_t e = 0; e < NB; e++)
                if (!descs[e][i - a].empty() && descs[e][i - a] != mydesc)
                    listmismatch = true;
            if (listmismatch) {
                c.violation("machinery:case-list-differs-between-builds", "call " + std::to_string(i) + " is '" + mydesc + "' here but '"
                                                                              + descs[1][i - a] + "' in " + EXENAME[1]);
                continue;
            }
            if (!d.skip.empty()) {
                c.count(4);
                c.outcome(g->fn + ":SKIP:" + d.skip);
                bool ok = true;
                for (size_t e = 0; e < NB; e++)
                    if (res[e][i - a] != "SKIP:" + d.skip)
                        ok = false;
                if (!ok)
                    c.violation("machinery:skip-differs", mydesc);
                continue;
            }
            c.eval(NB);
            c.count(1);
            const std::string &r0 = res[0][i - a];
            bool same = true, anybad = false;
            for (size_t e = 0; e < NB; e++) {
                if (res[e][i - a] != r0)
                    same = false;
                std::string rc = rclass(res[e][i - a]);
                if (rc == "crash" || rc == "hang" || rc == "machinery")
                    anybad = true;
            }
            bool exceptional = rclass(r0) != "val";
            if (d.nontriv || exceptional || !same)
                c.nontrivial();
            c.outcome(g->fn + ":" + oclass(r0));
            std::string all;
            for (size_t e = 0; e < NB; e++)
                all += (e ? "; " : "") + EXENAME[e] + " -> " + res[e][i - a].substr(0, 300);
            if (!same || anybad) {
                if (anybad)
                    c.count(8);
                c.count(6);
                std::string sig = g->fn + "(" + d.tags + "):";
                bool classes_same = true;
                for (size_t e = 0; e < NB; e++)
                    if (rclass(res[e][i - a]) != rclass(r0))
                        classes_same = false;
                if (classes_same && !anybad) {
                    sig += "values-differ[";
                    bool first = true;
                    for (size_t e = 1; e < NB; e++)
                        if (res[e][i - a] != r0) {
                            sig += (first ? "" : ",") + EXENAME[e];
                            first = false;
                        }
                    sig += "]";
                } else
                    for (size_t e = 0; e < NB; e++)
                        sig += (e ? "," : "") + EXENAME[e] + "=" + rclass(res[e][i - a]);
                std::string refs;
                if (g->has_ref) {
                    Out r;
                    g->f(k, REF, r);
                    if (!r.ref.empty())
                        refs = "; direct GMP reference -> " + r.ref.substr(0, 300);
                }
                c.violation(sig, "call #" + std::to_string(i) + " " + mydesc + " [operand classes " + d.kinds + "]: " + all + refs);
                continue;
            }
            if (exceptional)
                c.count(5);
            if (g->has_ref && !exceptional) {
                Out r;
                g->f(k, REF, r);
                if (!r.ref.empty()) {
                    c.count(2);
                    if (clean(r.ref) == r0)
                        c.count(3);
                    else {
                        c.count(7);
                        c.violation(g->fn + "(" + d.tags + "):all-backends-differ-from-direct-GMP",
                                    "call #" + std::to_string(i) + " " + mydesc + ": " + all + "; direct GMP reference -> " + r.ref.substr(0, 300));
                    }
                }
            }
            if (i % 4099 == 0)
                c.sample("{\"call\":" + jstr(mydesc) + ",\"result\":" + jstr(r0.substr(0, 80)) + ",\"backends\":" + std::to_string(NB) + "}");
        }
    };
    run_cases(cs);
    Run &R = run();
    R.states = NCALLS;
    R.transitions = R.evaluations;
    R.counters["groups"] = GS.size();
    R.counters["backends"] = NB;
    std::string bl;
    for (auto &n : EXENAME)
        bl += (bl.empty() ? "" : ",") + n;
    R.bound_completed = std::to_string(NCALLS) + " calls in " + std::to_string(GS.size()) + " function groups (full cartesian products of the "
                        + TIER + " alphabets) x backends {" + bl + "}";
    R.rule = "every function group is driven over the full cartesian product of its explicit operand alphabet (0, +-1, small, 2^31/2^32/2^63/2^64 "
             "boundaries, multi-limb, perfect powers, primes); each call is executed in every backend build (one transcript line per call, "
             "no state shared between calls) and the lines must be byte-identical; where a direct GMP computation exists the common result "
             "must also equal it. evaluations = executed calls x backends; distinct_nontrivial = calls with a multi-limb operand, an "
             "exceptional outcome or a disagreement";
    R.assumptions = {"GMP (mpz_*/mpq_* called directly on operands parsed from decimal strings) is the reference for the raw wrappers",
                     "decimal printing (operator<<) and construction from a decimal string of each backend are used to transport values",
                     "raw mp_* calls outside GMP's documented domain (zero divisor/modulus, 0th root, even root or sqrt of a negative, "
                     "jacobi with even or non-positive n, legendre with n not an odd prime) are skipped and counted; the public API is "
                     "driven on those inputs",
                     "randomised functions (factor_pollard_*, Tonelli-Shanks for p>=10000) are not comparable and not driven",
                     "FLINT and Piranha backends cannot be built in this sandbox and are not covered"};
    return R.finish();
}

// ------------------------------------------------------------------ the workload
static AV A, Bt, Rt, RP, NR, U, PR, KS, SH, PW, EXPI;
static AV SM, SM2, ORD_A, ORD_N, NRM_A, NRM_N, NRM_M, PM_A, PM_M, LONGS, FACT, PRF;
static std::vector<QV> QA;
static std::vector<NV> NA, EA;

static std::string nz2(CI, CI b)
{
    return b.z == 0 ? "!raw-zero-divisor" : "";
}
static std::string fq(void (*f)(mpz_ptr, mpz_srcptr, mpz_srcptr), CI a, CI b)
{
    mpz_class r;
    f(r.get_mpz_t(), a.z.get_mpz_t(), b.z.get_mpz_t());
    return zs(r);
}
static std::string fqr(void (*f)(mpz_ptr, mpz_ptr, mpz_srcptr, mpz_srcptr), CI a, CI b)
{
    mpz_class q, r;
    f(q.get_mpz_t(), r.get_mpz_t(), a.z.get_mpz_t(), b.z.get_mpz_t());
    return "q=" + zs(q) + " r=" + zs(r);
}
static bool toobig(CI a, unsigned long n)
{
    return mpz_sizeinbase(a.z.get_mpz_t(), 2) * (n ? n : 1) > 60000;
}
static bool is_odd_prime(const mpz_class &n)
{
    return n > 2 && mpz_probab_prime_p(n.get_mpz_t(), 40) != 0;
}
static std::string dhex(double d)
{
    return hexd(d);
}

static void build_alphabets(bool T)
{
    const mpz_class p31 = zpow(2, 31), p32 = zpow(2, 32), p63 = zpow(2, 63), p64 = zpow(2, 64), t20 = zpow(10, 20), t40 = zpow(10, 40);
    const mpz_class m127 = zpow(2, 127) - 1, big = t20 + 39, w1 = p32 + 1, w2 = p64 + 1;
    A = lst({"0", "1", "-1", "2", "-2", "3", "-3", "4", "5", "7", "-7", "8", "-8", "9", "12", "27", "-27", "64", "97", "100"});
    for (const mpz_class &z : {mpz_class(p31 - 1), p31, mpz_class(-p31), mpz_class(p32 - 1), p32, mpz_class(p32 + 1), mpz_class(p63 - 1), p63,
                               mpz_class(-p63), mpz_class(-p63 - 1), mpz_class(p64 - 1), p64, mpz_class(p64 + 1), mpz_class(-p64), t20,
                               mpz_class(-t20), t40, mpz_class(-t40), m127, zpow(2, 128), big})
        addu(A, z);
    if (T) {
        for (const char *s : {"6", "-4", "10", "15", "16", "25", "81", "121", "125", "128", "243", "1000", "1024", "65535", "65536", "65537", "-65537"})
            addu(A, Z(s));
        for (const mpz_class &z :
             {mpz_class(p31 + 1), mpz_class(-p31 - 1), mpz_class(-p32), mpz_class(-p32 - 1), zpow(2, 62), mpz_class(p64 - 59), mpz_class(-p64 - 1),
              mpz_class(zpow(2, 89) - 1), mpz_class(-m127), zpow(3, 100), zpow(7, 50), mpz_class(-zpow(7, 51)), mpz_class(t40 + 1), zpow(2, 192),
              mpz_class(zpow(2, 256) - 1), mpz_class(-zpow(2, 256)), zpow(10, 100), mpz_class(w2 * w2), mpz_class(w2 * w2 * w2),
              mpz_class(-w2 * w2 * w2), mpz_class(big * big), mpz_class(-big * big * big), mpz_class(p64 * p64 - 1), mpz_class(t20 + 1)})
            addu(A, z);
    }
    Bt = lst({"0", "1", "-1", "2", "-2", "3", "5", "-7", "12", "97", "4294967297", "18446744073709551617", "-100000000000000000000"});
    addu(Bt, t40);
    addu(Bt, m127);
    if (T) {
        for (const char *s : {"4", "-3", "8", "9", "64", "2147483647", "-4294967296"})
            addu(Bt, Z(s));
        addu(Bt, p64);
        addu(Bt, -w2);
        addu(Bt, big);
    }
    // roots / perfect powers / primality
    Rt = A;
    for (const mpz_class &b : {mpz_class(3), mpz_class(10), w1, big})
        for (unsigned e : {2u, 3u, 5u, 7u}) {
            mpz_class p = zpow(b, e);
            addu(Rt, p);
            addu(Rt, p + 1);
            addu(Rt, p - 1);
            if (e % 2)
                addu(Rt, -p);
            else if (T)
                addu(Rt, -p);
        }
    for (const mpz_class &z : {zpow(3, 64), mpz_class(zpow(3, 64) - 1), zpow(2, 200), zpow(10, 50), mpz_class(-zpow(2, 63 * 3)), zpow(6, 30),
                               mpz_class(p64 - 59), mpz_class(zpow(2, 61) - 1), mpz_class(zpow(2, 89) - 1), mpz_class(w1 * (p32 + 15)),
                               mpz_class(m127 * big), Z("561"), Z("1105"), Z("1729"), Z("2047"), Z("3215031751"), Z("341550071728321"),
                               Z("3825123056546413051"), Z("318665857834031151167461"), Z("25"), Z("49"), Z("121"), Z("1000"), Z("-1000"),
                               Z("1024"), Z("-1024"), Z("32"), Z("-32"), Z("36"), Z("-36"), Z("11"), Z("13"), Z("15"), Z("16"), Z("-16")})
        addu(Rt, z);
    if (T)
        for (const mpz_class &z : {zpow(2, 521), mpz_class(zpow(2, 521) - 1), zpow(10, 200), mpz_class(zpow(10, 200) + 1), zpow(5, 301),
                                   mpz_class(-zpow(5, 301)), zpow(12, 97), mpz_class(zpow(12, 97) + 12)})
            addu(Rt, z);
    // perfect-power tests: boost's mp_perfect_power_p needs seconds for non-powers above ~150 bits and does not finish in
    // CPU_LIMIT_S above ~200 bits (finding); keep one such witness (two in thorough) so that the tier completes
    {
        int slow = 0;
        for (auto &x : Rt) {
            size_t bits = mpz_sizeinbase(x.z.get_mpz_t(), 2);
            bool pp = mpz_perfect_power_p(x.z.get_mpz_t()) != 0;
            if (bits > 130 && !pp) {
                if (bits < 220 || ++slow > (T ? 2 : 1))
                    continue;
                PRF.push_back(x);
            }
            RP.push_back(x);
        }
    }
    SM = rng(-10, T ? 400 : 200);
    SM2 = rng(-3, T ? 600 : 300);
    for (const char *s : {"4294967297", "1000000007", "1000036000099", "999999999989", "600851475143"})
        addu(SM2, Z(s));
    FACT = rng(-30, T ? 600 : 300);
    for (const char *s : {"4294967297", "-4294967297", "1000000007", "2147483647", "1000000000000", "600851475143", "100000000000000000000",
                          "18446744073709551616", "10000000000000000000000000000000000000000", "18446744073709551615", "4295098369"})
        addu(FACT, Z(s));
    ORD_A = rng(-5, T ? 40 : 30);
    ORD_N = rng(1, T ? 100 : 60);
    NRM_A = rng(-3, T ? 16 : 12);
    NRM_N = lst({"1", "2", "3", "4", "5", "6", "12"});
    NRM_M = rng(-1, T ? 100 : 64);
    PM_A = rng(-3, 10);
    PM_M = rng(-5, T ? 64 : 40);
    LONGS = lst({"0", "1", "-1", "2", "-2", "3", "6", "-6", "4", "9223372036854775807", "-9223372036854775807", "-9223372036854775808"});
    NR = lst({"0", "1", "2", "3", "4", "5", "7", "64"});
    if (T)
        for (const char *s : {"6", "13", "100", "127"}) // n = 1000 needs > 8 s per call on boostmp for anything above 2^89 (same root cause as perfect_power)
            addu(NR, Z(s));
    U = rng(0, T ? 130 : 50);
    for (const char *s : {"63", "64", "90", "91", "92", "93", "94", "100", "128", "200", "500", "1000"})
        addu(U, Z(s));
    PR = lst({"3", "5", "7", "11", "97", "65537", "2147483647", "2305843009213693951", "18446744073709551557"});
    addu(PR, zpow(2, 89) - 1);
    addu(PR, m127);
    KS = lst({"0", "1", "2", "3", "5", "20"});
    SH = lst({"0", "1", "31", "32", "63", "64", "65", "200"});
    PW = lst({"0", "1", "2", "3", "5", "10", "64"});
    EXPI = lst({"0", "1", "2", "3", "-1", "-2", "-3", "64", "-64", "18446744073709551616", "-18446744073709551616"});
    // rationals (den > 0)
    std::vector<std::pair<std::string, std::string>> qs
        = {{"1", "2"},  {"-1", "2"}, {"2", "4"}, {"3", "1"}, {"0", "5"}, {"-7", "3"}, {"6", "4"}, {"22", "7"}, {"-1", "3"}, {"2", "3"},
           {zs(t20), "3"}, {zs(w2), zs(p64 - 1)}, {zs(-t40), zs(big)}, {"1", zs(t40)}, {zs(p32), zs(p31)}, {zs(w2 * w2), zs(w2)}};
    if (T) {
        qs.push_back({"-5", "6"});
        qs.push_back({"1", "1"});
        qs.push_back({zs(-m127), zs(p64 * 3)});
        qs.push_back({zs(p63 - 1), zs(p63)});
        qs.push_back({"8", "27"});
        qs.push_back({"-8", "27"});
        qs.push_back({zs(big * big), zs(w1 * w1)});
        qs.push_back({"9", "4"});
    }
    for (auto &p : qs)
        QA.push_back(mkq(p.first, p.second));
    // Numbers: integers then rationals
    for (const char *s : {"0", "1", "-1", "2", "-2", "3", "4", "-8", "8", "9", "12", "27", "-27", "64", "100"}) {
        IV a = mk(s);
        NA.push_back(NV{a.s, a.kind, integer(a.v), mpq_class(a.z), a.multi});
    }
    for (const mpz_class &z : {mpz_class(p31), mpz_class(p64 - 1), p64, mpz_class(-p64 - 1), t20, mpz_class(-t40), mpz_class(w2 * w2),
                               mpz_class(big * big * big), mpz_class(-(w1 * w1 * w1))}) {
        IV a = mkz(z);
        NA.push_back(NV{a.s, a.kind, integer(a.v), mpq_class(a.z), a.multi});
    }
    for (auto &q : QA) {
        if (q.z.get_den() == 1)
            continue;
        NA.push_back(NV{q.s, q.kind, Rational::from_mpq(q.v), q.z, q.multi});
    }
    for (auto &p : std::vector<std::pair<std::string, std::string>>{{"4", "9"}, {"-8", "27"}, {"8", "27"}, {"1", "4"}, {"9", "4"}, {"1", "8"}}) {
        QV q = mkq(p.first, p.second);
        NA.push_back(NV{q.s, q.kind, Rational::from_mpq(q.v), q.z, q.multi});
    }
    // exponents for symbolic pow
    for (auto &p : std::vector<std::pair<std::string, std::string>>{{"0", "1"},  {"1", "1"},  {"-1", "1"}, {"2", "1"},  {"-2", "1"}, {"3", "1"},
                                                                    {"5", "1"},  {"-5", "1"}, {"1", "2"},  {"-1", "2"}, {"1", "3"},  {"2", "3"},
                                                                    {"-2", "3"}, {"3", "2"},  {"-3", "2"}, {"1", "5"},  {"5", "7"},  {"1", "6"},
                                                                    {"1", "64"}, {"7", "2"},  {"1", "100"}}) {
        QV q = mkq(p.first, p.second);
        EA.push_back(NV{q.z.get_den() == 1 ? p.first : q.s, q.kind, Rational::from_mpq(q.v), q.z, false});
    }
}

static void groups_raw_arith()
{
    add_bin("mp:a+b", A, A, nullptr, [](CI a, CI b) { return S(integer_class(a.v + b.v)); }, [](CI a, CI b) { return zs(a.z + b.z); });
    add_bin("mp:a-b", A, A, nullptr, [](CI a, CI b) { return S(integer_class(a.v - b.v)); }, [](CI a, CI b) { return zs(a.z - b.z); });
    add_bin("mp:a*b", A, A, nullptr, [](CI a, CI b) { return S(integer_class(a.v * b.v)); }, [](CI a, CI b) { return zs(a.z * b.z); });
    add_bin("mp:a/b", A, A, nz2, [](CI a, CI b) { return S(integer_class(a.v / b.v)); }, [](CI a, CI b) { return fq(mpz_tdiv_q, a, b); });
    add_bin("mp:a%b", A, A, nz2, [](CI a, CI b) { return S(integer_class(a.v % b.v)); }, [](CI a, CI b) { return fq(mpz_tdiv_r, a, b); });
    add_bin(
        "mp:inplace(+=,-=,*=)", A, A, nullptr,
        [](CI a, CI b) {
            integer_class x = a.v, y = a.v, w = a.v;
            x += b.v;
            y -= b.v;
            w *= b.v;
            return S(x) + " " + S(y) + " " + S(w);
        },
        [](CI a, CI b) { return zs(a.z + b.z) + " " + zs(a.z - b.z) + " " + zs(a.z * b.z); });
    add_bin(
        "mp:inplace(/=,%=)", A, A, nz2,
        [](CI a, CI b) {
            integer_class x = a.v, y = a.v;
            x /= b.v;
            y %= b.v;
            return S(x) + " " + S(y);
        },
        [](CI a, CI b) { return fq(mpz_tdiv_q, a, b) + " " + fq(mpz_tdiv_r, a, b); });
    add_bin(
        "mp:compare(<,<=,>,>=,==,!=)", A, A, nullptr,
        [](CI a, CI b) { return B(a.v < b.v) + B(a.v <= b.v) + B(a.v > b.v) + B(a.v >= b.v) + B(a.v == b.v) + B(a.v != b.v); },
        [](CI a, CI b) { return B(a.z < b.z) + B(a.z <= b.z) + B(a.z > b.z) + B(a.z >= b.z) + B(a.z == b.z) + B(a.z != b.z); });
    add_bin("mp_cmpabs", A, A, nullptr,
            [](CI a, CI b) {
                int c = mp_cmpabs(a.v, b.v);
                return std::to_string((c > 0) - (c < 0));
            },
            [](CI a, CI b) {
                int c = mpz_cmpabs(a.z.get_mpz_t(), b.z.get_mpz_t());
                return std::to_string((c > 0) - (c < 0));
            });
    add_bin("mp_fdiv_q", A, A, nz2,
            [](CI a, CI b) {
                integer_class q;
                mp_fdiv_q(q, a.v, b.v);
                return S(q);
            },
            [](CI a, CI b) { return fq(mpz_fdiv_q, a, b); });
    add_bin("mp_fdiv_r", A, A, nz2,
            [](CI a, CI b) {
                integer_class q;
                mp_fdiv_r(q, a.v, b.v);
                return S(q);
            },
            [](CI a, CI b) { return fq(mpz_fdiv_r, a, b); });
    add_bin("mp_fdiv_r(alias r=a)", A, A, nz2,
            [](CI a, CI b) {
                integer_class r = a.v;
                mp_fdiv_r(r, r, b.v);
                return S(r);
            },
            [](CI a, CI b) { return fq(mpz_fdiv_r, a, b); });
    add_bin("mp_fdiv_qr", A, A, nz2,
            [](CI a, CI b) {
                integer_class q, r;
                mp_fdiv_qr(q, r, a.v, b.v);
                return "q=" + S(q) + " r=" + S(r);
            },
            [](CI a, CI b) { return fqr(mpz_fdiv_qr, a, b); });
    add_bin("mp_fdiv_qr(alias q=a,r=b)", A, A, nz2,
            [](CI a, CI b) {
                integer_class q = a.v, r = b.v;
                mp_fdiv_qr(q, r, q, r);
                return "q=" + S(q) + " r=" + S(r);
            },
            [](CI a, CI b) { return fqr(mpz_fdiv_qr, a, b); });
    add_bin("mp_cdiv_q", A, A, nz2,
            [](CI a, CI b) {
                integer_class q;
                mp_cdiv_q(q, a.v, b.v);
                return S(q);
            },
            [](CI a, CI b) { return fq(mpz_cdiv_q, a, b); });
    add_bin("mp_tdiv_q", A, A, nz2,
            [](CI a, CI b) {
                integer_class q;
                mp_tdiv_q(q, a.v, b.v);
                return S(q);
            },
            [](CI a, CI b) { return fq(mpz_tdiv_q, a, b); });
    add_bin("mp_tdiv_qr", A, A, nz2,
            [](CI a, CI b) {
                integer_class q, r;
                mp_tdiv_qr(q, r, a.v, b.v);
                return "q=" + S(q) + " r=" + S(r);
            },
            [](CI a, CI b) { return fqr(mpz_tdiv_qr, a, b); });
    add_bin("mp_tdiv_qr(alias q=a,r=b)", A, A, nz2,
            [](CI a, CI b) {
                integer_class q = a.v, r = b.v;
                mp_tdiv_qr(q, r, q, r);
                return "q=" + S(q) + " r=" + S(r);
            },
            [](CI a, CI b) { return fqr(mpz_tdiv_qr, a, b); });
    add_bin("mp_divexact(a*b,b)", A, A, nz2,
            [](CI a, CI b) {
                integer_class n = a.v * b.v, q;
                mp_divexact(q, n, b.v);
                return S(q);
            },
            [](CI a, CI) { return zs(a.z); });
    add_bin("mp_divexact(alias q=n)", A, A, nz2,
            [](CI a, CI b) {
                integer_class n = a.v * b.v;
                mp_divexact(n, n, b.v);
                return S(n);
            },
            [](CI a, CI) { return zs(a.z); });
    add_bin("mp_gcd", A, A, nullptr,
            [](CI a, CI b) {
                integer_class g;
                mp_gcd(g, a.v, b.v);
                return S(g);
            },
            [](CI a, CI b) { return fq(mpz_gcd, a, b); });
    add_bin("mp_lcm", A, A, nullptr,
            [](CI a, CI b) {
                integer_class g;
                mp_lcm(g, a.v, b.v);
                return S(g);
            },
            [](CI a, CI b) { return fq(mpz_lcm, a, b); });
    add_bin("mp_lcm(alias r=a)", A, A, nullptr,
            [](CI a, CI b) {
                integer_class g = a.v;
                mp_lcm(g, g, b.v);
                return S(g);
            },
            [](CI a, CI b) { return fq(mpz_lcm, a, b); });
    add_bin("mp_gcdext", A, A, [](CI a, CI b) -> std::string { return a.z == 0 && b.z == 0 ? "both-zero" : ""; },
            [](CI a, CI b) {
                integer_class g, s, t;
                mp_gcdext(g, s, t, a.v, b.v);
                return "g=" + S(g) + " s=" + S(s) + " t=" + S(t);
            },
            [](CI a, CI b) {
                mpz_class g, s, t;
                mpz_gcdext(g.get_mpz_t(), s.get_mpz_t(), t.get_mpz_t(), a.z.get_mpz_t(), b.z.get_mpz_t());
                return "g=" + zs(g) + " s=" + zs(s) + " t=" + zs(t);
            });
    add_bin("mp_invert", A, A, [](CI, CI m) -> std::string { return m.z == 0 ? "!raw-zero-modulus" : ""; },
            [](CI a, CI m) {
                integer_class r;
                bool ok = mp_invert(r, a.v, m.v);
                return ok ? "1 inv=" + S(r) : std::string("0");
            },
            [](CI a, CI m) {
                mpz_class r;
                int ok = mpz_invert(r.get_mpz_t(), a.z.get_mpz_t(), m.z.get_mpz_t());
                return ok ? "1 inv=" + zs(r) : std::string("0");
            });
    add_bin("mp_invert(alias res=a)", A, A, [](CI, CI m) -> std::string { return m.z == 0 ? "!raw-zero-modulus" : ""; },
            [](CI a, CI m) {
                integer_class r = a.v;
                bool ok = mp_invert(r, r, m.v);
                return ok ? "1 inv=" + S(r) : std::string("0");
            },
            [](CI a, CI m) {
                mpz_class r;
                int ok = mpz_invert(r.get_mpz_t(), a.z.get_mpz_t(), m.z.get_mpz_t());
                return ok ? "1 inv=" + zs(r) : std::string("0");
            });
    add_bin("mp_and", A, A, [](CI a, CI b) -> std::string { return (a.z < 0 || b.z < 0) ? "neg" : ""; },
            [](CI a, CI b) {
                integer_class r;
                mp_and(r, a.v, b.v);
                return S(r);
            },
            [](CI a, CI b) { return fq(mpz_and, a, b); });
    add_bin("mp_divisible_p", A, A, nullptr, [](CI a, CI b) { return B(mp_divisible_p(a.v, b.v)); },
            [](CI a, CI b) { return B(mpz_divisible_p(a.z.get_mpz_t(), b.z.get_mpz_t()) != 0); });
    add_tri("mp_addmul", Bt, Bt, Bt, nullptr,
            [](CI a, CI b, CI c) {
                integer_class r = a.v;
                mp_addmul(r, b.v, c.v);
                return S(r);
            },
            [](CI a, CI b, CI c) { return zs(a.z + b.z * c.z); });
}
static std::string powm_pre(CI a, CI e, CI m)
{
    if (m.z == 0)
        return "!raw-zero-modulus";
    std::string t;
    if (e.z < 0) {
        mpz_class r;
        t = mpz_invert(r.get_mpz_t(), a.z.get_mpz_t(), m.z.get_mpz_t()) ? "negexp-invertible" : "negexp-noinverse";
    }
    if (m.z < 0)
        t += (t.empty() ? "" : "+") + std::string("negmod");
    if (a.z < 0)
        t += (t.empty() ? "" : "+") + std::string("negbase");
    return t;
}
static std::string powm_ref(CI a, CI e, CI m)
{
    if (e.z < 0) {
        mpz_class r;
        if (!mpz_invert(r.get_mpz_t(), a.z.get_mpz_t(), m.z.get_mpz_t()))
            return ""; // GMP raises division by zero: no reference value
    }
    mpz_class r;
    mpz_powm(r.get_mpz_t(), a.z.get_mpz_t(), e.z.get_mpz_t(), m.z.get_mpz_t());
    return zs(r);
}
// boostmp's mp_root starts Newton's iteration at 1: cost grows like n * bits^2 big multiplications; calls in this class may exceed
// CPU_LIMIT_S (finding); every call outside it stays far below the limit
static bool slow_root(CI a, CI n)
{
    return n.sl >= 63 && mpz_sizeinbase(a.z.get_mpz_t(), 2) >= 400;
}
static std::string pp_tag(CI a)
{
    if (mpz_sizeinbase(a.z.get_mpz_t(), 2) <= 130)
        return "";
    return mpz_perfect_power_p(a.z.get_mpz_t()) ? "power>130bits" : "non-power>130bits";
}
static std::string root_pre(CI a, CI n)
{
    if (n.z == 0)
        return "!raw-0th-root";
    if (a.z < 0 && n.sl % 2 == 0)
        return "!raw-even-root-of-negative";
    return slow_root(a, n) ? "order>=63,bits>=400" : "";
}
static void groups_raw_pow()
{
    add_tri("mp_powm", Bt, Bt, Bt, powm_pre,
            [](CI a, CI e, CI m) {
                integer_class r;
                mp_powm(r, a.v, e.v, m.v);
                return S(r);
            },
            powm_ref);
    add_tri("mp_powm(alias res=base)", Bt, Bt, Bt, powm_pre,
            [](CI a, CI e, CI m) {
                integer_class r = a.v;
                mp_powm(r, r, e.v, m.v);
                return S(r);
            },
            powm_ref);
    add_tri("mp_powm(alias res=exp)", Bt, Bt, Bt, powm_pre,
            [](CI a, CI e, CI m) {
                integer_class r = e.v;
                mp_powm(r, a.v, r, m.v);
                return S(r);
            },
            powm_ref);
    add_tri("mp_powm(alias res=mod)", Bt, Bt, Bt, powm_pre,
            [](CI a, CI e, CI m) {
                integer_class r = m.v;
                mp_powm(r, a.v, e.v, r);
                return S(r);
            },
            powm_ref);
    add_bin("mp_pow_ui", A, PW, [](CI a, CI n) -> std::string { return toobig(a, n.sl) ? "!result-too-large" : ""; },
            [](CI a, CI n) {
                integer_class r;
                mp_pow_ui(r, a.v, (unsigned long)n.sl);
                return S(r);
            },
            [](CI a, CI n) { return zs(zpow(a.z, n.sl)); });
    add_bin("mp_pow_ui(alias res=base)", A, PW, [](CI a, CI n) -> std::string { return toobig(a, n.sl) ? "!result-too-large" : ""; },
            [](CI a, CI n) {
                integer_class r = a.v;
                mp_pow_ui(r, r, (unsigned long)n.sl);
                return S(r);
            },
            [](CI a, CI n) { return zs(zpow(a.z, n.sl)); });
    add_bin("mp_root", Rt, NR, root_pre,
            [](CI a, CI n) {
                integer_class r;
                bool ex = mp_root(r, a.v, (unsigned long)n.sl);
                return B(ex) + " root=" + S(r);
            },
            [](CI a, CI n) {
                mpz_class r;
                int ex = mpz_root(r.get_mpz_t(), a.z.get_mpz_t(), n.sl);
                return B(ex != 0) + " root=" + zs(r);
            });
    add_bin("mp_rootrem", Rt, NR, root_pre,
            [](CI a, CI n) {
                integer_class r, m;
                mp_rootrem(r, m, a.v, (unsigned long)n.sl);
                return "root=" + S(r) + " rem=" + S(m);
            },
            [](CI a, CI n) {
                mpz_class r, m;
                mpz_rootrem(r.get_mpz_t(), m.get_mpz_t(), a.z.get_mpz_t(), n.sl);
                return "root=" + zs(r) + " rem=" + zs(m);
            });
    auto nonneg = [](CI a) -> std::string { return a.z < 0 ? "!raw-sqrt-of-negative" : ""; };
    add_un("mp_sqrt", Rt, nonneg, [](CI a) { return S(mp_sqrt(a.v)); },
           [](CI a) {
               mpz_class r;
               mpz_sqrt(r.get_mpz_t(), a.z.get_mpz_t());
               return zs(r);
           });
    add_un("mp_sqrtrem", Rt, nonneg,
           [](CI a) {
               integer_class r, m;
               mp_sqrtrem(r, m, a.v);
               return "root=" + S(r) + " rem=" + S(m);
           },
           [](CI a) {
               mpz_class r, m;
               mpz_sqrtrem(r.get_mpz_t(), m.get_mpz_t(), a.z.get_mpz_t());
               return "root=" + zs(r) + " rem=" + zs(m);
           });
    add_un("mp_perfect_power_p", RP, pp_tag, [](CI a) { return B(mp_perfect_power_p(a.v)); },
           [](CI a) { return B(mpz_perfect_power_p(a.z.get_mpz_t()) != 0); });
    add_un("mp_perfect_square_p", Rt, nullptr, [](CI a) { return B(mp_perfect_square_p(a.v)); },
           [](CI a) { return B(mpz_perfect_square_p(a.z.get_mpz_t()) != 0); });
    auto sgn_tag = [](CI a) -> std::string { return a.z < 0 ? "neg" : ""; };
    add_un("mp_probab_prime_p(is-prime)", Rt, sgn_tag, [](CI a) { return B(mp_probab_prime_p(a.v, 25) != 0); },
           [](CI a) { return B(mpz_probab_prime_p(a.z.get_mpz_t(), 25) != 0); });
    add_un("mp_probab_prime_p(return-code)", Rt, [](CI a) -> std::string {
        int r = mpz_probab_prime_p(a.z.get_mpz_t(), 25);
        return std::string(a.z < 0 ? "neg," : "") + (r == 2 ? "certainly-prime" : r == 1 ? "probably-prime" : "composite");
    },
           [](CI a) { return std::to_string(mp_probab_prime_p(a.v, 25)); }, nullptr);
    add_un("mp_nextprime", Rt, nullptr,
           [](CI a) {
               integer_class r;
               mp_nextprime(r, a.v);
               return S(r);
           },
           [](CI a) {
               mpz_class r;
               mpz_nextprime(r.get_mpz_t(), a.z.get_mpz_t());
               return zs(r);
           });
    add_bin("mp_legendre", A, PR, nullptr, [](CI a, CI p) { return std::to_string(mp_legendre(a.v, p.v)); },
            [](CI a, CI p) { return std::to_string(mpz_legendre(a.z.get_mpz_t(), p.z.get_mpz_t())); });
    add_bin("mp_jacobi", A, A, [](CI, CI n) -> std::string { return (n.z <= 0 || mpz_even_p(n.z.get_mpz_t())) ? "!raw-jacobi-n-not-odd-positive" : ""; },
            [](CI a, CI n) { return std::to_string(mp_jacobi(a.v, n.v)); },
            [](CI a, CI n) { return std::to_string(mpz_jacobi(a.z.get_mpz_t(), n.z.get_mpz_t())); });
    add_bin("mp_kronecker", A, A, [](CI, CI n) -> std::string { return n.z == 0 ? "n=0" : ""; },
            [](CI a, CI n) { return std::to_string(mp_kronecker(a.v, n.v)); },
            [](CI a, CI n) { return std::to_string(mpz_kronecker(a.z.get_mpz_t(), n.z.get_mpz_t())); });
    add_un("mp_fib_ui", U, nullptr,
           [](CI n) {
               integer_class r;
               mp_fib_ui(r, n.sl);
               return S(r);
           },
           [](CI n) {
               mpz_class r;
               mpz_fib_ui(r.get_mpz_t(), n.sl);
               return zs(r);
           });
    add_un("mp_fib2_ui", U, nullptr,
           [](CI n) {
               integer_class r, q;
               mp_fib2_ui(r, q, n.sl);
               return S(r) + " " + S(q);
           },
           [](CI n) {
               mpz_class r, q;
               mpz_fib2_ui(r.get_mpz_t(), q.get_mpz_t(), n.sl);
               return zs(r) + " " + zs(q);
           });
    add_un("mp_lucnum_ui", U, nullptr,
           [](CI n) {
               integer_class r;
               mp_lucnum_ui(r, n.sl);
               return S(r);
           },
           [](CI n) {
               mpz_class r;
               mpz_lucnum_ui(r.get_mpz_t(), n.sl);
               return zs(r);
           });
    add_un("mp_lucnum2_ui", U, [](CI n) -> std::string { return n.z == 0 ? "n=0" : ""; },
           [](CI n) {
               integer_class r, q;
               mp_lucnum2_ui(r, q, n.sl);
               return S(r) + " " + S(q);
           },
           [](CI n) {
               mpz_class r, q;
               mpz_lucnum2_ui(r.get_mpz_t(), q.get_mpz_t(), n.sl);
               return zs(r) + " " + zs(q);
           });
    add_un("mp_fac_ui", U, nullptr,
           [](CI n) {
               integer_class r;
               mp_fac_ui(r, n.sl);
               return S(r);
           },
           [](CI n) {
               mpz_class r;
               mpz_fac_ui(r.get_mpz_t(), n.sl);
               return zs(r);
           });
    add_un("mp_primorial", U, nullptr, [](CI n) { return S(mp_primorial(n.sl)); },
           [](CI n) {
               mpz_class r;
               mpz_primorial_ui(r.get_mpz_t(), n.sl);
               return zs(r);
           });
    add_bin("mp_bin_ui", A, KS, [](CI a, CI) -> std::string { return a.z < 0 ? "neg-n" : ""; },
            [](CI a, CI k) {
                integer_class r;
                mp_bin_ui(r, a.v, k.sl);
                return S(r);
            },
            [](CI a, CI k) {
                mpz_class r;
                mpz_bin_ui(r.get_mpz_t(), a.z.get_mpz_t(), k.sl);
                return zs(r);
            });
}
static void groups_raw_conv()
{
    auto sgn_tag = [](CI a) -> std::string { return a.z < 0 ? "neg" : ""; };
    add_un("mp_scan1", A, sgn_tag, [](CI a) { return std::to_string(mp_scan1(a.v)); },
           [](CI a) { return std::to_string(mpz_scan1(a.z.get_mpz_t(), 0)); });
    add_bin("mp:a<<k", A, SH, nullptr, [](CI a, CI k) { return S(integer_class(a.v << (unsigned long)k.sl)); },
            [](CI a, CI k) {
                mpz_class r;
                mpz_mul_2exp(r.get_mpz_t(), a.z.get_mpz_t(), k.sl);
                return zs(r);
            });
    // right shift of a negative: mp_wrapper.h truncates (mpz_tdiv_q_2exp), gmpxx floors; no reference for negatives
    add_bin("mp:a>>k", A, SH, [](CI a, CI) -> std::string { return a.z < 0 ? "neg" : ""; },
            [](CI a, CI k) { return S(integer_class(a.v >> (unsigned long)k.sl)); },
            [](CI a, CI k) {
                if (a.z < 0)
                    return std::string();
                mpz_class r;
                mpz_tdiv_q_2exp(r.get_mpz_t(), a.z.get_mpz_t(), k.sl);
                return zs(r);
            });
    add_un("mp_get_ui", A, [](CI a) -> std::string { return mpz_sizeinbase(a.z.get_mpz_t(), 2) > 64 ? "does-not-fit" : ""; },
           [](CI a) { return std::to_string(mp_get_ui(a.v)); }, [](CI a) { return std::to_string(mpz_get_ui(a.z.get_mpz_t())); });
    add_un("mp_get_si", A, [](CI a) -> std::string { return a.z.fits_slong_p() ? "" : "!raw-get_si-does-not-fit"; },
           [](CI a) { return std::to_string(mp_get_si(a.v)); }, [](CI a) { return std::to_string(mpz_get_si(a.z.get_mpz_t())); });
    add_un("mp_get_d", Rt, [](CI a) -> std::string {
        double d = mpz_get_d(a.z.get_mpz_t());
        mpz_class back;
        mpz_set_d(back.get_mpz_t(), d);
        return back == a.z ? "exact" : "inexact";
    },
           [](CI a) { return dhex(mp_get_d(a.v)); }, [](CI a) { return dhex(mpz_get_d(a.z.get_mpz_t())); });
    add_un("mp_fits(ulong,slong)", A, nullptr, [](CI a) { return B(mp_fits_ulong_p(a.v)) + B(mp_fits_slong_p(a.v)); },
           [](CI a) { return B(a.z.fits_ulong_p()) + B(a.z.fits_slong_p()); });
    add_un("mp_sign,mp_abs,neg,++,--", A, nullptr,
           [](CI a) {
               integer_class p = a.v, m = a.v;
               ++p;
               --m;
               integer_class p2 = a.v, m2 = a.v;
               integer_class o1 = p2++, o2 = m2--;
               return std::to_string(mp_sign(a.v)) + " " + S(mp_abs(a.v)) + " " + S(integer_class(-a.v)) + " " + S(p) + " " + S(m) + " " + S(o1)
                      + S(p2) + " " + S(o2) + S(m2);
           },
           [](CI a) {
               return std::to_string(sgn(a.z)) + " " + zs(abs(a.z)) + " " + zs(-a.z) + " " + zs(a.z + 1) + " " + zs(a.z - 1) + " " + zs(a.z)
                      + zs(a.z + 1) + " " + zs(a.z) + zs(a.z - 1);
           });
    add_un("mp:compare-with-C-integers", A, nullptr,
           [](CI a) {
               const integer_class &x = a.v;
               return B(x == 0u) + B(x == 1u) + B(x == -1) + B(x > 0u) + B(x < 0u) + B(x <= ULONG_MAX) + B(x >= LONG_MIN) + B(x <= LONG_MAX) + B(x < 5)
                      + B(x > -5) + B(x != 2) + B(x >= 2147483648u) + B(0 < x) + B(5u >= x);
           },
           [](CI a) {
               const mpz_class &x = a.z;
               return B(x == 0) + B(x == 1) + B(x == -1) + B(x > 0) + B(x < 0) + B(mpz_cmp_ui(x.get_mpz_t(), ULONG_MAX) <= 0)
                      + B(mpz_cmp_si(x.get_mpz_t(), LONG_MIN) >= 0) + B(mpz_cmp_si(x.get_mpz_t(), LONG_MAX) <= 0) + B(x < 5) + B(x > -5) + B(x != 2)
                      + B(mpz_cmp_ui(x.get_mpz_t(), 2147483648u) >= 0) + B(x > 0) + B(x <= 5);
           });
    add_un("mp:arithmetic-with-C-integers", A, nullptr,
           [](CI a) {
               integer_class x = a.v;
               std::string o;
               o += S(integer_class(x * 2)) + " " + S(integer_class(4 * x)) + " " + S(integer_class(x % 2)) + " " + S(integer_class(x % 4)) + " ";
               o += S(integer_class(x % 8)) + " " + S(integer_class(x / 2)) + " " + S(integer_class(x + 1)) + " " + S(integer_class(x - 1)) + " ";
               o += S(integer_class(x * -1)) + " " + S(integer_class(x % 7u)) + " " + S(integer_class(x / 7u)) + " " + S(integer_class(x + 5u)) + " ";
               o += S(integer_class(x - 5u)) + " " + S(integer_class(x * 3u)) + " " + S(integer_class(5u - x)) + " " + S(integer_class(1 + x));
               return o;
           },
           [](CI a) {
               const mpz_class &x = a.z;
               auto tq = [&](long d) {
                   mpz_class r, dd = d;
                   mpz_tdiv_q(r.get_mpz_t(), x.get_mpz_t(), dd.get_mpz_t());
                   return zs(r);
               };
               auto tr = [&](long d) {
                   mpz_class r, dd = d;
                   mpz_tdiv_r(r.get_mpz_t(), x.get_mpz_t(), dd.get_mpz_t());
                   return zs(r);
               };
               std::string o;
               o += zs(x * 2) + " " + zs(4 * x) + " " + tr(2) + " " + tr(4) + " ";
               o += tr(8) + " " + tq(2) + " " + zs(x + 1) + " " + zs(x - 1) + " ";
               o += zs(-x) + " " + tr(7) + " " + tq(7) + " " + zs(x + 5) + " ";
               o += zs(x - 5) + " " + zs(x * 3) + " " + zs(5 - x) + " " + zs(1 + x);
               return o;
           });
    add_un("mp_get_hex_str", A, sgn_tag, [](CI a) { return mp_get_hex_str(a.v); },
           [](CI a) { return a.z.get_str(16); });
    {
        auto items = std::make_shared<std::vector<Item>>();
        for (double d : {0.0, -0.0, 0.5, -0.5, 1.5, -1.5, 2.5, 1e15 + 0.5, 9007199254740992.0, 9223372036854775808.0, 18446744073709551616.0,
                         -9223372036854775808.0, 1e20, -1e20, 1e40, 1.7976931348623157e308, -4.9e-324})
            items->push_back(Item{hexd(d), std::fabs(d) >= 18446744073709551616.0 ? "multi-limb" : "small", std::fabs(d) >= 18446744073709551616.0,
                                  [d] {
                                      integer_class i;
                                      mp_set_d(i, d);
                                      return S(i);
                                  },
                                  [d] {
                                      mpz_class z;
                                      mpz_set_d(z.get_mpz_t(), d);
                                      return zs(z);
                                  }});
        add_items("mp_set_d", items);
    }
    {
        auto items = std::make_shared<std::vector<Item>>();
        for (const char *s : {"0", "7", "-7", "123456789012345678901234567890", "-123456789012345678901234567890", "-0"})
            items->push_back(Item{s, "decimal", strlen(s) > 20, [s] { return S(integer_class(std::string(s))); }, [s] { return zs(mpz_class(s, 10)); }});
        for (const char *s : {"007", "010", "0x1f", "-0x10", "00000000000000000000000000000123"})
            items->push_back(Item{s, "prefixed", false, [s] { return S(integer_class(std::string(s))); }, nullptr});
        add_items("integer_class(string)", items);
    }
}
static void groups_raw_rational()
{
    static std::vector<QV> *Q = &QA;
    auto addq2 = [&](const std::string &fn, std::function<std::string(CQ, CQ)> pre, std::function<std::string(CQ, CQ)> ex,
                     std::function<std::string(CQ, CQ)> rf) {
        Group g;
        g.fn = fn;
        g.n = (long long)QA.size() * QA.size();
        g.has_ref = (bool)rf;
        g.f = [=](long long k, int mode, Out &o) {
            CQ a = (*Q)[k / Q->size()], b = (*Q)[k % Q->size()];
            if (mode == DESC) {
                o.desc = fn + "(" + a.s + ", " + b.s + ")";
                o.kinds = a.kind + "," + b.kind;
                o.nontriv = a.multi || b.multi;
                tagskip(pre ? pre(a, b) : "", o);
            } else if (mode == EXEC)
                o.res = ex(a, b);
            else if (rf)
                o.ref = rf(a, b);
        };
        GS.push_back(g);
    };
    auto addq1 = [&](const std::string &fn, std::function<std::string(CQ)> ex, std::function<std::string(CQ)> rf,
                     std::function<std::string(CQ)> pre = nullptr) {
        Group g;
        g.fn = fn;
        g.n = QA.size();
        g.has_ref = (bool)rf;
        g.f = [=](long long k, int mode, Out &o) {
            CQ a = (*Q)[k];
            if (mode == DESC) {
                o.desc = fn + "(" + a.s + ")";
                o.kinds = a.kind;
                o.nontriv = a.multi;
                tagskip(pre ? pre(a) : "", o);
            } else if (mode == EXEC)
                o.res = ex(a);
            else if (rf)
                o.ref = rf(a);
        };
        GS.push_back(g);
    };
    addq2("mq:a+b", nullptr, [](CQ a, CQ b) { return S(rational_class(a.v + b.v)); }, [](CQ a, CQ b) { return SQ(mpq_class(a.z + b.z)); });
    addq2("mq:a-b", nullptr, [](CQ a, CQ b) { return S(rational_class(a.v - b.v)); }, [](CQ a, CQ b) { return SQ(mpq_class(a.z - b.z)); });
    addq2("mq:a*b", nullptr, [](CQ a, CQ b) { return S(rational_class(a.v * b.v)); }, [](CQ a, CQ b) { return SQ(mpq_class(a.z * b.z)); });
    addq2("mq:a/b", [](CQ, CQ b) -> std::string { return b.z == 0 ? "!raw-zero-divisor" : ""; },
          [](CQ a, CQ b) { return S(rational_class(a.v / b.v)); }, [](CQ a, CQ b) { return SQ(mpq_class(a.z / b.z)); });
    addq2("mq:inplace(+=,-=,*=)", nullptr,
          [](CQ a, CQ b) {
              rational_class x = a.v, y = a.v, w = a.v;
              x += b.v;
              y -= b.v;
              w *= b.v;
              return S(x) + " " + S(y) + " " + S(w);
          },
          [](CQ a, CQ b) { return SQ(mpq_class(a.z + b.z)) + " " + SQ(mpq_class(a.z - b.z)) + " " + SQ(mpq_class(a.z * b.z)); });
    addq2("mq:compare(<,<=,>,>=,==,!=)", nullptr,
          [](CQ a, CQ b) { return B(a.v < b.v) + B(a.v <= b.v) + B(a.v > b.v) + B(a.v >= b.v) + B(a.v == b.v) + B(a.v != b.v); },
          [](CQ a, CQ b) { return B(a.z < b.z) + B(a.z <= b.z) + B(a.z > b.z) + B(a.z >= b.z) + B(a.z == b.z) + B(a.z != b.z); });
    addq1("mq:canonical,sign,abs,neg", [](CQ a) { return S(a.v) + " " + std::to_string(mp_sign(a.v)) + " " + S(mp_abs(a.v)) + " " + S(rational_class(-a.v)); },
          [](CQ a) { return SQ(a.z) + " " + std::to_string(sgn(a.z)) + " " + SQ(abs(a.z)) + " " + SQ(mpq_class(-a.z)); });
    addq1("mq:mp_get_d", [](CQ a) { return dhex(mp_get_d(a.v)); }, [](CQ a) { return dhex(a.z.get_d()); },
          [](CQ a) -> std::string { return mpq_class(a.z.get_d()) == a.z ? "exact" : "inexact"; });
    for (unsigned n : {0u, 1u, 2u, 5u})
        addq1("mq:mp_pow_ui(n=" + std::to_string(n) + ")",
              [n](CQ a) {
                  rational_class r;
                  mp_pow_ui(r, a.v, n);
                  return S(r);
              },
              [n](CQ a) { return SQ(mpq_class(zpow(a.z.get_num(), n), zpow(a.z.get_den(), n))); });
}
static std::string zdiv_tag(CI, CI b)
{
    return b.z == 0 ? "zero-divisor" : "";
}
static void groups_public_integer()
{
    add_bin("Integer::divint", A, A, zdiv_tag, [](CI a, CI b) { return K(IN(a)->divint(*IN(b))); },
            [](CI a, CI b) { return b.z == 0 ? std::string() : NK(mpq_class(a.z) / mpq_class(b.z)); });
    add_bin("Integer::powint", A, EXPI,
            [](CI a, CI e) -> std::string {
                if (!e.z.fits_slong_p())
                    return e.z > 0 ? "exp-too-large" : "negexp-too-large";
                if (toobig(a, std::labs(e.sl)))
                    return "!result-too-large";
                return e.z < 0 ? (a.z == 0 ? "negexp,zero-base" : "negexp") : "";
            },
            [](CI a, CI e) { return K(IN(a)->powint(*IN(e))); },
            [](CI a, CI e) {
                if (!e.z.fits_slong_p() || (e.z < 0 && a.z == 0))
                    return std::string();
                mpz_class p = zpow(a.z, std::labs(e.sl));
                return e.z >= 0 ? NK(mpq_class(p)) : NK(mpq_class(1) / mpq_class(p));
            });
    add_un("Integer::as_int,as_uint", A, [](CI a) -> std::string { return a.z.fits_slong_p() ? "" : "does-not-fit-long"; },
           [](CI a) {
               std::string o;
               try {
                   o += std::to_string(IN(a)->as_int());
               } catch (SymEngineException &) {
                   o += "throws";
               }
               try {
                   o += " " + std::to_string(IN(a)->as_uint());
               } catch (SymEngineException &) {
                   o += " throws";
               }
               return o;
           },
           [](CI a) {
               return (a.z.fits_slong_p() ? std::to_string(a.z.get_si()) : std::string("throws")) + " "
                      + (a.z.fits_ulong_p() ? std::to_string(a.z.get_ui()) : std::string("throws"));
           });
    add_un("Integer::predicates,neg,str", A, nullptr,
           [](CI a) {
               auto i = IN(a);
               return B(i->is_zero()) + B(i->is_one()) + B(i->is_minus_one()) + B(i->is_positive()) + B(i->is_negative()) + " " + K(i->neg()) + " "
                      + i->__str__() + " " + K(iabs(*i));
           },
           [](CI a) {
               return B(a.z == 0) + B(a.z == 1) + B(a.z == -1) + B(a.z > 0) + B(a.z < 0) + " I:" + zs(-a.z) + " " + zs(a.z) + " I:" + zs(abs(a.z));
           });
    add_bin("Integer::compare,__eq__", A, A, nullptr, [](CI a, CI b) { return std::to_string(IN(a)->compare(*IN(b))) + B(IN(a)->__eq__(*IN(b))); },
            [](CI a, CI b) { return std::to_string((a.z > b.z) - (a.z < b.z)) + B(a.z == b.z); });
    add_un("isqrt", Rt, [](CI a) -> std::string { return a.z < 0 ? "negative" : ""; }, [](CI a) { return K(isqrt(*IN(a))); },
           [](CI a) {
               if (a.z < 0)
                   return std::string();
               mpz_class r;
               mpz_sqrt(r.get_mpz_t(), a.z.get_mpz_t());
               return "I:" + zs(r);
           });
    add_bin("i_nth_root", Rt, NR,
            [](CI a, CI n) -> std::string {
                return n.z == 0 ? "n=0" : (a.z < 0 && n.sl % 2 == 0) ? "even-root-of-negative" : slow_root(a, n) ? "order>=63,bits>=400" : "";
            },
            [](CI a, CI n) {
                RCP<const Integer> r;
                int ex = i_nth_root(outArg(r), *IN(a), (unsigned long)n.sl);
                return B(ex != 0) + " " + K(r);
            },
            [](CI a, CI n) {
                if (n.z == 0 || (a.z < 0 && n.sl % 2 == 0))
                    return std::string();
                mpz_class r;
                int ex = mpz_root(r.get_mpz_t(), a.z.get_mpz_t(), n.sl);
                return B(ex != 0) + " I:" + zs(r);
            });
    add_un("perfect_square", Rt, nullptr, [](CI a) { return B(perfect_square(*IN(a))); },
           [](CI a) { return B(mpz_perfect_square_p(a.z.get_mpz_t()) != 0); });
    add_un("perfect_power", PRF, pp_tag,
           [](CI a) { return B(perfect_power(*IN(a))); }, [](CI a) { return B(mpz_perfect_power_p(a.z.get_mpz_t()) != 0); });
    add_bin("Rational::from_two_ints(Integer,Integer)", A, A, zdiv_tag, [](CI a, CI b) { return K(Rational::from_two_ints(*IN(a), *IN(b))); },
            [](CI a, CI b) { return b.z == 0 ? std::string() : NK(mpq_class(a.z) / mpq_class(b.z)); });
    add_bin("Rational::from_two_ints(long,long)", LONGS, LONGS,
            [](CI a, CI b) -> std::string { return b.z == 0 ? "zero-divisor" : (a.sl == LONG_MIN || b.sl == LONG_MIN) ? "LONG_MIN" : ""; },
            [](CI a, CI b) { return K(Rational::from_two_ints(a.sl, b.sl)); },
            [](CI a, CI b) { return b.z == 0 ? std::string() : NK(mpq_class(a.z) / mpq_class(b.z)); });
}
static void groups_public_ntheory()
{
    add_bin("gcd", A, A, nullptr, [](CI a, CI b) { return K(gcd(*IN(a), *IN(b))); }, [](CI a, CI b) { return "I:" + fq(mpz_gcd, a, b); });
    add_bin("lcm", A, A, nullptr, [](CI a, CI b) { return K(lcm(*IN(a), *IN(b))); }, [](CI a, CI b) { return "I:" + fq(mpz_lcm, a, b); });
    add_bin("gcd_ext", A, A, [](CI a, CI b) -> std::string { return a.z == 0 && b.z == 0 ? "both-zero" : ""; },
            [](CI a, CI b) {
                RCP<const Integer> g, s, t;
                gcd_ext(outArg(g), outArg(s), outArg(t), *IN(a), *IN(b));
                return K(g) + " " + K(s) + " " + K(t);
            },
            [](CI a, CI b) {
                mpz_class g, s, t;
                mpz_gcdext(g.get_mpz_t(), s.get_mpz_t(), t.get_mpz_t(), a.z.get_mpz_t(), b.z.get_mpz_t());
                return "I:" + zs(g) + " I:" + zs(s) + " I:" + zs(t);
            });
    auto noz = [](F2 f) { return [f](CI a, CI b) { return b.z == 0 ? std::string() : f(a, b); }; };
    add_bin("mod", A, A, zdiv_tag, [](CI a, CI b) { return K(mod(*IN(a), *IN(b))); }, noz([](CI a, CI b) { return "I:" + fq(mpz_tdiv_r, a, b); }));
    add_bin("quotient", A, A, zdiv_tag, [](CI a, CI b) { return K(quotient(*IN(a), *IN(b))); },
            noz([](CI a, CI b) { return "I:" + fq(mpz_tdiv_q, a, b); }));
    add_bin("quotient_mod", A, A, zdiv_tag,
            [](CI a, CI b) {
                RCP<const Integer> q, r;
                quotient_mod(outArg(q), outArg(r), *IN(a), *IN(b));
                return K(q) + " " + K(r);
            },
            noz([](CI a, CI b) { return "I:" + fq(mpz_tdiv_q, a, b) + " I:" + fq(mpz_tdiv_r, a, b); }));
    add_bin("mod_f", A, A, zdiv_tag, [](CI a, CI b) { return K(mod_f(*IN(a), *IN(b))); }, noz([](CI a, CI b) { return "I:" + fq(mpz_fdiv_r, a, b); }));
    add_bin("quotient_f", A, A, zdiv_tag, [](CI a, CI b) { return K(quotient_f(*IN(a), *IN(b))); },
            noz([](CI a, CI b) { return "I:" + fq(mpz_fdiv_q, a, b); }));
    add_bin("quotient_mod_f", A, A, zdiv_tag,
            [](CI a, CI b) {
                RCP<const Integer> q, r;
                quotient_mod_f(outArg(q), outArg(r), *IN(a), *IN(b));
                return K(q) + " " + K(r);
            },
            noz([](CI a, CI b) { return "I:" + fq(mpz_fdiv_q, a, b) + " I:" + fq(mpz_fdiv_r, a, b); }));
    add_bin("mod_inverse", A, A, [](CI, CI m) -> std::string { return m.z == 0 ? "zero-modulus" : ""; },
            [](CI a, CI m) {
                RCP<const Integer> r;
                int ok = mod_inverse(outArg(r), *IN(a), *IN(m));
                return ok ? "1 " + K(r) : std::string("0"); // the output is undefined when no inverse exists
            },
            noz([](CI a, CI m) {
                mpz_class r;
                int ok = mpz_invert(r.get_mpz_t(), a.z.get_mpz_t(), m.z.get_mpz_t());
                return ok ? "1 I:" + zs(r) : std::string("0");
            }));
    add_bin("divides", A, A, zdiv_tag, [](CI a, CI b) { return B(divides(*IN(a), *IN(b))); },
            [](CI a, CI b) { return B(mpz_divisible_p(a.z.get_mpz_t(), b.z.get_mpz_t()) != 0); });
    add_bin("legendre", A, A, [](CI, CI n) -> std::string { return is_odd_prime(n.z) ? "" : "n-not-odd-prime"; },
            [](CI a, CI n) { return std::to_string(legendre(*IN(a), *IN(n))); },
            [](CI a, CI n) { return is_odd_prime(n.z) ? std::to_string(mpz_legendre(a.z.get_mpz_t(), n.z.get_mpz_t())) : std::string(); });
    add_bin("jacobi", A, A, [](CI, CI n) -> std::string { return n.z <= 0 ? "n-not-positive" : mpz_even_p(n.z.get_mpz_t()) ? "n-even" : ""; },
            [](CI a, CI n) { return std::to_string(jacobi(*IN(a), *IN(n))); },
            [](CI a, CI n) { return (n.z <= 0 || mpz_even_p(n.z.get_mpz_t())) ? std::string() : std::to_string(mpz_jacobi(a.z.get_mpz_t(), n.z.get_mpz_t())); });
    add_bin("kronecker", A, A, [](CI, CI n) -> std::string { return n.z == 0 ? "n=0" : ""; },
            [](CI a, CI n) { return std::to_string(kronecker(*IN(a), *IN(n))); },
            [](CI a, CI n) { return std::to_string(mpz_kronecker(a.z.get_mpz_t(), n.z.get_mpz_t())); });
    add_un("probab_prime_p(nonzero)", Rt, [](CI a) -> std::string { return a.z < 0 ? "neg" : ""; },
           [](CI a) { return B(probab_prime_p(*IN(a)) != 0); }, [](CI a) { return B(mpz_probab_prime_p(a.z.get_mpz_t(), 25) != 0); });
    add_un("probab_prime_p(return-code)", Rt, [](CI a) -> std::string {
        int r = mpz_probab_prime_p(a.z.get_mpz_t(), 25);
        return std::string(a.z < 0 ? "neg," : "") + (r == 2 ? "certainly-prime" : r == 1 ? "probably-prime" : "composite");
    },
           [](CI a) { return std::to_string(probab_prime_p(*IN(a))); }, nullptr);
    add_un("nextprime", A, nullptr, [](CI a) { return K(nextprime(*IN(a))); },
           [](CI a) {
               mpz_class r;
               mpz_nextprime(r.get_mpz_t(), a.z.get_mpz_t());
               return "I:" + zs(r);
           });
    add_un("fibonacci,fibonacci2,lucas", U, nullptr,
           [](CI n) {
               RCP<const Integer> g, s;
               fibonacci2(outArg(g), outArg(s), n.sl);
               return K(fibonacci(n.sl)) + " " + K(g) + " " + K(s) + " " + K(lucas(n.sl));
           },
           [](CI n) {
               mpz_class f, f1, l;
               mpz_fib2_ui(f.get_mpz_t(), f1.get_mpz_t(), n.sl);
               mpz_lucnum_ui(l.get_mpz_t(), n.sl);
               return "I:" + zs(f) + " I:" + zs(f) + " I:" + zs(f1) + " I:" + zs(l);
           });
    add_un("lucas2", U, [](CI n) -> std::string { return n.z == 0 ? "n=0" : ""; },
           [](CI n) {
               RCP<const Integer> g, s;
               lucas2(outArg(g), outArg(s), n.sl);
               return K(g) + " " + K(s);
           },
           [](CI n) {
               mpz_class l, l1;
               mpz_lucnum2_ui(l.get_mpz_t(), l1.get_mpz_t(), n.sl);
               return "I:" + zs(l) + " I:" + zs(l1);
           });
    add_un("factorial", U, nullptr, [](CI n) { return K(factorial(n.sl)); },
           [](CI n) {
               mpz_class r;
               mpz_fac_ui(r.get_mpz_t(), n.sl);
               return "I:" + zs(r);
           });
    add_bin("binomial", A, KS, [](CI a, CI) -> std::string { return a.z < 0 ? "neg-n" : ""; }, [](CI a, CI k) { return K(binomial(*IN(a), k.sl)); },
            [](CI a, CI k) {
                mpz_class r;
                mpz_bin_ui(r.get_mpz_t(), a.z.get_mpz_t(), k.sl);
                return "I:" + zs(r);
            });
    // crt over all (r1,r2) x (m1,m2)
    {
        static AV CR = lst({"0", "1", "2", "5", "-1", "100000000000000000000"}), CM = lst({"2", "3", "4", "6", "-5", "18446744073709551617"});
        Group g;
        g.fn = "crt";
        g.n = 36 * 36;
        g.has_ref = true;
        g.f = [](long long k, int mode, Out &o) {
            CI r1 = CR[k / 216], r2 = CR[(k / 36) % 6], m1 = CM[(k / 6) % 6], m2 = CM[k % 6];
            if (mode == DESC) {
                o.desc = "crt(rem=[" + r1.s + "," + r2.s + "], mod=[" + m1.s + "," + m2.s + "])";
                o.kinds = r1.kind + "," + r2.kind + "," + m1.kind + "," + m2.kind;
                o.nontriv = r1.multi || r2.multi || m1.multi || m2.multi;
                if (m1.z < 0 || m2.z < 0)
                    o.tags = "negative-modulus";
            } else if (mode == EXEC) {
                RCP<const Integer> R;
                bool ok = crt(outArg(R), {IN(r1), IN(r2)}, {IN(m1), IN(m2)});
                o.res = ok ? "1 " + K(R) : "0";
            } else {
                if (m1.z < 0 || m2.z < 0)
                    return;
                mpz_class L, g;
                mpz_lcm(L.get_mpz_t(), m1.z.get_mpz_t(), m2.z.get_mpz_t());
                mpz_gcd(g.get_mpz_t(), m1.z.get_mpz_t(), m2.z.get_mpz_t());
                // brute force is impossible for the big modulus; verify by search over r1 + k*m1 when small, else by formula
                if ((r2.z - r1.z) % g != 0) {
                    o.ref = "0";
                    return;
                }
                mpz_class inv, m1g = m1.z / g, m2g = m2.z / g;
                if (m2g == 1)
                    inv = 0;
                else
                    mpz_invert(inv.get_mpz_t(), m1g.get_mpz_t(), m2g.get_mpz_t());
                mpz_class x = r1.z + m1.z * (((r2.z - r1.z) / g * inv) % m2g);
                mpz_fdiv_r(x.get_mpz_t(), x.get_mpz_t(), L.get_mpz_t());
                o.ref = "1 I:" + zs(x);
            }
        };
        GS.push_back(g);
    }
    auto small_tag = [](CI a) -> std::string { return a.z < 0 ? "neg" : a.z == 0 ? "zero" : ""; };
    add_un("prime_factors", FACT, small_tag,
           [](CI a) {
               std::vector<RCP<const Integer>> v;
               prime_factors(v, *IN(a));
               std::string o;
               for (auto &p : v)
                   o += K(p) + " ";
               return o;
           },
           nullptr);
    add_un("prime_factor_multiplicities", FACT, small_tag,
           [](CI a) {
               map_integer_uint m;
               prime_factor_multiplicities(m, *IN(a));
               std::string o;
               for (auto &p : m)
                   o += K(p.first) + "^" + std::to_string(p.second) + " ";
               return o;
           },
           [](CI a) -> std::string {
               mpz_class n = abs(a.z);
               if (n == 0)
                   return "";
               if (n > mpz_class("1000000000000"))
                   return std::string();
               std::string o;
               for (mpz_class p = 2; p * p <= n; p++) {
                   unsigned c = 0;
                   while (n % p == 0) {
                       n /= p;
                       c++;
                   }
                   if (c)
                       o += "I:" + zs(p) + "^" + std::to_string(c) + " ";
               }
               if (n > 1)
                   o += "I:" + zs(n) + "^1 ";
               return o;
           });
    add_un("factor,factor_trial_division", SM2, small_tag,
           [](CI a) {
               RCP<const Integer> f = integer(0), f2 = integer(0);
               int r = factor(outArg(f), *IN(a));
               int r2 = factor_trial_division(outArg(f2), *IN(a));
               return std::to_string(r) + (r ? " " + K(f) : "") + " " + std::to_string(r2) + (r2 ? " " + K(f2) : "");
           },
           nullptr);
    add_un("factor_lehman_method", SM2, [](CI a) -> std::string { return a.z < 21 ? "n<21" : ""; },
           [](CI a) {
               RCP<const Integer> f;
               int r = factor_lehman_method(outArg(f), *IN(a));
               return std::to_string(r) + " " + K(f);
           },
           nullptr);
    add_un("primitive_root", SM, small_tag,
           [](CI a) {
               RCP<const Integer> g;
               bool ok = primitive_root(outArg(g), *IN(a));
               return ok ? "1 " + K(g) : std::string("0");
           },
           nullptr);
    add_un("primitive_root_list", SM, small_tag,
           [](CI a) {
               if (std::labs(a.sl) > 120)
                   return std::string("not-driven");
               std::vector<RCP<const Integer>> v;
               primitive_root_list(v, *IN(a));
               std::string o;
               for (auto &p : v)
                   o += K(p) + " ";
               return o;
           },
           nullptr);
    add_un("totient,carmichael", FACT, small_tag, [](CI a) { return K(totient(IN(a))) + " " + K(carmichael(IN(a))); },
           [](CI a) -> std::string {
               mpz_class n = abs(a.z);
               if (n == 0 || n > 5000)
                   return n == 0 ? "I:1 I:1" : "";
               long N = n.get_si(), phi = 0, lam = 1;
               for (long k = 1; k <= N; k++)
                   if (std::gcd(k, N) == 1)
                       phi++;
               for (long k = 1; k <= N; k++) // lambda = lcm of the orders of all units
                   if (std::gcd(k, N) == 1) {
                       long r = k % N, e = 1;
                       while (r != 1 % N) {
                           r = r * k % N;
                           e++;
                       }
                       lam = std::lcm(lam, e);
                   }
               return "I:" + std::to_string(phi) + " I:" + std::to_string(lam);
           });
    add_bin("multiplicative_order", ORD_A, ORD_N, nullptr,
            [](CI a, CI n) {
                RCP<const Integer> o;
                bool ok = multiplicative_order(outArg(o), IN(a), IN(n));
                return ok ? "1 " + K(o) : std::string("0");
            },
            [](CI a, CI n) -> std::string {
                long N = std::labs(n.sl), A_ = ((a.sl % N) + N) % N;
                if (std::gcd(A_, N) != 1)
                    return "0";
                long r = 1 % N, e = 0;
                do {
                    r = r * A_ % N;
                    e++;
                } while (r != 1 % N);
                return "1 I:" + std::to_string(e);
            });
    add_tri("nthroot_mod", NRM_A, NRM_N, NRM_M, [](CI, CI, CI m) -> std::string { return m.z <= 0 ? "m<=0" : ""; },
            [](CI a, CI n, CI m) {
                RCP<const Integer> r;
                bool ok = nthroot_mod(outArg(r), IN(a), IN(n), IN(m));
                if (!ok)
                    return std::string("0");
                // any root is acceptable mathematically; the transcript still records which one was returned
                return "1 " + K(r);
            },
            nullptr);
    add_tri("nthroot_mod_list", NRM_A, NRM_N, NRM_M, [](CI, CI, CI m) -> std::string { return m.z <= 0 ? "m<=0" : ""; },
            [](CI a, CI n, CI m) {
                std::vector<RCP<const Integer>> v;
                nthroot_mod_list(v, IN(a), IN(n), IN(m));
                std::string o;
                for (auto &p : v)
                    o += S(p->as_integer_class()) + " ";
                return o;
            },
            nullptr);
    add_tri("nthroot_mod_list(residues)", NRM_A, NRM_N, NRM_M, [](CI, CI, CI m) -> std::string { return m.z <= 0 ? "!m<=0" : ""; },
            [](CI a, CI n, CI m) {
                std::vector<RCP<const Integer>> v;
                nthroot_mod_list(v, IN(a), IN(n), IN(m));
                std::set<long> rs; // the library returns some roots as negative representatives: reduce with GMP before comparing
                for (auto &p : v) {
                    mpz_class r = to_mpz(p->as_integer_class());
                    mpz_fdiv_r(r.get_mpz_t(), r.get_mpz_t(), m.z.get_mpz_t());
                    rs.insert(r.get_si());
                }
                std::string o = std::to_string(v.size()) + ":";
                for (long r : rs)
                    o += std::to_string(r) + " ";
                return o;
            },
            [](CI a, CI n, CI m) -> std::string {
                if (a.z < 0)
                    return ""; // nthroot_mod_list(-1,2,4) = {3} on every backend (truncated a % 4): not a backend issue, reported
                long M = m.sl, cnt = 0;
                std::string o;
                for (long x = 0; x < M; x++) {
                    long r = 1 % M;
                    for (long e = 0; e < n.sl; e++)
                        r = r * x % M;
                    if (r == ((a.sl % M) + M) % M) {
                        o += std::to_string(x) + " ";
                        cnt++;
                    }
                }
                return std::to_string(cnt) + ":" + o;
            });
    {
        // powermod(a, b, m), b integer or rational
        static std::vector<QV> PB;
        for (auto &p : std::vector<std::pair<std::string, std::string>>{{"-3", "1"}, {"-2", "1"}, {"-1", "1"}, {"0", "1"},  {"1", "1"}, {"2", "1"}, {"3", "1"},
                                                                        {"5", "1"},  {"1", "2"},  {"-1", "2"}, {"1", "3"}, {"2", "3"}, {"3", "2"}})
            PB.push_back(mkq(p.first, p.second));
        Group g;
        g.fn = "powermod";
        g.n = (long long)PM_A.size() * PB.size() * PM_M.size();
        g.f = [](long long k, int mode, Out &o) {
            CI a = PM_A[k / (PB.size() * PM_M.size())], m = PM_M[k % PM_M.size()];
            CQ b = PB[(k / PM_M.size()) % PB.size()];
            if (mode == DESC) {
                o.desc = "powermod(" + a.s + ", " + b.s + ", " + m.s + ")";
                o.kinds = a.kind + "," + b.kind + "," + m.kind;
                o.tags = m.z == 0 ? "m=0" : m.z < 0 ? "m<0" : "";
            } else if (mode == EXEC) {
                RCP<const Integer> r;
                bool ok = powermod(outArg(r), IN(a), Rational::from_mpq(b.v), IN(m));
                o.res = ok ? "1 " + K(r) : "0";
            }
        };
        GS.push_back(g);
        Group h = g;
        h.fn = "powermod_list";
        h.f = [](long long k, int mode, Out &o) {
            CI a = PM_A[k / (PB.size() * PM_M.size())], m = PM_M[k % PM_M.size()];
            CQ b = PB[(k / PM_M.size()) % PB.size()];
            if (mode == DESC) {
                o.desc = "powermod_list(" + a.s + ", " + b.s + ", " + m.s + ")";
                o.kinds = a.kind + "," + b.kind + "," + m.kind;
                o.tags = m.z == 0 ? "m=0" : m.z < 0 ? "m<0" : "";
            } else if (mode == EXEC) {
                std::vector<RCP<const Integer>> v;
                powermod_list(v, IN(a), Rational::from_mpq(b.v), IN(m));
                for (auto &p : v)
                    o.res += S(p->as_integer_class()) + " ";
            }
        };
        GS.push_back(h);
    }
    add_un("quadratic_residues", SM, small_tag,
           [](CI a) {
               if (a.sl > 120)
                   return std::string("not-driven");
               std::string o;
               for (auto &x : quadratic_residues(*IN(a)))
                   o += S(x) + " ";
               return o;
           },
           nullptr);
    add_bin("is_quad_residue", ORD_A, SM, [](CI, CI p) -> std::string { return p.z == 0 ? "p=0" : p.z < 0 ? "p<0" : ""; },
            [](CI a, CI p) { return B(is_quad_residue(*IN(a), *IN(p))); },
            [](CI a, CI p) -> std::string {
                long P = std::labs(p.sl);
                if (P == 0)
                    return "";
                long t = ((a.sl % P) + P) % P;
                for (long x = 0; x < P; x++)
                    if (x * x % P == t)
                        return "1";
                return "0";
            });
    add_tri("is_nth_residue", NRM_A, NRM_N, NRM_M, [](CI, CI, CI m) -> std::string { return m.z == 0 ? "m=0" : m.z < 0 ? "m<0" : ""; },
            [](CI a, CI n, CI m) { return B(is_nth_residue(*IN(a), *IN(n), *IN(m))); },
            [](CI a, CI n, CI m) -> std::string {
                long M = std::labs(m.sl);
                if (a.z < 0)
                    return ""; // is_nth_residue(-1,2,4) is wrong on every backend (truncated a % p); not a backend issue, reported
                if (M == 0)
                    return "0";
                for (long x = 0; x < M; x++) {
                    long r = 1 % M;
                    for (long e = 0; e < n.sl; e++)
                        r = r * x % M;
                    if (r == ((a.sl % M) + M) % M)
                        return "1";
                }
                return "0";
            });
    add_un("mobius", SM, small_tag, [](CI a) { return std::to_string(mobius(*IN(a))); }, nullptr);
    add_un("mertens", U, nullptr, [](CI a) { return a.sl > 200 ? std::string("not-driven") : std::to_string(mertens(a.sl)); }, nullptr);
    add_un("bernoulli", U, nullptr, [](CI a) { return a.sl > 60 ? std::string("not-driven") : K(bernoulli(a.sl)); }, nullptr);
    for (long m : {1L, 2L, 3L, -1L, -2L, 0L})
        add_un("harmonic(m=" + std::to_string(m) + ")", U, nullptr,
               [m](CI a) { return a.sl > 60 ? std::string("not-driven") : K(harmonic(a.sl, m)); },
               [m](CI a) -> std::string {
                   if (a.sl > 60)
                       return "not-driven";
                   mpq_class s = 0;
                   for (long i = 1; i <= a.sl; i++) {
                       mpq_class t(zpow(i, std::labs(m)));
                       s += m >= 0 ? mpq_class(1) / t : t;
                   }
                   return NK(s);
               });
    static AV SIDES = lst({"3", "4", "5", "6", "8", "100"});
    add_bin("mp_polygonal_number,root", SIDES, A,
            [](CI, CI n) -> std::string { return n.z <= 0 ? "!documented-n>0" : ""; },
            [](CI s, CI n) { return S(mp_polygonal_number(s.v, n.v)) + " " + S(mp_principal_polygonal_root(s.v, n.v)); }, nullptr);
    static size_t ppd_bits = 160;
    ppd_bits = TIER == "thorough" ? 230 : 160; // bisection with full powers: seconds per call on boostmp above ~200 bits
    add_un("mp_perfect_power_decomposition", Rt, [](CI a) -> std::string { return (a.z <= 0 || mpz_sizeinbase(a.z.get_mpz_t(), 2) > ppd_bits) ? "!documented-positive-and-bounded" : ""; },
           [](CI a) {
               auto p = mp_perfect_power_decomposition(a.v, false), q = mp_perfect_power_decomposition(a.v, true);
               return S(p.first) + "^" + S(p.second) + " " + S(q.first) + "^" + S(q.second);
           },
           nullptr);
    add_un("primepi,primorial", SM, small_tag, [](CI a) { return K(primepi(IN(a))) + " " + (a.sl > 300 ? std::string() : K(primorial(IN(a)))); }, nullptr);
}
static void add_nn(const std::string &fn, const std::vector<NV> &X, const std::vector<NV> &Y, std::function<std::string(CN, CN)> pre,
                   std::function<std::string(CN, CN)> ex, std::function<std::string(CN, CN)> rf)
{
    const std::vector<NV> *px = &X, *py = &Y;
    Group g;
    g.fn = fn;
    g.n = (long long)X.size() * Y.size();
    g.has_ref = (bool)rf;
    g.f = [=](long long k, int mode, Out &o) {
        CN a = (*px)[k / py->size()], b = (*py)[k % py->size()];
        if (mode == DESC) {
            o.desc = fn + "(" + a.s + ", " + b.s + ")";
            o.kinds = a.kind + "," + b.kind;
            o.nontriv = a.multi || b.multi;
            tagskip(pre ? pre(a, b) : "", o);
        } else if (mode == EXEC)
            o.res = ex(a, b);
        else if (rf)
            o.ref = rf(a, b);
    };
    GS.push_back(g);
}
static void add_n(const std::string &fn, const std::vector<NV> &X, std::function<std::string(CN)> pre, std::function<std::string(CN)> ex,
                  std::function<std::string(CN)> rf)
{
    const std::vector<NV> *px = &X;
    Group g;
    g.fn = fn;
    g.n = X.size();
    g.has_ref = (bool)rf;
    g.f = [=](long long k, int mode, Out &o) {
        CN a = (*px)[k];
        if (mode == DESC) {
            o.desc = fn + "(" + a.s + ")";
            o.kinds = a.kind;
            o.nontriv = a.multi;
            tagskip(pre ? pre(a) : "", o);
        } else if (mode == EXEC)
            o.res = ex(a);
        else if (rf)
            o.ref = rf(a);
    };
    GS.push_back(g);
}
static mpq_class qpow(const mpq_class &b, long e) // b != 0 when e < 0
{
    mpq_class r(zpow(b.get_num(), std::labs(e)), zpow(b.get_den(), std::labs(e)));
    if (e < 0) {
        r = 1 / r;
    }
    r.canonicalize();
    return r;
}
static std::string polykey(const char *cls, const std::vector<mpq_class> &c, bool rat)
{
    std::string o = std::string(cls) + "[S:x;";
    for (size_t i = 0; i < c.size(); i++)
        if (c[i] != 0)
            o += std::to_string(i) + ":" + (rat ? c[i].get_num().get_str() + "/" + c[i].get_den().get_str() : c[i].get_num().get_str()) + ",";
    return o + "]";
}
static void groups_symbolic()
{
    auto zd = [](CN, CN b) -> std::string { return b.z == 0 ? "zero-divisor" : ""; };
    add_nn("Number::add", NA, NA, nullptr, [](CN a, CN b) { return K(a.v->add(*b.v)); }, [](CN a, CN b) { return NK(a.z + b.z); });
    add_nn("Number::sub", NA, NA, nullptr, [](CN a, CN b) { return K(a.v->sub(*b.v)); }, [](CN a, CN b) { return NK(a.z - b.z); });
    add_nn("Number::mul", NA, NA, nullptr, [](CN a, CN b) { return K(a.v->mul(*b.v)); }, [](CN a, CN b) { return NK(a.z * b.z); });
    add_nn("Number::div", NA, NA, zd, [](CN a, CN b) { return K(a.v->div(*b.v)); },
           [](CN a, CN b) { return b.z == 0 ? std::string() : NK(a.z / b.z); });
    add_nn("Number::__cmp__,__eq__", NA, NA, nullptr,
           [](CN a, CN b) {
               int c = a.v->__cmp__(*b.v);
               return std::to_string((c > 0) - (c < 0)) + B(a.v->__eq__(*b.v)) + B(eq(*a.v, *b.v));
           },
           nullptr);
    add_nn("pow(Number,Number)", NA, EA,
           [](CN a, CN e) -> std::string {
               size_t bits = mpz_sizeinbase(a.z.get_num().get_mpz_t(), 2) + mpz_sizeinbase(a.z.get_den().get_mpz_t(), 2);
               mpz_class en = abs(e.z.get_num());
               if (bits * en.get_ui() > 60000)
                   return "!result-too-large";
               std::string t = e.z.get_den() == 1 ? "" : "rational-exp";
               if (a.z == 0 && e.z < 0)
                   t += (t.empty() ? "" : "+") + std::string("zero-base-negexp");
               return t;
           },
           [](CN a, CN e) { return K(pow(a.v, e.v)); },
           [](CN a, CN e) -> std::string {
               if (e.z.get_den() != 1 || (a.z == 0 && e.z < 0))
                   return "";
               return NK(qpow(a.z, e.z.get_num().get_si()));
           });
    add_nn("Number::pow", NA, EA,
           [](CN a, CN e) -> std::string {
               size_t bits = mpz_sizeinbase(a.z.get_num().get_mpz_t(), 2) + mpz_sizeinbase(a.z.get_den().get_mpz_t(), 2);
               mpz_class en = abs(e.z.get_num());
               if (bits * en.get_ui() > 60000)
                   return "!result-too-large";
               return e.z.get_den() == 1 ? "" : "rational-exp";
           },
           [](CN a, CN e) { return K(a.v->pow(*e.v)); }, nullptr);
    for (unsigned n : {1u, 2u, 3u, 5u})
        add_n("Rational::nth_root(n=" + std::to_string(n) + "),is_perfect_power", NA,
              [](CN a) -> std::string { return a.z.get_den() == 1 ? "!not-a-Rational" : a.z < 0 ? "neg" : ""; },
              [n](CN a) {
                  const Rational &r = down_cast<const Rational &>(*a.v);
                  RCP<const Number> out;
                  std::string o;
                  if (a.z > 0 || n % 2 == 1) {
                      bool ok = r.nth_root(outArg(out), n);
                      o = ok ? "1 " + K(out) : "0";
                  } else
                      o = "-";
                  if (a.z > 0)
                      o += " " + B(r.is_perfect_power(false)) + B(r.is_perfect_power(true));
                  return o;
              },
              nullptr);
    add_n("floor,ceiling,truncate(Number)", NA, nullptr, [](CN a) { return K(floor(a.v)) + " " + K(ceiling(a.v)) + " " + K(truncate(a.v)); },
          [](CN a) {
              mpz_class f, c, t;
              mpz_fdiv_q(f.get_mpz_t(), a.z.get_num().get_mpz_t(), a.z.get_den().get_mpz_t());
              mpz_cdiv_q(c.get_mpz_t(), a.z.get_num().get_mpz_t(), a.z.get_den().get_mpz_t());
              mpz_tdiv_q(t.get_mpz_t(), a.z.get_num().get_mpz_t(), a.z.get_den().get_mpz_t());
              return "I:" + zs(f) + " I:" + zs(c) + " I:" + zs(t);
          });
    add_n("eval_double(Number)", NA, [](CN a) -> std::string { return mpq_class(a.z.get_d()) == a.z ? "exact" : "inexact"; },
          [](CN a) { return dhex(eval_double(*a.v)); }, nullptr);
    add_n("str(Number)", NA, nullptr, [](CN a) { return a.v->__str__(); },
          [](CN a) { return a.z.get_den() == 1 ? a.z.get_num().get_str() : a.z.get_num().get_str() + "/" + a.z.get_den().get_str(); });
    {
        auto items = std::make_shared<std::vector<Item>>();
        for (double d : {0.0, -0.0, 0.5, -0.5, 1.5, -1.5, 2.5, -2.5, 1e15 + 0.5, 9007199254740992.0, 18446744073709551616.0, -9223372036854775808.0,
                         1e20, -1e20, 1e40, -1e300})
            items->push_back(Item{hexd(d), std::fabs(d) >= 18446744073709551616.0 ? "multi-limb" : "small", std::fabs(d) >= 18446744073709551616.0,
                                  [d] {
                                      RCP<const Basic> x = real_double(d);
                                      return K(floor(x)) + " " + K(ceiling(x)) + " " + K(truncate(x));
                                  },
                                  [d] {
                                      mpz_class f, c, t;
                                      mpz_set_d(f.get_mpz_t(), std::floor(d));
                                      mpz_set_d(c.get_mpz_t(), std::ceil(d));
                                      mpz_set_d(t.get_mpz_t(), std::trunc(d));
                                      return "I:" + zs(f) + " I:" + zs(c) + " I:" + zs(t);
                                  }});
        add_items("floor,ceiling,truncate(RealDouble)", items);
    }
    RCP<const Symbol> x = symbol("x"), y = symbol("y"), z = symbol("z");
    {
        auto items = std::make_shared<std::vector<Item>>();
        std::vector<std::pair<std::string, RCP<const Basic>>> es;
        auto Ii = [](const char *s) { return integer(integer_class(std::string(s))); };
        RCP<const Basic> t20 = Ii("100000000000000000000"), w2 = Ii("18446744073709551617");
        for (int k = 2; k <= 6; k++) {
            es.push_back({"(x+y+1)^" + std::to_string(k), pow(add(add(x, y), one), integer(k))});
            es.push_back({"(2x-3y)^" + std::to_string(k), pow(sub(mul(integer(2), x), mul(integer(3), y)), integer(k))});
            es.push_back({"(x/2+y/3)^" + std::to_string(k), pow(add(div(x, integer(2)), div(y, integer(3))), integer(k))});
            if (k <= 4) {
                es.push_back({"(10^20 x+(2^64+1) y)^" + std::to_string(k), pow(add(mul(t20, x), mul(w2, y)), integer(k))});
                es.push_back({"((x+1)(x-1))^" + std::to_string(k), mul(pow(add(x, one), integer(k)), pow(sub(x, one), integer(k)))});
                es.push_back({"(x+sqrt(2))^" + std::to_string(k), pow(add(x, sqrt(integer(2))), integer(k))});
                es.push_back({"(x+y+z+1)^" + std::to_string(k), pow(add(add(add(x, y), z), one), integer(k))});
                es.push_back({"(x-10^20/3)^" + std::to_string(k), pow(sub(x, div(t20, integer(3))), integer(k))});
            }
        }
        es.push_back({"(1+x)^20", pow(add(one, x), integer(20))});
        es.push_back({"(1-2x)^40", pow(sub(one, mul(integer(2), x)), integer(40))});
        es.push_back({"(x+y)^-2", pow(add(x, y), integer(-2))});
        es.push_back({"(2^64 x+2^64)^3", pow(add(mul(Ii("18446744073709551616"), x), Ii("18446744073709551616")), integer(3))});
        for (auto &p : es) {
            RCP<const Basic> e = p.second;
            items->push_back(Item{"key " + p.first, "key", true, [e] { return K(expand(e)); }, nullptr});
            items->push_back(Item{"str " + p.first, "str", true, [e] { return expand(e)->__str__(); }, nullptr});
        }
        add_items("expand", items);
    }
    {
        auto items = std::make_shared<std::vector<Item>>();
        static const int qs[] = {1, 2, 3, 4, 5, 6, 8, 10, 12};
        for (int q : qs)
            for (int p = -26; p <= 26; p++) {
                RCP<const Basic> arg = mul(Rational::from_two_ints(p, q), pi);
                std::string d = std::to_string(p) + "*pi/" + std::to_string(q);
                items->push_back(Item{d, "small", false, [arg] { return K(sin(arg)) + " " + K(cos(arg)) + " " + K(tan(arg)); }, nullptr});
            }
        for (auto &pq : std::vector<std::pair<std::string, long>>{{"100000000000000000001", 3}, {"-18446744073709551617", 4}, {"18446744073709551619", 6},
                                                                  {"340282366920938463463374607431768211457", 12}, {"-100000000000000000000", 5}}) {
            RCP<const Basic> arg = mul(Rational::from_two_ints(*integer(integer_class(pq.first)), *integer(pq.second)), pi);
            items->push_back(
                Item{pq.first + "*pi/" + std::to_string(pq.second), "multi-limb", true, [arg] { return K(sin(arg)) + " " + K(cos(arg)) + " " + K(tan(arg)); }, nullptr});
        }
        add_items("sin,cos,tan(r*pi)", items);
    }
    {
        // univariate polynomials
        static std::vector<std::vector<std::string>> CV = {{"1", "1"},
                                                           {"1", "2", "1"},
                                                           {"7", "7", "7"},
                                                           {"-1", "0", "1"},
                                                           {"18446744073709551617", "-1"},
                                                           {"100000000000000000000", "0", "-100000000000000000000", "3"},
                                                           {"0", "0", "5"},
                                                           {"1"},
                                                           {"-3"},
                                                           {"2147483648", "2147483648", "2147483648"},
                                                           {"9223372036854775807", "-9223372036854775808", "1"},
                                                           {"255", "255", "255", "255"},
                                                           {"-7", "7", "-7"},
                                                           {"0"}};
        auto mkp = [x](const std::vector<std::string> &c) {
            std::vector<integer_class> v;
            for (auto &s : c)
                v.push_back(integer_class(s));
            return UIntPoly::from_vec(x, v);
        };
        auto mkr = [x](const std::vector<std::string> &c, long den) {
            std::vector<rational_class> v;
            for (auto &s : c) {
                rational_class q = rational_class(integer_class(s), integer_class(den));
                canonicalize(q);
                v.push_back(q);
            }
            return URatPoly::from_vec(x, v);
        };
        auto cq = [](const std::vector<std::string> &c, long den) {
            std::vector<mpq_class> v;
            for (auto &s : c) {
                mpq_class q(mpz_class(s, 10), den);
                q.canonicalize();
                v.push_back(q);
            }
            return v;
        };
        auto items = std::make_shared<std::vector<Item>>();
        auto cvs = [](const std::vector<std::string> &c) {
            std::string o = "[";
            for (auto &s : c)
                o += s + ",";
            return o + "]";
        };
        for (size_t i = 0; i < CV.size(); i++)
            for (size_t j = 0; j < CV.size(); j++) {
                const auto &a = CV[i], &b = CV[j];
                bool multi = false;
                for (auto &s : a)
                    multi |= s.size() > 19;
                for (auto &s : b)
                    multi |= s.size() > 19;
                std::vector<mpq_class> qa = cq(a, 1), qb = cq(b, 1), prod(qa.size() + qb.size(), 0), sum(std::max(qa.size(), qb.size()), 0),
                                       dif(std::max(qa.size(), qb.size()), 0);
                for (size_t u = 0; u < qa.size(); u++)
                    for (size_t w = 0; w < qb.size(); w++)
                        prod[u + w] += qa[u] * qb[w];
                for (size_t u = 0; u < sum.size(); u++) {
                    mpq_class ca = u < qa.size() ? qa[u] : mpq_class(0), cb = u < qb.size() ? qb[u] : mpq_class(0);
                    sum[u] = ca + cb;
                    dif[u] = ca - cb;
                }
                std::string d = cvs(a) + "," + cvs(b);
                items->push_back(Item{"UIntPoly mul " + d, "UIntPoly-mul", multi, [=] { return K(mul_upoly(*mkp(a), *mkp(b))); },
                                      [=] { return polykey("UIntPoly", prod, false); }});
                items->push_back(Item{"UIntPoly add,sub " + d, "UIntPoly-add", multi,
                                      [=] { return K(add_upoly(*mkp(a), *mkp(b))) + " " + K(sub_upoly(*mkp(a), *mkp(b))); },
                                      [=] { return polykey("UIntPoly", sum, false) + " " + polykey("UIntPoly", dif, false); }});
                // rational polynomials a/6, b/35
                std::vector<mpq_class> ra = cq(a, 6), rb = cq(b, 35), rprod(ra.size() + rb.size(), 0), rsum(std::max(ra.size(), rb.size()), 0);
                for (size_t u = 0; u < ra.size(); u++)
                    for (size_t w = 0; w < rb.size(); w++)
                        rprod[u + w] += ra[u] * rb[w];
                for (size_t u = 0; u < rsum.size(); u++)
                    rsum[u] = (u < ra.size() ? ra[u] : mpq_class(0)) + (u < rb.size() ? rb[u] : mpq_class(0));
                items->push_back(Item{"URatPoly mul,add " + cvs(a) + "/6," + cvs(b) + "/35", "URatPoly", multi,
                                      [=] { return K(mul_upoly(*mkr(a, 6), *mkr(b, 35))) + " " + K(add_upoly(*mkr(a, 6), *mkr(b, 35))); },
                                      [=] { return polykey("URatPoly", rprod, true) + " " + polykey("URatPoly", rsum, true); }});
            }
        for (size_t i = 0; i < CV.size(); i++) {
            const auto &a = CV[i];
            if (a.size() == 1 && a[0] == "0")
                continue; // pow_upoly and eval of the zero polynomial segfault on every backend (empty dict; not a backend issue, reported)
            bool multi = false;
            for (auto &s : a)
                multi |= s.size() > 19;
            for (unsigned k : {1u, 2u, 3u, 5u}) {
 // k = 0 never terminates in ODictWrapper::pow on every backend (not a backend issue; reported separately)
                std::vector<mpq_class> qa = cq(a, 1), r = {mpq_class(1)};
                for (unsigned e = 0; e < k; e++) {
                    std::vector<mpq_class> n(r.size() + qa.size(), 0);
                    for (size_t u = 0; u < r.size(); u++)
                        for (size_t w = 0; w < qa.size(); w++)
                            n[u + w] += r[u] * qa[w];
                    r = n;
                }
                items->push_back(Item{"UIntPoly pow " + cvs(a) + "^" + std::to_string(k), "UIntPoly-pow", multi,
                                      [=] { return K(pow_upoly(*mkp(a), k)); }, [=] { return polykey("UIntPoly", r, false); }});
            }
            for (const char *pt : {"0", "1", "-2", "100000000000000000000"}) {
                std::string ps = pt;
                items->push_back(Item{"UIntPoly eval " + cvs(a) + " at " + ps, "UIntPoly-eval", multi || ps.size() > 19,
                                      [=] { return S(mkp(a)->eval(integer_class(ps))); },
                                      [=] {
                                          mpz_class v = 0, X(ps, 10);
                                          for (size_t u = a.size(); u-- > 0;)
                                              v = v * X + mpz_class(a[u], 10);
                                          return zs(v);
                                      }});
            }
        }
        add_items("polys", items);
    }
    {
        auto items = std::make_shared<std::vector<Item>>();
        std::vector<std::pair<std::string, RCP<const Basic>>> fs
            = {{"sin(x)", sin(x)},           {"cos(x)", cos(x)},         {"exp(x)", exp(x)},      {"1/(1-x)", div(one, sub(one, x))},
               {"log(1+x)", log(add(one, x))}, {"tan(x)", tan(x)},         {"sqrt(1+x)", sqrt(add(one, x))},
               {"1/(3-2x)^2", pow(sub(integer(3), mul(integer(2), x)), integer(-2))},
               {"exp(x)/(1+x/7)", div(exp(x), add(one, div(x, integer(7))))}, {"atan(x)", atan(x)}};
        for (auto &f : fs)
            for (unsigned prec : {6u, 12u}) {
                RCP<const Basic> e = f.second;
                items->push_back(Item{f.first + ", prec " + std::to_string(prec), "series", true, [e, x, prec] { return K(series(e, x, prec)->as_basic()); },
                                      nullptr});
            }
        add_items("series", items);
    }
    {
        auto items = std::make_shared<std::vector<Item>>();
        std::vector<std::vector<std::string>> ms = {{"2", "1", "0", "1", "3", "1", "0", "1", "4"},
                                                    {"18446744073709551617", "1", "0", "1", "100000000000000000000", "-1", "7", "1", "4294967297"},
                                                    {"1", "2", "3", "4", "5", "6", "7", "8", "9"},
                                                    {"-3", "100000000000000000039", "5", "2", "-9223372036854775808", "1", "1", "1", "1"}};
        for (auto &m : ms) {
            std::string d = "[";
            for (auto &s : m)
                d += s + ",";
            d += "]";
            items->push_back(Item{"det,inv 3x3 " + d, "matrix", true,
                                  [m] {
                                      vec_basic v;
                                      for (auto &s : m)
                                          v.push_back(integer(integer_class(s)));
                                      DenseMatrix A(3, 3, v), Bm(3, 3);
                                      std::string o = K(A.det());
                                      try {
                                          A.inv(Bm);
                                          for (auto &e : Bm.as_vec_basic())
                                              o += " " + K(e);
                                      } catch (SymEngineException &) {
                                          o += " singular";
                                      }
                                      return o;
                                  },
                                  nullptr});
        }
        add_items("matrix", items);
    }
    {
        auto items = std::make_shared<std::vector<Item>>();
        for (const char *s : {"12345678901234567890123", "-12345678901234567890123", "1/3", "2**100", "10**20/3", "18446744073709551616*x", "010",
                              "0100000000000000000000000000", "1e2", "3/18446744073709551617", "(2**64+1)**2", "x**2 + 100000000000000000000*x"}) {
            std::string str = s;
            items->push_back(Item{str, str[0] == '0' ? "leading-zero" : "plain", true, [str] { return K(parse(str)); }, nullptr});
        }
        add_items("parse", items);
    }
}
// @@MORE@@

static void build_groups(bool T)
{
    build_alphabets(T);
    groups_raw_arith();
    groups_raw_pow();
    groups_raw_conv();
    groups_raw_rational();
    groups_public_integer();
    groups_public_ntheory();
    groups_symbolic();
    // @@CALLS@@
    OFF.clear();
    NCALLS = 0;
    for (auto &g : GS) {
        OFF.push_back(NCALLS);
        NCALLS += g.n;
    }
}
