// C43  Results do not depend on the integer backend -- E5 x configurations (DESIGN 5 C43)
//
// One source, compiled against every integer backend (plain = GMP C wrapper classes of
// mp_wrapper.h, gmpxx = mpz_class, boostmp = boost::multiprecision cpp_int + mp_boost.cpp).
// `--transcript` prints one line per call of a fixed exhaustive exact workload; the main
// instance runs every sibling executable (env VERIF_EXES) chunk by chunk, compares the
// transcripts line by line and additionally compares them with GMP computed directly by
// the driver (mpz_* on operands built from decimal strings; never through integer_class).
#include "common.h"
#include "key.h"
#include "exact.h"
#include <setjmp.h>
#include <poll.h>
using namespace verif;

// ------------------------------------------------------------------ values
struct IV {
    std::string s, kind;
    integer_class v;
    mpz_class z;
    bool multi = false;
    long sl = 0; // value when it fits a long
};
typedef const IV &CI;
static std::string zs(const mpz_class &z)
{
    return z.get_str();
}
static IV mk(const std::string &s)
{
    IV x;
    x.s = s;
    x.v = integer_class(s);
    x.z = mpz_class(s, 10);
    size_t bits = mpz_sizeinbase(x.z.get_mpz_t(), 2);
    int sg = sgn(x.z);
    x.multi = bits > 64;
    if (x.z.fits_slong_p())
        x.sl = x.z.get_si();
    if (sg == 0)
        x.kind = "0";
    else if (x.z == 1)
        x.kind = "+1";
    else if (x.z == -1)
        x.kind = "-1";
    else
        x.kind = std::string(sg > 0 ? "+" : "-") + (bits <= 31 ? "s" : bits <= 64 ? "w" : "m");
    return x;
}
static IV mkz(const mpz_class &z)
{
    return mk(z.get_str());
}
static mpz_class zpow(const mpz_class &b, unsigned long e)
{
    mpz_class r;
    mpz_pow_ui(r.get_mpz_t(), b.get_mpz_t(), e);
    return r;
}
static mpz_class Z(const char *s)
{
    return mpz_class(s, 10);
}
static std::vector<IV> rng(long lo, long hi)
{
    std::vector<IV> v;
    for (long i = lo; i <= hi; i++)
        v.push_back(mk(std::to_string(i)));
    return v;
}
static std::vector<IV> lst(std::initializer_list<const char *> l)
{
    std::vector<IV> v;
    for (auto s : l)
        v.push_back(mk(s));
    return v;
}
static void addu(std::vector<IV> &v, const mpz_class &z) // append unless present
{
    std::string s = z.get_str();
    for (auto &x : v)
        if (x.s == s)
            return;
    v.push_back(mk(s));
}

struct QV {
    std::string s, kind;
    rational_class v;
    mpq_class z;
    bool multi = false;
};
typedef const QV &CQ;
static QV mkq(const std::string &n, const std::string &d) // d > 0, not necessarily canonical
{
    QV q;
    q.s = n + "/" + d;
    q.v = rational_class(integer_class(n), integer_class(d));
    canonicalize(q.v);
    q.z = mpq_class(mpz_class(n, 10), mpz_class(d, 10));
    q.z.canonicalize();
    IV a = mk(n), b = mk(d);
    q.multi = a.multi || b.multi;
    q.kind = a.kind + "/" + b.kind;
    return q;
}
struct NV {
    std::string s, kind;
    RCP<const Number> v;
    mpq_class z;
    bool multi = false;
};
typedef const NV &CN;

// ------------------------------------------------------------------ printing
static std::string S(const integer_class &i)
{
    std::ostringstream s;
    s << i;
    return s.str();
}
static std::string S(const rational_class &q)
{
    integer_class n = get_num(q), d = get_den(q);
    return S(n) + "/" + S(d);
}
static std::string SQ(const mpq_class &q)
{
    return q.get_num().get_str() + "/" + q.get_den().get_str();
}
static std::string K(const RCP<const Basic> &e)
{
    return key(*e);
}
static std::string NK(const mpq_class &q) // key() of the Number with value q
{
    if (q.get_den() == 1)
        return "I:" + q.get_num().get_str();
    return "Q:" + q.get_num().get_str() + "/" + q.get_den().get_str();
}
static std::string B(bool b)
{
    return b ? "1" : "0";
}
static RCP<const Integer> I(CI a)
{
    return integer(a.v);
}

// ------------------------------------------------------------------ groups
struct Out {
    std::string desc, kinds, res, ref, skip;
    bool nontriv = false;
};
enum { DESC = 0, EXEC = 1, REF = 2 };
struct Group {
    std::string fn;
    long long n = 0;
    bool has_ref = false;
    std::function<void(long long, int, Out &)> f;
};
static std::vector<Group> GS;
static std::vector<long long> OFF;
static long long NCALLS = 0;

typedef std::function<std::string(CI)> F1;
typedef std::function<std::string(CI, CI)> F2;
typedef std::function<std::string(CI, CI, CI)> F3;
typedef std::vector<IV> AV;

static void tagskip(const std::string &t, Out &o)
{
    if (!t.empty() && t[0] == '!')
        o.skip = t.substr(1);
    else if (!t.empty())
        o.kinds += "," + t;
}
static void add_un(const std::string &fn, const AV &X, F1 pre, F1 exec, F1 ref)
{
    const AV *px = &X;
    Group g;
    g.fn = fn;
    g.n = X.size();
    g.has_ref = (bool)ref;
    g.f = [=](long long k, int mode, Out &o) {
        CI a = (*px)[k];
        if (mode == DESC) {
            o.desc = fn + "(" + a.s + ")";
            o.kinds = a.kind;
            o.nontriv = a.multi;
            tagskip(pre ? pre(a) : "", o);
        } else if (mode == EXEC)
            o.res = exec(a);
        else if (ref)
            o.ref = ref(a);
    };
    GS.push_back(g);
}
static void add_bin(const std::string &fn, const AV &X, const AV &Y, F2 pre, F2 exec, F2 ref)
{
    const AV *px = &X, *py = &Y;
    Group g;
    g.fn = fn;
    g.n = (long long)X.size() * Y.size();
    g.has_ref = (bool)ref;
    g.f = [=](long long k, int mode, Out &o) {
        CI a = (*px)[k / py->size()], b = (*py)[k % py->size()];
        if (mode == DESC) {
            o.desc = fn + "(" + a.s + ", " + b.s + ")";
            o.kinds = a.kind + "," + b.kind;
            o.nontriv = a.multi || b.multi;
            tagskip(pre ? pre(a, b) : "", o);
        } else if (mode == EXEC)
            o.res = exec(a, b);
        else if (ref)
            o.ref = ref(a, b);
    };
    GS.push_back(g);
}
static void add_tri(const std::string &fn, const AV &X, const AV &Y, const AV &W, F3 pre, F3 exec, F3 ref)
{
    const AV *px = &X, *py = &Y, *pw = &W;
    Group g;
    g.fn = fn;
    g.n = (long long)X.size() * Y.size() * W.size();
    g.has_ref = (bool)ref;
    g.f = [=](long long k, int mode, Out &o) {
        CI a = (*px)[k / (py->size() * pw->size())], b = (*py)[(k / pw->size()) % py->size()], c = (*pw)[k % pw->size()];
        if (mode == DESC) {
            o.desc = fn + "(" + a.s + ", " + b.s + ", " + c.s + ")";
            o.kinds = a.kind + "," + b.kind + "," + c.kind;
            o.nontriv = a.multi || b.multi || c.multi;
            tagskip(pre ? pre(a, b, c) : "", o);
        } else if (mode == EXEC)
            o.res = exec(a, b, c);
        else if (ref)
            o.ref = ref(a, b, c);
    };
    GS.push_back(g);
}
// generic list of named thunks (symbolic workloads)
struct Item {
    std::string desc, kind;
    bool nontriv;
    std::function<std::string()> exec, ref;
};
static void add_items(const std::string &fn, std::shared_ptr<std::vector<Item>> items)
{
    Group g;
    g.fn = fn;
    g.n = items->size();
    g.has_ref = false;
    for (auto &it : *items)
        if (it.ref)
            g.has_ref = true;
    g.f = [=](long long k, int mode, Out &o) {
        const Item &it = (*items)[k];
        if (mode == DESC) {
            o.desc = fn + "(" + it.desc + ")";
            o.kinds = it.kind;
            o.nontriv = it.nontriv;
        } else if (mode == EXEC)
            o.res = it.exec();
        else if (it.ref)
            o.ref = it.ref();
    };
    GS.push_back(g);
}

static void build_groups(bool thorough); // below

static void locate(long long i, const Group *&g, long long &k)
{
    size_t gi = std::upper_bound(OFF.begin(), OFF.end(), i) - OFF.begin() - 1;
    g = &GS[gi];
    k = i - OFF[gi];
}

// ------------------------------------------------------------------ guarded execution (transcript side)
static sigjmp_buf JB;
static volatile sig_atomic_t ARMED = 0;
static std::string GRES;
static void on_fpe(int)
{
    if (ARMED) {
        ARMED = 0;
        siglongjmp(JB, 1);
    }
    signal(SIGFPE, SIG_DFL);
    raise(SIGFPE);
}
static std::string clean(std::string s)
{
    for (auto &c : s)
        if (c == '\t' || c == '\n' || c == '\r')
            c = ' ';
    return s;
}
static std::string guarded(const Group &g, long long k)
{
    Out d;
    g.f(k, DESC, d);
    if (!d.skip.empty())
        return "SKIP:" + d.skip;
    if (sigsetjmp(JB, 1) == 0) {
        ARMED = 1;
        try {
            Out o;
            g.f(k, EXEC, o);
            GRES = o.res;
        } catch (SymEngineException &e) {
            GRES = "EXC:SymEngineException/" + std::to_string((int)e.error_code());
        } catch (std::bad_alloc &) {
            GRES = "EXC:std::bad_alloc";
        } catch (std::exception &) {
            GRES = "EXC:std::exception";
        } catch (...) {
            GRES = "EXC:unknown";
        }
        ARMED = 0;
    } else {
        GRES = "SIGNAL:SIGFPE"; // GMP raises SIGFPE for division by zero / even root of a negative
    }
    return clean(GRES);
}

static int transcript_main(long long from, long long to, bool list_only)
{
    struct rlimit rl;
    rl.rlim_cur = rl.rlim_max = (rlim_t)3 << 30;
    setrlimit(RLIMIT_AS, &rl);
    struct sigaction sa;
    memset(&sa, 0, sizeof sa);
    sa.sa_handler = on_fpe;
    sa.sa_flags = SA_NODEFER;
    sigaction(SIGFPE, &sa, nullptr);
    if (to < 0 || to > NCALLS)
        to = NCALLS;
    for (long long i = std::max(0LL, from); i < to; i++) {
        const Group *g;
        long long k;
        locate(i, g, k);
        Out d;
        g->f(k, DESC, d);
        if (list_only) {
            printf("%lld\t%s\t[%s]%s\n", i, clean(d.desc).c_str(), d.kinds.c_str(), d.skip.empty() ? "" : (" SKIP:" + d.skip).c_str());
            continue;
        }
        std::string r = guarded(*g, k);
        printf("%lld\t%s\t%s\n", i, clean(d.desc).c_str(), r.c_str());
        fflush(stdout);
    }
    return 0;
}

// ------------------------------------------------------------------ running a sibling (comparison side)
static std::vector<std::string> EXES, EXENAME;
static std::string TIER = "quick";
static double STALL_S = 40;

static std::string signame(int s)
{
    return std::string("CRASH:") + strsignal(s);
}
// runs exe over [a,b); fills res[i-a]; resumes after a crash/hang of a single call
static void run_range(const std::string &exe, long long a, long long b, std::vector<std::string> &res, std::vector<std::string> &descs,
                      bool confirm)
{
    res.assign(b - a, "");
    descs.assign(b - a, "");
    long long cur = a;
    int spawns = 0;
    while (cur < b) {
        if (++spawns > 300) {
            for (long long i = cur; i < b; i++)
                res[i - a] = "MACHINERY:too-many-respawns";
            return;
        }
        int fd[2];
        if (pipe(fd) != 0) {
            res[cur - a] = "MACHINERY:pipe";
            return;
        }
        pid_t p = fork();
        if (p == 0) {
            dup2(fd[1], 1);
            close(fd[0]);
            close(fd[1]);
            int dn = open("/dev/null", O_WRONLY);
            if (dn >= 0)
                dup2(dn, 2);
            std::string fa = std::to_string(cur), fb = std::to_string(b);
            execl(exe.c_str(), exe.c_str(), "--transcript", "--tier", TIER.c_str(), "--from", fa.c_str(), "--to", fb.c_str(), (char *)nullptr);
            _exit(127);
        }
        close(fd[1]);
        std::string buf;
        double last = now();
        bool hung = false;
        while (true) {
            struct pollfd pf = {fd[0], POLLIN, 0};
            int pr = poll(&pf, 1, 500);
            if (pr > 0) {
                char tmp[65536];
                ssize_t n = read(fd[0], tmp, sizeof tmp);
                if (n <= 0)
                    break;
                buf.append(tmp, n);
                last = now();
                size_t pos;
                while ((pos = buf.find('\n')) != std::string::npos) {
                    std::string line = buf.substr(0, pos);
                    buf.erase(0, pos + 1);
                    size_t t1 = line.find('\t'), t2 = line.find('\t', t1 + 1);
                    if (t1 == std::string::npos || t2 == std::string::npos || atoll(line.c_str()) != cur || cur >= b)
                        continue; // stray output
                    descs[cur - a] = line.substr(t1 + 1, t2 - t1 - 1);
                    res[cur - a] = line.substr(t2 + 1);
                    cur++;
                }
            } else if (now() - last > STALL_S) {
                hung = true;
                break;
            }
        }
        close(fd[0]);
        int st = 0;
        if (hung) {
            kill(p, SIGKILL);
            waitpid(p, &st, 0);
            if (cur < b)
                res[cur - a] = "HANG(>" + std::to_string((int)STALL_S) + "s)", cur++;
            continue;
        }
        waitpid(p, &st, 0);
        if (cur < b) {
            std::string why = WIFSIGNALED(st) ? signame(WTERMSIG(st)) : "EXIT:" + std::to_string(WEXITSTATUS(st));
            if (WIFEXITED(st) && WEXITSTATUS(st) == 0)
                why = "MACHINERY:missing-line";
            if (confirm && why.rfind("CRASH", 0) == 0) { // re-run the single call in a fresh process
                std::vector<std::string> r1, d1;
                run_range(exe, cur, cur + 1, r1, d1, false);
                if (r1[0].rfind("CRASH", 0) != 0)
                    why += "(state-dependent; alone: " + r1[0] + ")";
            }
            res[cur - a] = why;
            cur++;
        }
    }
}

static std::string rclass(const std::string &r) // coarse class of a result for signatures
{
    if (r.rfind("EXC:SymEngine", 0) == 0)
        return "exc:SymEngine";
    if (r.rfind("EXC:", 0) == 0)
        return "exc:std";
    if (r.rfind("SIGNAL:", 0) == 0)
        return "SIGFPE";
    if (r.rfind("CRASH", 0) == 0)
        return "crash";
    if (r.rfind("HANG", 0) == 0)
        return "hang";
    if (r.rfind("EXIT", 0) == 0 || r.rfind("MACHINERY", 0) == 0)
        return "machinery";
    return "val";
}
static std::string oclass(const std::string &r) // outcome class (vacuity guard): digit runs collapsed
{
    std::string o;
    for (size_t i = 0; i < r.size() && o.size() < 60;) {
        if (isdigit((unsigned char)r[i])) {
            size_t j = i;
            while (j < r.size() && isdigit((unsigned char)r[j]))
                j++;
            size_t len = j - i;
            if (len == 1 && (r[i] == '0' || r[i] == '1'))
                o += r[i];
            else
                o += len <= 9 ? "S" : len <= 19 ? "W" : "M";
            i = j;
        } else
            o += r[i++];
    }
    return o;
}

static long long CHUNK = 256;

int main(int argc, char **argv)
{
    bool transcript = false, list_only = false;
    long long from = 0, to = -1;
    for (int i = 1; i < argc; i++) {
        std::string a = argv[i];
        if (a == "--transcript")
            transcript = true;
        else if (a == "--list")
            transcript = list_only = true;
        else if (a == "--from" && i + 1 < argc)
            from = atoll(argv[++i]);
        else if (a == "--to" && i + 1 < argc)
            to = atoll(argv[++i]);
        else if (a == "--tier" && i + 1 < argc)
            TIER = argv[++i];
    }
    if (transcript) {
        build_groups(TIER == "thorough");
        return transcript_main(from, to, list_only);
    }
    init(argc, argv, "C43");
    TIER = opts().tier;
    bool thorough = opts().thorough();
    build_groups(thorough);
    if (thorough)
        STALL_S = 90;
    const char *ex = getenv("VERIF_EXES");
    if (!ex || !*ex) {
        fprintf(stderr, "C43: VERIF_EXES not set (run through bin/vcheck)\n");
        return 2;
    }
    {
        std::stringstream ss(ex);
        std::string e;
        while (std::getline(ss, e, ':'))
            if (!e.empty()) {
                EXES.push_back(e);
                // .../build[/tag]/<cfg>/drv/C43
                size_t p = e.rfind("/drv/");
                size_t q = p == std::string::npos ? std::string::npos : e.rfind('/', p - 1);
                EXENAME.push_back(p == std::string::npos ? e : e.substr(q + 1, p - q - 1));
            }
    }
    if (EXES.size() < 2) {
        fprintf(stderr, "C43: needs at least two backends in VERIF_EXES\n");
        return 2;
    }
    const size_t NB = EXES.size();
    CHUNK = std::max(64LL, std::min(1024LL, NCALLS / 200)); // >= 64 chunks so that all workers are used; deterministic per tier
    const long long nchunks = (NCALLS + CHUNK - 1) / CHUNK;

    CaseSet cs;
    cs.name = "chunk";
    cs.n = nchunks;
    cs.hang_s = 3600; // stalls are detected per call inside run_range
    cs.counter_names = {"calls", "calls_compared_across_backends", "calls_with_direct_gmp_reference", "reference_agreed",
                        "skipped_raw_precondition", "exceptional_outcomes_agreeing", "backend_disagreements", "reference_mismatches",
                        "crash_or_hang_calls"};
    cs.desc = [&](long long i) {
        long long a = i * CHUNK, b = std::min(NCALLS, a + CHUNK);
        const Group *g;
        long long k;
        locate(a, g, k);
        return "calls [" + std::to_string(a) + "," + std::to_string(b) + ") starting in group " + g->fn;
    };
    cs.crash_sig = [&](long long, const std::string &oc) { return "driver-chunk:" + oc; };
    cs.body = [&](long long ci, Ctx &c) {
        long long a = ci * CHUNK, b = std::min(NCALLS, a + CHUNK);
        std::vector<std::vector<std::string>> res(NB), descs(NB);
        for (size_t e = 0; e < NB; e++)
            run_range(EXES[e], a, b, res[e], descs[e], true);
        for (long long i = a; i < b; i++) {
            const Group *g;
            long long k;
            locate(i, g, k);
            Out d;
            g->f(k, DESC, d);
            c.count(0);
            std::string mydesc = clean(d.desc);
            bool listmismatch = false;
            for (size_t e = 0; e < NB; e++)
                if (!descs[e][i - a].empty() && descs[e][i - a] != mydesc)
                    listmismatch = true;
            if (listmismatch) {
                c.violation("machinery:case-list-differs-between-builds", "call " + std::to_string(i) + " is '" + mydesc + "' here but '"
                                                                              + descs[1][i - a] + "' in " + EXENAME[1]);
                continue;
            }
            if (!d.skip.empty()) {
                c.count(4);
                c.outcome(g->fn + ":SKIP:" + d.skip);
                bool ok = true;
                for (size_t e = 0; e < NB; e++)
                    if (res[e][i - a] != "SKIP:" + d.skip)
                        ok = false;
                if (!ok)
                    c.violation("machinery:skip-differs", mydesc);
                continue;
            }
            c.eval(NB);
            c.count(1);
            const std::string &r0 = res[0][i - a];
            bool same = true, anybad = false;
            for (size_t e = 0; e < NB; e++) {
                if (res[e][i - a] != r0)
                    same = false;
                std::string rc = rclass(res[e][i - a]);
                if (rc == "crash" || rc == "hang" || rc == "machinery")
                    anybad = true;
            }
            bool exceptional = rclass(r0) != "val";
            if (d.nontriv || exceptional || !same)
                c.nontrivial();
            c.outcome(g->fn + ":" + oclass(r0));
            std::string all;
            for (size_t e = 0; e < NB; e++)
                all += (e ? "; " : "") + EXENAME[e] + " -> " + res[e][i - a].substr(0, 300);
            if (!same || anybad) {
                if (anybad)
                    c.count(8);
                c.count(6);
                std::string sig = g->fn + "(" + d.kinds + "):";
                bool classes_same = true;
                for (size_t e = 0; e < NB; e++)
                    if (rclass(res[e][i - a]) != rclass(r0))
                        classes_same = false;
                if (classes_same && !anybad) {
                    sig += "values-differ[";
                    bool first = true;
                    for (size_t e = 1; e < NB; e++)
                        if (res[e][i - a] != r0) {
                            sig += (first ? "" : ",") + EXENAME[e];
                            first = false;
                        }
                    sig += "]";
                } else
                    for (size_t e = 0; e < NB; e++)
                        sig += (e ? "," : "") + EXENAME[e] + "=" + rclass(res[e][i - a]);
                std::string refs;
                if (g->has_ref) {
                    Out r;
                    g->f(k, REF, r);
                    if (!r.ref.empty())
                        refs = "; direct GMP reference -> " + r.ref.substr(0, 300);
                }
                c.violation(sig, "call #" + std::to_string(i) + " " + mydesc + ": " + all + refs);
                continue;
            }
            if (exceptional)
                c.count(5);
            if (g->has_ref && !exceptional) {
                Out r;
                g->f(k, REF, r);
                if (!r.ref.empty()) {
                    c.count(2);
                    if (clean(r.ref) == r0)
                        c.count(3);
                    else {
                        c.count(7);
                        c.violation(g->fn + "(" + d.kinds + "):all-backends-differ-from-direct-GMP",
                                    "call #" + std::to_string(i) + " " + mydesc + ": " + all + "; direct GMP reference -> " + r.ref.substr(0, 300));
                    }
                }
            }
            if (i % 4099 == 0)
                c.sample("{\"call\":" + jstr(mydesc) + ",\"result\":" + jstr(r0.substr(0, 80)) + ",\"backends\":" + std::to_string(NB) + "}");
        }
    };
    run_cases(cs);
    Run &R = run();
    R.states = NCALLS;
    R.transitions = R.evaluations;
    R.counters["groups"] = GS.size();
    R.counters["backends"] = NB;
    std::string bl;
    for (auto &n : EXENAME)
        bl += (bl.empty() ? "" : ",") + n;
    R.bound_completed = std::to_string(NCALLS) + " calls in " + std::to_string(GS.size()) + " function groups (full cartesian products of the "
                        + TIER + " alphabets) x backends {" + bl + "}";
    R.rule = "every function group is driven over the full cartesian product of its explicit operand alphabet (0, +-1, small, 2^31/2^32/2^63/2^64 "
             "boundaries, multi-limb, perfect powers, primes); each call is executed in every backend build (one transcript line per call, "
             "no state shared between calls) and the lines must be byte-identical; where a direct GMP computation exists the common result "
             "must also equal it. evaluations = executed calls x backends; distinct_nontrivial = calls with a multi-limb operand, an "
             "exceptional outcome or a disagreement";
    R.assumptions = {"GMP (mpz_*/mpq_* called directly on operands parsed from decimal strings) is the reference for the raw wrappers",
                     "decimal printing (operator<<) and construction from a decimal string of each backend are used to transport values",
                     "raw mp_* calls outside GMP's documented domain (zero divisor/modulus, 0th root, even root or sqrt of a negative, "
                     "jacobi with even or non-positive n, legendre with n not an odd prime) are skipped and counted; the public API is "
                     "driven on those inputs",
                     "randomised functions (factor_pollard_*, Tonelli-Shanks for p>=10000) are not comparable and not driven",
                     "FLINT and Piranha backends cannot be built in this sandbox and are not covered"};
    return R.finish();
}

// ------------------------------------------------------------------ the workload
static AV A, Bt, Rt, NR, U, PR, KS, SH, PW, EXPI;
static std::vector<QV> QA;
static std::vector<NV> NA, EA;

static std::string nz2(CI, CI b)
{
    return b.z == 0 ? "!raw-zero-divisor" : "";
}
static std::string fq(void (*f)(mpz_ptr, mpz_srcptr, mpz_srcptr), CI a, CI b)
{
    mpz_class r;
    f(r.get_mpz_t(), a.z.get_mpz_t(), b.z.get_mpz_t());
    return zs(r);
}
static std::string fqr(void (*f)(mpz_ptr, mpz_ptr, mpz_srcptr, mpz_srcptr), CI a, CI b)
{
    mpz_class q, r;
    f(q.get_mpz_t(), r.get_mpz_t(), a.z.get_mpz_t(), b.z.get_mpz_t());
    return "q=" + zs(q) + " r=" + zs(r);
}
static bool toobig(CI a, unsigned long n)
{
    return mpz_sizeinbase(a.z.get_mpz_t(), 2) * (n ? n : 1) > 60000;
}
static bool is_odd_prime(const mpz_class &n)
{
    return n > 2 && mpz_probab_prime_p(n.get_mpz_t(), 40) != 0;
}
static std::string dhex(double d)
{
    return hexd(d);
}

static void build_alphabets(bool T)
{
    const mpz_class p31 = zpow(2, 31), p32 = zpow(2, 32), p63 = zpow(2, 63), p64 = zpow(2, 64), t20 = zpow(10, 20), t40 = zpow(10, 40);
    const mpz_class m127 = zpow(2, 127) - 1, big = t20 + 39, w1 = p32 + 1, w2 = p64 + 1;
    A = lst({"0", "1", "-1", "2", "-2", "3", "-3", "4", "5", "7", "-7", "8", "-8", "9", "12", "27", "-27", "64", "97", "100"});
    for (const mpz_class &z : {mpz_class(p31 - 1), p31, mpz_class(-p31), mpz_class(p32 - 1), p32, mpz_class(p32 + 1), mpz_class(p63 - 1), p63,
                               mpz_class(-p63), mpz_class(-p63 - 1), mpz_class(p64 - 1), p64, mpz_class(p64 + 1), mpz_class(-p64), t20,
                               mpz_class(-t20), t40, mpz_class(-t40), m127, zpow(2, 128), big})
        addu(A, z);
    if (T) {
        for (const char *s : {"6", "-4", "10", "15", "16", "25", "81", "121", "125", "128", "243", "1000", "1024", "65535", "65536", "65537", "-65537"})
            addu(A, Z(s));
        for (const mpz_class &z :
             {mpz_class(p31 + 1), mpz_class(-p31 - 1), mpz_class(-p32), mpz_class(-p32 - 1), zpow(2, 62), mpz_class(p64 - 59), mpz_class(-p64 - 1),
              mpz_class(zpow(2, 89) - 1), mpz_class(-m127), zpow(3, 100), zpow(7, 50), mpz_class(-zpow(7, 51)), mpz_class(t40 + 1), zpow(2, 192),
              mpz_class(zpow(2, 256) - 1), mpz_class(-zpow(2, 256)), zpow(10, 100), mpz_class(w2 * w2), mpz_class(w2 * w2 * w2),
              mpz_class(-w2 * w2 * w2), mpz_class(big * big), mpz_class(-big * big * big), mpz_class(p64 * p64 - 1), mpz_class(t20 + 1)})
            addu(A, z);
    }
    Bt = lst({"0", "1", "-1", "2", "-2", "3", "5", "-7", "12", "97", "4294967297", "18446744073709551617", "-100000000000000000000"});
    addu(Bt, t40);
    addu(Bt, m127);
    if (T) {
        for (const char *s : {"4", "-3", "8", "9", "64", "2147483647", "-4294967296"})
            addu(Bt, Z(s));
        addu(Bt, p64);
        addu(Bt, -w2);
        addu(Bt, big);
    }
    // roots / perfect powers / primality
    Rt = A;
    for (const mpz_class &b : {mpz_class(3), mpz_class(10), w1, big})
        for (unsigned e : {2u, 3u, 5u, 7u}) {
            mpz_class p = zpow(b, e);
            addu(Rt, p);
            addu(Rt, p + 1);
            addu(Rt, p - 1);
            if (e % 2)
                addu(Rt, -p);
            else if (T)
                addu(Rt, -p);
        }
    for (const mpz_class &z : {zpow(3, 64), mpz_class(zpow(3, 64) - 1), zpow(2, 200), zpow(10, 50), mpz_class(-zpow(2, 63 * 3)), zpow(6, 30),
                               mpz_class(p64 - 59), mpz_class(zpow(2, 61) - 1), mpz_class(zpow(2, 89) - 1), mpz_class(w1 * (p32 + 15)),
                               mpz_class(m127 * big), Z("561"), Z("1105"), Z("1729"), Z("2047"), Z("3215031751"), Z("341550071728321"),
                               Z("3825123056546413051"), Z("318665857834031151167461"), Z("25"), Z("49"), Z("121"), Z("1000"), Z("-1000"),
                               Z("1024"), Z("-1024"), Z("32"), Z("-32"), Z("36"), Z("-36"), Z("11"), Z("13"), Z("15"), Z("16"), Z("-16")})
        addu(Rt, z);
    if (T)
        for (const mpz_class &z : {zpow(2, 521), mpz_class(zpow(2, 521) - 1), zpow(10, 200), mpz_class(zpow(10, 200) + 1), zpow(5, 301),
                                   mpz_class(-zpow(5, 301)), zpow(12, 97), mpz_class(zpow(12, 97) + 12)})
            addu(Rt, z);
    NR = lst({"0", "1", "2", "3", "4", "5", "7", "64", "100"});
    if (T)
        for (const char *s : {"6", "10", "13", "63", "65", "127", "1000"})
            addu(NR, Z(s));
    U = rng(0, T ? 130 : 50);
    for (const char *s : {"63", "64", "90", "91", "92", "93", "94", "100", "128", "200", "500", "1000"})
        addu(U, Z(s));
    PR = lst({"3", "5", "7", "11", "97", "65537", "2147483647", "2305843009213693951", "18446744073709551557"});
    addu(PR, zpow(2, 89) - 1);
    addu(PR, m127);
    KS = lst({"0", "1", "2", "3", "5", "20"});
    SH = lst({"0", "1", "31", "32", "63", "64", "65", "200"});
    PW = lst({"0", "1", "2", "3", "5", "10", "64"});
    EXPI = lst({"0", "1", "2", "3", "-1", "-2", "-3", "64", "-64", "18446744073709551616", "-18446744073709551616"});
    // rationals (den > 0)
    std::vector<std::pair<std::string, std::string>> qs
        = {{"1", "2"},  {"-1", "2"}, {"2", "4"}, {"3", "1"}, {"0", "5"}, {"-7", "3"}, {"6", "4"}, {"22", "7"}, {"-1", "3"}, {"2", "3"},
           {zs(t20), "3"}, {zs(w2), zs(p64 - 1)}, {zs(-t40), zs(big)}, {"1", zs(t40)}, {zs(p32), zs(p31)}, {zs(w2 * w2), zs(w2)}};
    if (T) {
        qs.push_back({"-5", "6"});
        qs.push_back({"1", "1"});
        qs.push_back({zs(-m127), zs(p64 * 3)});
        qs.push_back({zs(p63 - 1), zs(p63)});
        qs.push_back({"8", "27"});
        qs.push_back({"-8", "27"});
        qs.push_back({zs(big * big), zs(w1 * w1)});
        qs.push_back({"9", "4"});
    }
    for (auto &p : qs)
        QA.push_back(mkq(p.first, p.second));
    // Numbers: integers then rationals
    for (const char *s : {"0", "1", "-1", "2", "-2", "3", "4", "-8", "8", "9", "12", "27", "-27", "64", "100"}) {
        IV a = mk(s);
        NA.push_back(NV{a.s, a.kind, integer(a.v), mpq_class(a.z), a.multi});
    }
    for (const mpz_class &z : {mpz_class(p31), mpz_class(p64 - 1), p64, mpz_class(-p64 - 1), t20, mpz_class(-t40), mpz_class(w2 * w2),
                               mpz_class(big * big * big), mpz_class(-(w1 * w1 * w1))}) {
        IV a = mkz(z);
        NA.push_back(NV{a.s, a.kind, integer(a.v), mpq_class(a.z), a.multi});
    }
    for (auto &q : QA) {
        if (q.z.get_den() == 1)
            continue;
        NA.push_back(NV{q.s, q.kind, Rational::from_mpq(q.v), q.z, q.multi});
    }
    for (auto &p : std::vector<std::pair<std::string, std::string>>{{"4", "9"}, {"-8", "27"}, {"8", "27"}, {"1", "4"}, {"9", "4"}, {"1", "8"}}) {
        QV q = mkq(p.first, p.second);
        NA.push_back(NV{q.s, q.kind, Rational::from_mpq(q.v), q.z, q.multi});
    }
    // exponents for symbolic pow
    for (auto &p : std::vector<std::pair<std::string, std::string>>{{"0", "1"},  {"1", "1"},  {"-1", "1"}, {"2", "1"},  {"-2", "1"}, {"3", "1"},
                                                                    {"5", "1"},  {"-5", "1"}, {"1", "2"},  {"-1", "2"}, {"1", "3"},  {"2", "3"},
                                                                    {"-2", "3"}, {"3", "2"},  {"-3", "2"}, {"1", "5"},  {"5", "7"},  {"1", "6"},
                                                                    {"1", "64"}, {"7", "2"},  {"1", "100"}}) {
        QV q = mkq(p.first, p.second);
        EA.push_back(NV{q.z.get_den() == 1 ? p.first : q.s, q.kind, Rational::from_mpq(q.v), q.z, false});
    }
}

static void groups_raw_arith()
{
    add_bin("mp:a+b", A, A, nullptr, [](CI a, CI b) { return S(integer_class(a.v + b.v)); }, [](CI a, CI b) { return zs(a.z + b.z); });
    add_bin("mp:a-b", A, A, nullptr, [](CI a, CI b) { return S(integer_class(a.v - b.v)); }, [](CI a, CI b) { return zs(a.z - b.z); });
    add_bin("mp:a*b", A, A, nullptr, [](CI a, CI b) { return S(integer_class(a.v * b.v)); }, [](CI a, CI b) { return zs(a.z * b.z); });
    add_bin("mp:a/b", A, A, nz2, [](CI a, CI b) { return S(integer_class(a.v / b.v)); }, [](CI a, CI b) { return fq(mpz_tdiv_q, a, b); });
    add_bin("mp:a%b", A, A, nz2, [](CI a, CI b) { return S(integer_class(a.v % b.v)); }, [](CI a, CI b) { return fq(mpz_tdiv_r, a, b); });
    add_bin(
        "mp:inplace(+=,-=,*=)", A, A, nullptr,
        [](CI a, CI b) {
            integer_class x = a.v, y = a.v, w = a.v;
            x += b.v;
            y -= b.v;
            w *= b.v;
            return S(x) + " " + S(y) + " " + S(w);
        },
        [](CI a, CI b) { return zs(a.z + b.z) + " " + zs(a.z - b.z) + " " + zs(a.z * b.z); });
    add_bin(
        "mp:inplace(/=,%=)", A, A, nz2,
        [](CI a, CI b) {
            integer_class x = a.v, y = a.v;
            x /= b.v;
            y %= b.v;
            return S(x) + " " + S(y);
        },
        [](CI a, CI b) { return fq(mpz_tdiv_q, a, b) + " " + fq(mpz_tdiv_r, a, b); });
    add_bin(
        "mp:compare(<,<=,>,>=,==,!=)", A, A, nullptr,
        [](CI a, CI b) { return B(a.v < b.v) + B(a.v <= b.v) + B(a.v > b.v) + B(a.v >= b.v) + B(a.v == b.v) + B(a.v != b.v); },
        [](CI a, CI b) { return B(a.z < b.z) + B(a.z <= b.z) + B(a.z > b.z) + B(a.z >= b.z) + B(a.z == b.z) + B(a.z != b.z); });
    add_bin("mp_cmpabs", A, A, nullptr,
            [](CI a, CI b) {
                int c = mp_cmpabs(a.v, b.v);
                return std::to_string((c > 0) - (c < 0));
            },
            [](CI a, CI b) {
                int c = mpz_cmpabs(a.z.get_mpz_t(), b.z.get_mpz_t());
                return std::to_string((c > 0) - (c < 0));
            });
    add_bin("mp_fdiv_q", A, A, nz2,
            [](CI a, CI b) {
                integer_class q;
                mp_fdiv_q(q, a.v, b.v);
                return S(q);
            },
            [](CI a, CI b) { return fq(mpz_fdiv_q, a, b); });
    add_bin("mp_fdiv_r", A, A, nz2,
            [](CI a, CI b) {
                integer_class q;
                mp_fdiv_r(q, a.v, b.v);
                return S(q);
            },
            [](CI a, CI b) { return fq(mpz_fdiv_r, a, b); });
    add_bin("mp_fdiv_r(alias r=a)", A, A, nz2,
            [](CI a, CI b) {
                integer_class r = a.v;
                mp_fdiv_r(r, r, b.v);
                return S(r);
            },
            [](CI a, CI b) { return fq(mpz_fdiv_r, a, b); });
    add_bin("mp_fdiv_qr", A, A, nz2,
            [](CI a, CI b) {
                integer_class q, r;
                mp_fdiv_qr(q, r, a.v, b.v);
                return "q=" + S(q) + " r=" + S(r);
            },
            [](CI a, CI b) { return fqr(mpz_fdiv_qr, a, b); });
    add_bin("mp_fdiv_qr(alias q=a,r=b)", A, A, nz2,
            [](CI a, CI b) {
                integer_class q = a.v, r = b.v;
                mp_fdiv_qr(q, r, q, r);
                return "q=" + S(q) + " r=" + S(r);
            },
            [](CI a, CI b) { return fqr(mpz_fdiv_qr, a, b); });
    add_bin("mp_cdiv_q", A, A, nz2,
            [](CI a, CI b) {
                integer_class q;
                mp_cdiv_q(q, a.v, b.v);
                return S(q);
            },
            [](CI a, CI b) { return fq(mpz_cdiv_q, a, b); });
    add_bin("mp_tdiv_q", A, A, nz2,
            [](CI a, CI b) {
                integer_class q;
                mp_tdiv_q(q, a.v, b.v);
                return S(q);
            },
            [](CI a, CI b) { return fq(mpz_tdiv_q, a, b); });
    add_bin("mp_tdiv_qr", A, A, nz2,
            [](CI a, CI b) {
                integer_class q, r;
                mp_tdiv_qr(q, r, a.v, b.v);
                return "q=" + S(q) + " r=" + S(r);
            },
            [](CI a, CI b) { return fqr(mpz_tdiv_qr, a, b); });
    add_bin("mp_tdiv_qr(alias q=a,r=b)", A, A, nz2,
            [](CI a, CI b) {
                integer_class q = a.v, r = b.v;
                mp_tdiv_qr(q, r, q, r);
                return "q=" + S(q) + " r=" + S(r);
            },
            [](CI a, CI b) { return fqr(mpz_tdiv_qr, a, b); });
    add_bin("mp_divexact(a*b,b)", A, A, nz2,
            [](CI a, CI b) {
                integer_class n = a.v * b.v, q;
                mp_divexact(q, n, b.v);
                return S(q);
            },
            [](CI a, CI) { return zs(a.z); });
    add_bin("mp_divexact(alias q=n)", A, A, nz2,
            [](CI a, CI b) {
                integer_class n = a.v * b.v;
                mp_divexact(n, n, b.v);
                return S(n);
            },
            [](CI a, CI) { return zs(a.z); });
    add_bin("mp_gcd", A, A, nullptr,
            [](CI a, CI b) {
                integer_class g;
                mp_gcd(g, a.v, b.v);
                return S(g);
            },
            [](CI a, CI b) { return fq(mpz_gcd, a, b); });
    add_bin("mp_lcm", A, A, nullptr,
            [](CI a, CI b) {
                integer_class g;
                mp_lcm(g, a.v, b.v);
                return S(g);
            },
            [](CI a, CI b) { return fq(mpz_lcm, a, b); });
    add_bin("mp_lcm(alias r=a)", A, A, nullptr,
            [](CI a, CI b) {
                integer_class g = a.v;
                mp_lcm(g, g, b.v);
                return S(g);
            },
            [](CI a, CI b) { return fq(mpz_lcm, a, b); });
    add_bin("mp_gcdext", A, A, nullptr,
            [](CI a, CI b) {
                integer_class g, s, t;
                mp_gcdext(g, s, t, a.v, b.v);
                return "g=" + S(g) + " s=" + S(s) + " t=" + S(t);
            },
            [](CI a, CI b) {
                mpz_class g, s, t;
                mpz_gcdext(g.get_mpz_t(), s.get_mpz_t(), t.get_mpz_t(), a.z.get_mpz_t(), b.z.get_mpz_t());
                return "g=" + zs(g) + " s=" + zs(s) + " t=" + zs(t);
            });
    add_bin("mp_invert", A, A, [](CI, CI m) -> std::string { return m.z == 0 ? "!raw-zero-modulus" : ""; },
            [](CI a, CI m) {
                integer_class r;
                bool ok = mp_invert(r, a.v, m.v);
                return ok ? "1 inv=" + S(r) : std::string("0");
            },
            [](CI a, CI m) {
                mpz_class r;
                int ok = mpz_invert(r.get_mpz_t(), a.z.get_mpz_t(), m.z.get_mpz_t());
                return ok ? "1 inv=" + zs(r) : std::string("0");
            });
    add_bin("mp_invert(alias res=a)", A, A, [](CI, CI m) -> std::string { return m.z == 0 ? "!raw-zero-modulus" : ""; },
            [](CI a, CI m) {
                integer_class r = a.v;
                bool ok = mp_invert(r, r, m.v);
                return ok ? "1 inv=" + S(r) : std::string("0");
            },
            [](CI a, CI m) {
                mpz_class r;
                int ok = mpz_invert(r.get_mpz_t(), a.z.get_mpz_t(), m.z.get_mpz_t());
                return ok ? "1 inv=" + zs(r) : std::string("0");
            });
    add_bin("mp_and", A, A, [](CI a, CI b) -> std::string { return (a.z < 0 || b.z < 0) ? "neg" : ""; },
            [](CI a, CI b) {
                integer_class r;
                mp_and(r, a.v, b.v);
                return S(r);
            },
            [](CI a, CI b) { return fq(mpz_and, a, b); });
    add_bin("mp_divisible_p", A, A, nullptr, [](CI a, CI b) { return B(mp_divisible_p(a.v, b.v)); },
            [](CI a, CI b) { return B(mpz_divisible_p(a.z.get_mpz_t(), b.z.get_mpz_t()) != 0); });
    add_tri("mp_addmul", Bt, Bt, Bt, nullptr,
            [](CI a, CI b, CI c) {
                integer_class r = a.v;
                mp_addmul(r, b.v, c.v);
                return S(r);
            },
            [](CI a, CI b, CI c) { return zs(a.z + b.z * c.z); });
}
static std::string powm_pre(CI a, CI e, CI m)
{
    if (m.z == 0)
        return "!raw-zero-modulus";
    std::string t;
    if (e.z < 0) {
        mpz_class r;
        t = mpz_invert(r.get_mpz_t(), a.z.get_mpz_t(), m.z.get_mpz_t()) ? "negexp-invertible" : "negexp-noinverse";
    }
    if (m.z < 0)
        t += (t.empty() ? "" : "+") + std::string("negmod");
    return t;
}
static std::string powm_ref(CI a, CI e, CI m)
{
    if (e.z < 0) {
        mpz_class r;
        if (!mpz_invert(r.get_mpz_t(), a.z.get_mpz_t(), m.z.get_mpz_t()))
            return ""; // GMP raises division by zero: no reference value
    }
    mpz_class r;
    mpz_powm(r.get_mpz_t(), a.z.get_mpz_t(), e.z.get_mpz_t(), m.z.get_mpz_t());
    return zs(r);
}
static std::string root_pre(CI a, CI n)
{
    if (n.z == 0)
        return "!raw-0th-root";
    if (a.z < 0 && n.sl % 2 == 0)
        return "!raw-even-root-of-negative";
    return "";
}
static void groups_raw_pow()
{
    add_tri("mp_powm", Bt, Bt, Bt, powm_pre,
            [](CI a, CI e, CI m) {
                integer_class r;
                mp_powm(r, a.v, e.v, m.v);
                return S(r);
            },
            powm_ref);
    add_tri("mp_powm(alias res=base)", Bt, Bt, Bt, powm_pre,
            [](CI a, CI e, CI m) {
                integer_class r = a.v;
                mp_powm(r, r, e.v, m.v);
                return S(r);
            },
            powm_ref);
    add_tri("mp_powm(alias res=exp)", Bt, Bt, Bt, powm_pre,
            [](CI a, CI e, CI m) {
                integer_class r = e.v;
                mp_powm(r, a.v, r, m.v);
                return S(r);
            },
            powm_ref);
    add_tri("mp_powm(alias res=mod)", Bt, Bt, Bt, powm_pre,
            [](CI a, CI e, CI m) {
                integer_class r = m.v;
                mp_powm(r, a.v, e.v, r);
                return S(r);
            },
            powm_ref);
    add_bin("mp_pow_ui", A, PW, [](CI a, CI n) -> std::string { return toobig(a, n.sl) ? "!result-too-large" : ""; },
            [](CI a, CI n) {
                integer_class r;
                mp_pow_ui(r, a.v, (unsigned long)n.sl);
                return S(r);
            },
            [](CI a, CI n) { return zs(zpow(a.z, n.sl)); });
    add_bin("mp_pow_ui(alias res=base)", A, PW, [](CI a, CI n) -> std::string { return toobig(a, n.sl) ? "!result-too-large" : ""; },
            [](CI a, CI n) {
                integer_class r = a.v;
                mp_pow_ui(r, r, (unsigned long)n.sl);
                return S(r);
            },
            [](CI a, CI n) { return zs(zpow(a.z, n.sl)); });
    add_bin("mp_root", Rt, NR, root_pre,
            [](CI a, CI n) {
                integer_class r;
                bool ex = mp_root(r, a.v, (unsigned long)n.sl);
                return B(ex) + " root=" + S(r);
            },
            [](CI a, CI n) {
                mpz_class r;
                int ex = mpz_root(r.get_mpz_t(), a.z.get_mpz_t(), n.sl);
                return B(ex != 0) + " root=" + zs(r);
            });
    add_bin("mp_rootrem", Rt, NR, root_pre,
            [](CI a, CI n) {
                integer_class r, m;
                mp_rootrem(r, m, a.v, (unsigned long)n.sl);
                return "root=" + S(r) + " rem=" + S(m);
            },
            [](CI a, CI n) {
                mpz_class r, m;
                mpz_rootrem(r.get_mpz_t(), m.get_mpz_t(), a.z.get_mpz_t(), n.sl);
                return "root=" + zs(r) + " rem=" + zs(m);
            });
    auto nonneg = [](CI a) -> std::string { return a.z < 0 ? "!raw-sqrt-of-negative" : ""; };
    add_un("mp_sqrt", Rt, nonneg, [](CI a) { return S(mp_sqrt(a.v)); },
           [](CI a) {
               mpz_class r;
               mpz_sqrt(r.get_mpz_t(), a.z.get_mpz_t());
               return zs(r);
           });
    add_un("mp_sqrtrem", Rt, nonneg,
           [](CI a) {
               integer_class r, m;
               mp_sqrtrem(r, m, a.v);
               return "root=" + S(r) + " rem=" + S(m);
           },
           [](CI a) {
               mpz_class r, m;
               mpz_sqrtrem(r.get_mpz_t(), m.get_mpz_t(), a.z.get_mpz_t());
               return "root=" + zs(r) + " rem=" + zs(m);
           });
    add_un("mp_perfect_power_p", Rt, nullptr, [](CI a) { return B(mp_perfect_power_p(a.v)); },
           [](CI a) { return B(mpz_perfect_power_p(a.z.get_mpz_t()) != 0); });
    add_un("mp_perfect_square_p", Rt, nullptr, [](CI a) { return B(mp_perfect_square_p(a.v)); },
           [](CI a) { return B(mpz_perfect_square_p(a.z.get_mpz_t()) != 0); });
    auto sgn_tag = [](CI a) -> std::string { return a.z < 0 ? "neg" : ""; };
    add_un("mp_probab_prime_p(is-prime)", Rt, sgn_tag, [](CI a) { return B(mp_probab_prime_p(a.v, 25) != 0); },
           [](CI a) { return B(mpz_probab_prime_p(a.z.get_mpz_t(), 25) != 0); });
    add_un("mp_probab_prime_p(return-code)", Rt, [](CI a) -> std::string {
        int r = mpz_probab_prime_p(a.z.get_mpz_t(), 25);
        return std::string(a.z < 0 ? "neg," : "") + (r == 2 ? "certainly-prime" : r == 1 ? "probably-prime" : "composite");
    },
           [](CI a) { return std::to_string(mp_probab_prime_p(a.v, 25)); }, nullptr);
    add_un("mp_nextprime", Rt, nullptr,
           [](CI a) {
               integer_class r;
               mp_nextprime(r, a.v);
               return S(r);
           },
           [](CI a) {
               mpz_class r;
               mpz_nextprime(r.get_mpz_t(), a.z.get_mpz_t());
               return zs(r);
           });
    add_bin("mp_legendre", A, PR, nullptr, [](CI a, CI p) { return std::to_string(mp_legendre(a.v, p.v)); },
            [](CI a, CI p) { return std::to_string(mpz_legendre(a.z.get_mpz_t(), p.z.get_mpz_t())); });
    add_bin("mp_jacobi", A, A, [](CI, CI n) -> std::string { return (n.z <= 0 || mpz_even_p(n.z.get_mpz_t())) ? "!raw-jacobi-n-not-odd-positive" : ""; },
            [](CI a, CI n) { return std::to_string(mp_jacobi(a.v, n.v)); },
            [](CI a, CI n) { return std::to_string(mpz_jacobi(a.z.get_mpz_t(), n.z.get_mpz_t())); });
    add_bin("mp_kronecker", A, A, [](CI, CI n) -> std::string { return n.z == 0 ? "n=0" : ""; },
            [](CI a, CI n) { return std::to_string(mp_kronecker(a.v, n.v)); },
            [](CI a, CI n) { return std::to_string(mpz_kronecker(a.z.get_mpz_t(), n.z.get_mpz_t())); });
    add_un("mp_fib_ui", U, nullptr,
           [](CI n) {
               integer_class r;
               mp_fib_ui(r, n.sl);
               return S(r);
           },
           [](CI n) {
               mpz_class r;
               mpz_fib_ui(r.get_mpz_t(), n.sl);
               return zs(r);
           });
    add_un("mp_fib2_ui", U, nullptr,
           [](CI n) {
               integer_class r, q;
               mp_fib2_ui(r, q, n.sl);
               return S(r) + " " + S(q);
           },
           [](CI n) {
               mpz_class r, q;
               mpz_fib2_ui(r.get_mpz_t(), q.get_mpz_t(), n.sl);
               return zs(r) + " " + zs(q);
           });
    add_un("mp_lucnum_ui", U, nullptr,
           [](CI n) {
               integer_class r;
               mp_lucnum_ui(r, n.sl);
               return S(r);
           },
           [](CI n) {
               mpz_class r;
               mpz_lucnum_ui(r.get_mpz_t(), n.sl);
               return zs(r);
           });
    add_un("mp_lucnum2_ui", U, nullptr,
           [](CI n) {
               integer_class r, q;
               mp_lucnum2_ui(r, q, n.sl);
               return S(r) + " " + S(q);
           },
           [](CI n) {
               mpz_class r, q;
               mpz_lucnum2_ui(r.get_mpz_t(), q.get_mpz_t(), n.sl);
               return zs(r) + " " + zs(q);
           });
    add_un("mp_fac_ui", U, nullptr,
           [](CI n) {
               integer_class r;
               mp_fac_ui(r, n.sl);
               return S(r);
           },
           [](CI n) {
               mpz_class r;
               mpz_fac_ui(r.get_mpz_t(), n.sl);
               return zs(r);
           });
    add_un("mp_primorial", U, nullptr, [](CI n) { return S(mp_primorial(n.sl)); },
           [](CI n) {
               mpz_class r;
               mpz_primorial_ui(r.get_mpz_t(), n.sl);
               return zs(r);
           });
    add_bin("mp_bin_ui", A, KS, [](CI a, CI) -> std::string { return a.z < 0 ? "neg-n" : ""; },
            [](CI a, CI k) {
                integer_class r;
                mp_bin_ui(r, a.v, k.sl);
                return S(r);
            },
            [](CI a, CI k) {
                mpz_class r;
                mpz_bin_ui(r.get_mpz_t(), a.z.get_mpz_t(), k.sl);
                return zs(r);
            });
}
static void groups_raw_conv()
{
    auto sgn_tag = [](CI a) -> std::string { return a.z < 0 ? "neg" : ""; };
    add_un("mp_scan1", A, sgn_tag, [](CI a) { return std::to_string(mp_scan1(a.v)); },
           [](CI a) { return std::to_string(mpz_scan1(a.z.get_mpz_t(), 0)); });
    add_bin("mp:a<<k", A, SH, nullptr, [](CI a, CI k) { return S(integer_class(a.v << (unsigned long)k.sl)); },
            [](CI a, CI k) {
                mpz_class r;
                mpz_mul_2exp(r.get_mpz_t(), a.z.get_mpz_t(), k.sl);
                return zs(r);
            });
    // right shift of a negative: mp_wrapper.h truncates (mpz_tdiv_q_2exp), gmpxx floors; no reference for negatives
    add_bin("mp:a>>k", A, SH, [](CI a, CI) -> std::string { return a.z < 0 ? "neg" : ""; },
            [](CI a, CI k) { return S(integer_class(a.v >> (unsigned long)k.sl)); },
            [](CI a, CI k) {
                if (a.z < 0)
                    return std::string();
                mpz_class r;
                mpz_tdiv_q_2exp(r.get_mpz_t(), a.z.get_mpz_t(), k.sl);
                return zs(r);
            });
    add_un("mp_get_ui", A, [](CI a) -> std::string { return mpz_sizeinbase(a.z.get_mpz_t(), 2) > 64 ? "does-not-fit" : ""; },
           [](CI a) { return std::to_string(mp_get_ui(a.v)); }, [](CI a) { return std::to_string(mpz_get_ui(a.z.get_mpz_t())); });
    add_un("mp_get_si", A, [](CI a) -> std::string { return a.z.fits_slong_p() ? "" : "!raw-get_si-does-not-fit"; },
           [](CI a) { return std::to_string(mp_get_si(a.v)); }, [](CI a) { return std::to_string(mpz_get_si(a.z.get_mpz_t())); });
    add_un("mp_get_d", Rt, [](CI a) -> std::string {
        double d = mpz_get_d(a.z.get_mpz_t());
        mpz_class back;
        mpz_set_d(back.get_mpz_t(), d);
        return back == a.z ? "exact" : "inexact";
    },
           [](CI a) { return dhex(mp_get_d(a.v)); }, [](CI a) { return dhex(mpz_get_d(a.z.get_mpz_t())); });
    add_un("mp_fits(ulong,slong)", A, nullptr, [](CI a) { return B(mp_fits_ulong_p(a.v)) + B(mp_fits_slong_p(a.v)); },
           [](CI a) { return B(a.z.fits_ulong_p()) + B(a.z.fits_slong_p()); });
    add_un("mp_sign,mp_abs,neg,++,--", A, nullptr,
           [](CI a) {
               integer_class p = a.v, m = a.v;
               ++p;
               --m;
               integer_class p2 = a.v, m2 = a.v;
               integer_class o1 = p2++, o2 = m2--;
               return std::to_string(mp_sign(a.v)) + " " + S(mp_abs(a.v)) + " " + S(integer_class(-a.v)) + " " + S(p) + " " + S(m) + " " + S(o1)
                      + S(p2) + " " + S(o2) + S(m2);
           },
           [](CI a) {
               return std::to_string(sgn(a.z)) + " " + zs(abs(a.z)) + " " + zs(-a.z) + " " + zs(a.z + 1) + " " + zs(a.z - 1) + " " + zs(a.z)
                      + zs(a.z + 1) + " " + zs(a.z) + zs(a.z - 1);
           });
    add_un("mp:compare-with-C-integers", A, nullptr,
           [](CI a) {
               const integer_class &x = a.v;
               return B(x == 0u) + B(x == 1u) + B(x == -1) + B(x > 0u) + B(x < 0u) + B(x <= ULONG_MAX) + B(x >= LONG_MIN) + B(x <= LONG_MAX) + B(x < 5)
                      + B(x > -5) + B(x != 2) + B(x >= 2147483648u) + B(0 < x) + B(5u >= x);
           },
           [](CI a) {
               const mpz_class &x = a.z;
               return B(x == 0) + B(x == 1) + B(x == -1) + B(x > 0) + B(x < 0) + B(mpz_cmp_ui(x.get_mpz_t(), ULONG_MAX) <= 0)
                      + B(mpz_cmp_si(x.get_mpz_t(), LONG_MIN) >= 0) + B(mpz_cmp_si(x.get_mpz_t(), LONG_MAX) <= 0) + B(x < 5) + B(x > -5) + B(x != 2)
                      + B(mpz_cmp_ui(x.get_mpz_t(), 2147483648u) >= 0) + B(x > 0) + B(x <= 5);
           });
    add_un("mp:arithmetic-with-C-integers", A, nullptr,
           [](CI a) {
               integer_class x = a.v;
               std::string o;
               o += S(integer_class(x * 2)) + " " + S(integer_class(4 * x)) + " " + S(integer_class(x % 2)) + " " + S(integer_class(x % 4)) + " ";
               o += S(integer_class(x % 8)) + " " + S(integer_class(x / 2)) + " " + S(integer_class(x + 1)) + " " + S(integer_class(x - 1)) + " ";
               o += S(integer_class(x * -1)) + " " + S(integer_class(x % 7u)) + " " + S(integer_class(x / 7u)) + " " + S(integer_class(x + 5u)) + " ";
               o += S(integer_class(x - 5u)) + " " + S(integer_class(x * 3u)) + " " + S(integer_class(5u - x)) + " " + S(integer_class(1 + x));
               return o;
           },
           [](CI a) {
               const mpz_class &x = a.z;
               auto tq = [&](long d) {
                   mpz_class r, dd = d;
                   mpz_tdiv_q(r.get_mpz_t(), x.get_mpz_t(), dd.get_mpz_t());
                   return zs(r);
               };
               auto tr = [&](long d) {
                   mpz_class r, dd = d;
                   mpz_tdiv_r(r.get_mpz_t(), x.get_mpz_t(), dd.get_mpz_t());
                   return zs(r);
               };
               std::string o;
               o += zs(x * 2) + " " + zs(4 * x) + " " + tr(2) + " " + tr(4) + " ";
               o += tr(8) + " " + tq(2) + " " + zs(x + 1) + " " + zs(x - 1) + " ";
               o += zs(-x) + " " + tr(7) + " " + tq(7) + " " + zs(x + 5) + " ";
               o += zs(x - 5) + " " + zs(x * 3) + " " + zs(5 - x) + " " + zs(1 + x);
               return o;
           });
    add_un("mp_get_hex_str", A, sgn_tag, [](CI a) { return mp_get_hex_str(a.v); },
           [](CI a) { return a.z.get_str(16); });
    {
        auto items = std::make_shared<std::vector<Item>>();
        for (double d : {0.0, -0.0, 0.5, -0.5, 1.5, -1.5, 2.5, 1e15 + 0.5, 9007199254740992.0, 9223372036854775808.0, 18446744073709551616.0,
                         -9223372036854775808.0, 1e20, -1e20, 1e40, 1.7976931348623157e308, -4.9e-324})
            items->push_back(Item{hexd(d), std::fabs(d) >= 18446744073709551616.0 ? "multi-limb" : "small", std::fabs(d) >= 18446744073709551616.0,
                                  [d] {
                                      integer_class i;
                                      mp_set_d(i, d);
                                      return S(i);
                                  },
                                  [d] {
                                      mpz_class z;
                                      mpz_set_d(z.get_mpz_t(), d);
                                      return zs(z);
                                  }});
        add_items("mp_set_d", items);
    }
    {
        auto items = std::make_shared<std::vector<Item>>();
        for (const char *s : {"0", "7", "-7", "123456789012345678901234567890", "-123456789012345678901234567890", "-0"})
            items->push_back(Item{s, "decimal", strlen(s) > 20, [s] { return S(integer_class(std::string(s))); }, [s] { return zs(mpz_class(s, 10)); }});
        for (const char *s : {"007", "010", "0x1f", "-0x10", "00000000000000000000000000000123"})
            items->push_back(Item{s, "prefixed", false, [s] { return S(integer_class(std::string(s))); }, nullptr});
        add_items("integer_class(string)", items);
    }
}
static void groups_raw_rational()
{
    static std::vector<QV> *Q = &QA;
    auto addq2 = [&](const std::string &fn, std::function<std::string(CQ, CQ)> pre, std::function<std::string(CQ, CQ)> ex,
                     std::function<std::string(CQ, CQ)> rf) {
        Group g;
        g.fn = fn;
        g.n = (long long)QA.size() * QA.size();
        g.has_ref = (bool)rf;
        g.f = [=](long long k, int mode, Out &o) {
            CQ a = (*Q)[k / Q->size()], b = (*Q)[k % Q->size()];
            if (mode == DESC) {
                o.desc = fn + "(" + a.s + ", " + b.s + ")";
                o.kinds = a.kind + "," + b.kind;
                o.nontriv = a.multi || b.multi;
                tagskip(pre ? pre(a, b) : "", o);
            } else if (mode == EXEC)
                o.res = ex(a, b);
            else if (rf)
                o.ref = rf(a, b);
        };
        GS.push_back(g);
    };
    auto addq1 = [&](const std::string &fn, std::function<std::string(CQ)> ex, std::function<std::string(CQ)> rf) {
        Group g;
        g.fn = fn;
        g.n = QA.size();
        g.has_ref = (bool)rf;
        g.f = [=](long long k, int mode, Out &o) {
            CQ a = (*Q)[k];
            if (mode == DESC) {
                o.desc = fn + "(" + a.s + ")";
                o.kinds = a.kind;
                o.nontriv = a.multi;
            } else if (mode == EXEC)
                o.res = ex(a);
            else if (rf)
                o.ref = rf(a);
        };
        GS.push_back(g);
    };
    addq2("mq:a+b", nullptr, [](CQ a, CQ b) { return S(rational_class(a.v + b.v)); }, [](CQ a, CQ b) { return SQ(mpq_class(a.z + b.z)); });
    addq2("mq:a-b", nullptr, [](CQ a, CQ b) { return S(rational_class(a.v - b.v)); }, [](CQ a, CQ b) { return SQ(mpq_class(a.z - b.z)); });
    addq2("mq:a*b", nullptr, [](CQ a, CQ b) { return S(rational_class(a.v * b.v)); }, [](CQ a, CQ b) { return SQ(mpq_class(a.z * b.z)); });
    addq2("mq:a/b", [](CQ, CQ b) -> std::string { return b.z == 0 ? "!raw-zero-divisor" : ""; },
          [](CQ a, CQ b) { return S(rational_class(a.v / b.v)); }, [](CQ a, CQ b) { return SQ(mpq_class(a.z / b.z)); });
    addq2("mq:inplace(+=,-=,*=)", nullptr,
          [](CQ a, CQ b) {
              rational_class x = a.v, y = a.v, w = a.v;
              x += b.v;
              y -= b.v;
              w *= b.v;
              return S(x) + " " + S(y) + " " + S(w);
          },
          [](CQ a, CQ b) { return SQ(mpq_class(a.z + b.z)) + " " + SQ(mpq_class(a.z - b.z)) + " " + SQ(mpq_class(a.z * b.z)); });
    addq2("mq:compare(<,<=,>,>=,==,!=)", nullptr,
          [](CQ a, CQ b) { return B(a.v < b.v) + B(a.v <= b.v) + B(a.v > b.v) + B(a.v >= b.v) + B(a.v == b.v) + B(a.v != b.v); },
          [](CQ a, CQ b) { return B(a.z < b.z) + B(a.z <= b.z) + B(a.z > b.z) + B(a.z >= b.z) + B(a.z == b.z) + B(a.z != b.z); });
    addq1("mq:canonical,sign,abs,neg", [](CQ a) { return S(a.v) + " " + std::to_string(mp_sign(a.v)) + " " + S(mp_abs(a.v)) + " " + S(rational_class(-a.v)); },
          [](CQ a) { return SQ(a.z) + " " + std::to_string(sgn(a.z)) + " " + SQ(abs(a.z)) + " " + SQ(mpq_class(-a.z)); });
    addq1("mq:mp_get_d", [](CQ a) { return dhex(mp_get_d(a.v)); }, [](CQ a) { return dhex(a.z.get_d()); });
    for (unsigned n : {0u, 1u, 2u, 5u})
        addq1("mq:mp_pow_ui(n=" + std::to_string(n) + ")",
              [n](CQ a) {
                  rational_class r;
                  mp_pow_ui(r, a.v, n);
                  return S(r);
              },
              [n](CQ a) { return SQ(mpq_class(zpow(a.z.get_num(), n), zpow(a.z.get_den(), n))); });
}
// @@MORE@@

static void build_groups(bool T)
{
    build_alphabets(T);
    groups_raw_arith();
    groups_raw_pow();
    groups_raw_conv();
    groups_raw_rational();
    // @@CALLS@@
    OFF.clear();
    NCALLS = 0;
    for (auto &g : GS) {
        OFF.push_back(NCALLS);
        NCALLS += g.n;
    }
}
