// universe.h -- the wide expression universe shared by C01 (eq => hash) and C02 (ordering).
// Every kind of expression the public API can produce, plus an n<=1 closure over a core
// sub-alphabet; entries are NOT de-duplicated by the library's eq/hash (those are under test):
// each entry records its structural key and its recipe.
#ifndef VERIF_UNIVERSE_H
#define VERIF_UNIVERSE_H
#include "common.h"
#include "key.h"
#include <symengine/matrices/identity_matrix.h>
#include <symengine/matrices/zero_matrix.h>
#include <symengine/matrices/diagonal_matrix.h>
#include <symengine/matrices/matrix_add.h>
#include <symengine/matrices/matrix_mul.h>
#include <symengine/matrices/hadamard_product.h>
#include <symengine/matrices/transpose.h>
#include <symengine/matrices/conjugate_matrix.h>
#include <symengine/matrices/trace.h>
#include <symengine/cwrapper.h>

namespace verif
{
struct UEntry {
    RCP<const Basic> e;
    std::string recipe, key;
    bool core; // member of the core sub-alphabet used for the closure
};

struct Universe {
    std::vector<UEntry> U;
    uint64_t build_failures = 0;
    void put(const std::string &recipe, const std::function<RCP<const Basic>()> &f, bool core = false)
    {
        try {
            RCP<const Basic> e = f();
            if (e.is_null()) {
                build_failures++;
                return;
            }
            U.push_back(UEntry{e, recipe, key(*e), core});
        } catch (std::exception &x) {
            build_failures++;
        }
    }
};

inline RCP<const Number> dnan(uint64_t payload)
{
    uint64_t bits = 0x7ff8000000000000ULL | payload;
    double d;
    memcpy(&d, &bits, 8);
    return real_double(d);
}

inline Universe build_universe(bool thorough)
{
    Universe W;
    RCP<const Symbol> x = symbol("x"), y = symbol("y"), z = symbol("z");
    auto BI = [](const char *s) { return integer(integer_class(s)); };
    auto Q = [&](const char *n, const char *d) { return Rational::from_two_ints(*BI(n), *BI(d)); };
#define LEAF(name, expr, core) W.put(name, [&]() -> RCP<const Basic> { return expr; }, core)
    // ---- numbers of every kind
    LEAF("0", integer(0), true);
    LEAF("1", integer(1), true);
    LEAF("-1", integer(-1), true);
    LEAF("2", integer(2), true);
    LEAF("3", integer(3), false);
    LEAF("2^63", BI("9223372036854775808"), false);
    LEAF("2^64", BI("18446744073709551616"), false);
    LEAF("2^64+1", BI("18446744073709551617"), false);
    LEAF("-(2^64+1)", BI("-18446744073709551617"), false);
    LEAF("2^64+2^32", BI("18446744078004518912"), false);
    LEAF("10^40", BI("10000000000000000000000000000000000000000"), false);
    LEAF("2^128+5", BI("340282366920938463463374607431768211461"), false);
    LEAF("-(2^200)", BI("-1606938044258990275541962092341162602522202993782792835301376"), false);
    LEAF("5", integer(5), false);
    LEAF("1/2", Q("1", "2"), true);
    LEAF("-1/2", Q("-1", "2"), true);
    LEAF("2/3", Q("2", "3"), false);
    LEAF("(2^64+1)/3", Q("18446744073709551617", "3"), false);
    LEAF("1/(2^64+1)", Q("1", "18446744073709551617"), false);
    LEAF("I", I, true);
    LEAF("1+I", add(one, I), true);
    LEAF("1/2-I", sub(Q("1", "2"), I), false);
    LEAF("2I", mul(integer(2), I), false);
    LEAF("-I", neg(I), false);
    LEAF("0.0", real_double(0.0), true);
    LEAF("-0.0", real_double(-0.0), true);
    LEAF("1.0", real_double(1.0), true);
    LEAF("0.5", real_double(0.5), false);
    LEAF("-2.0", real_double(-2.0), false);
    LEAF("inf", real_double(INFINITY), false);
    LEAF("-inf", real_double(-INFINITY), false);
    LEAF("nan#0", dnan(0), false);
    LEAF("nan#1", dnan(1), false);
    LEAF("nan#0'", dnan(0), false);
    LEAF("5e-324", real_double(5e-324), false);
    LEAF("cd(0,1)", complex_double(std::complex<double>(0.0, 1.0)), false);
    LEAF("cd(-0,1)", complex_double(std::complex<double>(-0.0, 1.0)), false);
    LEAF("cd(1,0)", complex_double(std::complex<double>(1.0, 0.0)), false);
    LEAF("cd(1,-0)", complex_double(std::complex<double>(1.0, -0.0)), false);
    LEAF("cd(1,2)", complex_double(std::complex<double>(1.0, 2.0)), false);
    LEAF("cd(nan,0)", complex_double(std::complex<double>(NAN, 0.0)), false);
    LEAF("oo", Inf, true);
    LEAF("-oo", NegInf, false);
    LEAF("zoo", ComplexInf, false);
    LEAF("NaN", Nan, false);
    // ---- the same numbers through other public construction paths (low-level factories, C API, parser, loads)
    LEAF("from_mpq(2/4)", Rational::from_mpq(rational_class(integer_class(2), integer_class(4))), false);
    LEAF("from_mpq(-2/-4)", Rational::from_mpq(rational_class(integer_class(-2), integer_class(-4))), false);
    LEAF("from_mpq(4/2)", Rational::from_mpq(rational_class(integer_class(4), integer_class(2))), false);
    LEAF("from_two_ints(2,4)", Rational::from_two_ints(2, 4), false);
    LEAF("Complex::from_mpq(2/4,2/2)", Complex::from_mpq(rational_class(integer_class(2), integer_class(4)), rational_class(integer_class(2), integer_class(2))), false);
    LEAF("Complex::from_two_nums(1/2,1)", Complex::from_two_nums(*Rational::from_two_ints(1, 2), *integer(1)), false);
    LEAF("Complex::from_two_nums(1,0)", Complex::from_two_nums(*integer(1), *integer(0)), false);
    LEAF("number(1.0+0i)", number(std::complex<double>(1.0, 0.0)), false);
    LEAF("div(2,4)", div(integer(2), integer(4)), false);
    LEAF("parse(2/4)", parse("2/4"), false);
    LEAF("parse(1/2)", parse("1/2"), false);
    LEAF("parse(0.5)", parse("0.5"), false);
    LEAF("parse(1/2+I)", parse("1/2+I"), false);
    LEAF("loads(dumps(1/2))", Basic::loads(Rational::from_two_ints(1, 2)->dumps()), false);
    LEAF("loads(dumps(x+y))", Basic::loads(add(x, y)->dumps()), false);
    LEAF("loads(dumps(-0.0))", Basic::loads(real_double(-0.0)->dumps()), false);
    {
        struct CB {
            basic b;
            CB() { basic_new_stack(b); }
            ~CB() { basic_free_stack(b); }
        };
        // the C handles hold an RCP<const Basic>; read it back through basic_str-independent accessors
        auto via = [&](const std::string &name, const std::function<void(basic)> &f) {
            W.put(name, [&]() -> RCP<const Basic> {
                CB h;
                f(h.b);
                return RCP<const Basic>(static_cast<const Basic *>(h.b->data)); // the handle stores the RCP's raw pointer
            });
        };
        via("C:rational_set_si(2,4)", [](basic b) { rational_set_si(b, 2, 4); });
        via("C:rational_set_si(1,2)", [](basic b) { rational_set_si(b, 1, 2); });
        via("C:rational_set_si(-1,-2)", [](basic b) { rational_set_si(b, -1, -2); });
        via("C:rational_set_ui(4,2)", [](basic b) { rational_set_ui(b, 4, 2); });
        via("C:rational_set(2,4)", [](basic b) {
            CB n, d;
            integer_set_si(n.b, 2);
            integer_set_si(d.b, 4);
            rational_set(b, n.b, d.b);
        });
        via("C:integer_set_str(2^64+1)", [](basic b) { integer_set_str(b, "18446744073709551617"); });
        via("C:real_double_set_d(-0.0)", [](basic b) { real_double_set_d(b, -0.0); });
        via("C:complex_set(1/2,1)", [](basic b) {
            CB r, i;
            rational_set_si(r.b, 2, 4);
            integer_set_si(i.b, 1);
            complex_set(b, r.b, i.b);
        });
        via("C:basic_parse(2/4)", [](basic b) { basic_parse(b, "2/4"); });
        via("C:symbol_set(x)", [](basic b) { symbol_set(b, "x"); });
    }
    // ---- symbols, dummies, constants
    LEAF("x", x, true);
    LEAF("y", y, true);
    LEAF("z", z, false);
    LEAF("x'", symbol("x"), false); // distinct object, same name
    LEAF("symbol(pi)", symbol("pi"), false);
    LEAF("symbol(I)", symbol("I"), false);
    LEAF("symbol()", symbol(""), false);
    static RCP<const Basic> d1 = dummy("x"), d2 = dummy("x"), d3 = dummy();
    LEAF("dummy1(x)", d1, false);
    LEAF("dummy2(x)", d2, false);
    LEAF("dummy3()", d3, false);
    LEAF("pi", pi, true);
    LEAF("E", E, false);
    LEAF("EulerGamma", EulerGamma, false);
    LEAF("Catalan", Catalan, false);
    LEAF("GoldenRatio", GoldenRatio, false);
    // ---- powers / sums / products with non-trivial canonical forms
    LEAF("sqrt(2)", sqrt(integer(2)), true);
    LEAF("2^(1/3)", cbrt(integer(2)), false);
    LEAF("x^2", pow(x, integer(2)), false);
    LEAF("x^y", pow(x, y), false);
    LEAF("2^x", pow(integer(2), x), false);
    LEAF("exp(x)", exp(x), false);
    LEAF("x+y", add(x, y), true);
    LEAF("y+x", add(y, x), false);
    LEAF("2x", mul(integer(2), x), false);
    LEAF("x*y", mul(x, y), true);
    LEAF("x+1", add(x, one), false);
    LEAF("x+0.0", add(x, real_double(0.0)), false);
    LEAF("x+(-0.0)", add(x, real_double(-0.0)), false);
    LEAF("1.0*x", mul(real_double(1.0), x), false);
    LEAF("x/y", div(x, y), false);
    LEAF("(x+y)^2", pow(add(x, y), integer(2)), false);
    // ---- one instance of every function class
    typedef RCP<const Basic> (*F1)(const RCP<const Basic> &);
    std::vector<std::pair<std::string, F1>> f1 = {
        {"sin", sin},     {"cos", cos},     {"tan", tan},     {"cot", cot},     {"csc", csc},         {"sec", sec},
        {"asin", asin},   {"acos", acos},   {"asec", asec},   {"acsc", acsc},   {"atan", atan},       {"acot", acot},
        {"sinh", sinh},   {"csch", csch},   {"cosh", cosh},   {"sech", sech},   {"tanh", tanh},       {"coth", coth},
        {"asinh", asinh}, {"acsch", acsch}, {"acosh", acosh}, {"atanh", atanh}, {"acoth", acoth},     {"asech", asech},
        {"log", log},     {"lambertw", lambertw}, {"zeta", zeta}, {"dirichlet_eta", dirichlet_eta},   {"erf", erf},
        {"erfc", erfc},   {"gamma", gamma}, {"loggamma", loggamma}, {"digamma", digamma},             {"trigamma", trigamma},
        {"abs", abs},     {"sign", sign},   {"floor", floor}, {"ceiling", ceiling}, {"truncate", truncate},
        {"conjugate", conjugate}, {"unevaluated_expr", unevaluated_expr}, {"primepi", primepi}, {"primorial", primorial}};
    for (auto &f : f1) {
        F1 fn = f.second;
        W.put(f.first + "(x)", [&, fn]() { return fn(x); });
        W.put(f.first + "(y)", [&, fn]() { return fn(y); });
        if (thorough)
            W.put(f.first + "(x+y)", [&, fn]() { return fn(add(x, y)); });
    }
    LEAF("atan2(x,y)", atan2(x, y), false);
    LEAF("atan2(y,x)", atan2(y, x), false);
    LEAF("zeta(x,y)", zeta(x, y), false);
    LEAF("kronecker_delta(x,y)", kronecker_delta(x, y), false);
    LEAF("kronecker_delta(y,x)", kronecker_delta(y, x), false);
    LEAF("levi_civita(x,y,z)", levi_civita({x, y, z}), false);
    LEAF("levi_civita(y,x,z)", levi_civita({y, x, z}), false);
    LEAF("lowergamma(x,y)", lowergamma(x, y), false);
    LEAF("uppergamma(x,y)", uppergamma(x, y), false);
    LEAF("uppergamma(y,x)", uppergamma(y, x), false);
    LEAF("beta(x,y)", beta(x, y), false);
    LEAF("beta(y,x)", beta(y, x), false);
    LEAF("polygamma(x,y)", polygamma(x, y), false);
    LEAF("polygamma(2,x)", polygamma(integer(2), x), false);
    LEAF("max(x,y)", max({x, y}), false);
    LEAF("max(y,x)", max({y, x}), false);
    LEAF("min(x,y)", min({x, y}), false);
    LEAF("max(x,y,z)", max({x, y, z}), false);
    LEAF("f(x)", function_symbol("f", x), true);
    LEAF("f(y)", function_symbol("f", y), false);
    LEAF("g(x)", function_symbol("g", x), false);
    LEAF("f(x,y)", function_symbol("f", {x, y}), false);
    LEAF("f(y,x)", function_symbol("f", {y, x}), false);
    LEAF("sin_user(x)", function_symbol("sin", x), false);
    LEAF("Derivative(f(x),x)", function_symbol("f", x)->diff(x), false);
    LEAF("Derivative(f(x,y),x)", function_symbol("f", {x, y})->diff(x), false);
    LEAF("Derivative(f(x,y),y)", function_symbol("f", {x, y})->diff(y), false);
    LEAF("Derivative(f(x,y),x,y)", function_symbol("f", {x, y})->diff(x)->diff(y), false);
    LEAF("Derivative(f(x,y),y,x)", function_symbol("f", {x, y})->diff(y)->diff(x), false);
    LEAF("Subs(Derivative(f(x),x),x,y)", ([&]() -> RCP<const Basic> {
             map_basic_basic m;
             m[x] = add(y, one);
             return function_symbol("f", x)->diff(x)->subs(m);
         })(),
         false);
    // ---- relationals, booleans, piecewise, contains
    LEAF("True", boolTrue, false);
    LEAF("False", boolFalse, false);
    LEAF("Eq(x,y)", Eq(x, y), false);
    LEAF("Eq(y,x)", Eq(y, x), false);
    LEAF("Ne(x,y)", Ne(x, y), false);
    LEAF("Lt(x,y)", Lt(x, y), false);
    LEAF("Lt(y,x)", Lt(y, x), false);
    LEAF("Le(x,y)", Le(x, y), false);
    LEAF("Gt(x,y)", Gt(x, y), false);
    LEAF("Lt(x,0)", Lt(x, zero), false);
    LEAF("And(x<y,x<0)", logical_and({Lt(x, y), Lt(x, zero)}), false);
    LEAF("And(x<0,x<y)", logical_and({Lt(x, zero), Lt(x, y)}), false);
    LEAF("Or(x<y,x<0)", logical_or({Lt(x, y), Lt(x, zero)}), false);
    LEAF("Not(Eq)", logical_not(Eq(x, y)), false);
    LEAF("Not(And)", logical_not(logical_and({Lt(x, y), Lt(x, zero)})), false);
    LEAF("Xor(x<y,x<0)", logical_xor({Lt(x, y), Lt(x, zero)}), false);
    LEAF("Xor(x<0,x<y)", logical_xor({Lt(x, zero), Lt(x, y)}), false);
    LEAF("Contains(x,[0,1])", contains(x, interval(integer(0), integer(1))), false);
    LEAF("Contains(x,(0,1))", contains(x, interval(integer(0), integer(1), true, true)), false);
    LEAF("Piecewise((x,x<0),(y,True))", piecewise({{x, Lt(x, zero)}, {y, boolTrue}}), false);
    LEAF("Piecewise((y,x<0),(x,True))", piecewise({{y, Lt(x, zero)}, {x, boolTrue}}), false);
    // ---- sets
    LEAF("EmptySet", emptyset(), false);
    LEAF("UniversalSet", universalset(), false);
    LEAF("Complexes", complexes(), false);
    LEAF("Reals", reals(), false);
    LEAF("Rationals", rationals(), false);
    LEAF("Integers", integers(), false);
    LEAF("Naturals", naturals(), false);
    LEAF("Naturals0", naturals0(), false);
    for (int lo = 0; lo < 2; lo++)
        for (int ro = 0; ro < 2; ro++)
            W.put(std::string("Interval") + (lo ? "(" : "[") + "0,1" + (ro ? ")" : "]"),
                  [&, lo, ro]() -> RCP<const Basic> { return interval(integer(0), integer(1), lo, ro); });
    LEAF("Interval[0,2]", interval(integer(0), integer(2)), false);
    LEAF("Interval[0,oo)", interval(integer(0), Inf, false, true), false);
    LEAF("Interval[0.0,1]", interval(real_double(0.0), integer(1)), false);
    LEAF("{1,2}", finiteset({integer(1), integer(2)}), false);
    LEAF("{2,1}", finiteset({integer(2), integer(1)}), false);
    LEAF("{x}", finiteset({x}), false);
    LEAF("{x,y}", finiteset({x, y}), false);
    LEAF("{1,1.0}", finiteset({integer(1), real_double(1.0)}), false);
    LEAF("{0.0,-0.0}", finiteset({real_double(0.0), real_double(-0.0)}), false);
    LEAF("Union([0,1],{x})", set_union({interval(integer(0), integer(1)), finiteset({x})}), false);
    LEAF("Union([0,1],[2,3])", set_union({interval(integer(0), integer(1)), interval(integer(2), integer(3))}), false);
    LEAF("Union([2,3],[0,1])", set_union({interval(integer(2), integer(3)), interval(integer(0), integer(1))}), false);
    LEAF("Complement(Reals,{x})", set_complement(reals(), finiteset({x})), false);
    LEAF("Complement(Integers,{x})", set_complement(integers(), finiteset({x})), false);
    LEAF("ConditionSet(x,x<0)", conditionset(x, Lt(x, zero)), false);
    LEAF("ConditionSet(y,y<0)", conditionset(y, Lt(y, zero)), false);
    LEAF("ImageSet(x,x^2,Reals)", imageset(x, pow(x, integer(2)), reals()), false);
    LEAF("ImageSet(x,2x,Integers)", imageset(x, mul(integer(2), x), integers()), false);
    // ---- polynomials (incl. equal values over different variable sets / representations)
    LEAF("UIntPoly(x;0)", UIntPoly::from_vec(x, {}), false);
    LEAF("UIntPoly(x;3)", UIntPoly::from_vec(x, {integer_class(3)}), false);
    LEAF("UIntPoly(y;3)", UIntPoly::from_vec(y, {integer_class(3)}), false);
    LEAF("UIntPoly(x;1+x)", UIntPoly::from_vec(x, {integer_class(1), integer_class(1)}), false);
    LEAF("UIntPoly(y;1+y)", UIntPoly::from_vec(y, {integer_class(1), integer_class(1)}), false);
    LEAF("UIntPoly(x;1+x)'", UIntPoly::from_dict(x, {{0, integer_class(1)}, {1, integer_class(1)}}), false);
    LEAF("URatPoly(x;1+x)", URatPoly::from_vec(x, {rational_class(1), rational_class(1)}), false);
    LEAF("URatPoly(x;1/2+x)", URatPoly::from_vec(x, {rational_class(1, 2), rational_class(1)}), false);
    LEAF("UExprPoly(x;1+x)", UExprPoly::from_vec(x, {Expression(1), Expression(1)}), false);
    LEAF("UExprPoly(x;y+x)", UExprPoly::from_vec(x, {Expression(y), Expression(1)}), false);
    LEAF("MIntPoly({x};3)", MIntPoly::from_dict({x}, {{{0}, integer_class(3)}}), false);
    LEAF("MIntPoly({y};3)", MIntPoly::from_dict({y}, {{{0}, integer_class(3)}}), false);
    LEAF("MIntPoly({};3)", MIntPoly::from_dict({}, {{{}, integer_class(3)}}), false);
    LEAF("MIntPoly({x,y};3)", MIntPoly::from_dict({x, y}, {{{0, 0}, integer_class(3)}}), false);
    LEAF("MIntPoly({x,y};x+y)", MIntPoly::from_dict({x, y}, {{{1, 0}, integer_class(1)}, {{0, 1}, integer_class(1)}}), false);
    LEAF("MIntPoly({x};x)", MIntPoly::from_dict({x}, {{{1}, integer_class(1)}}), false);
    LEAF("MIntPoly({x,y};x)", MIntPoly::from_dict({x, y}, {{{1, 0}, integer_class(1)}}), false);
    LEAF("MIntPoly({x};0)", MIntPoly::from_dict({x}, {}), false);
    LEAF("MIntPoly({y};0)", MIntPoly::from_dict({y}, {}), false);
    LEAF("MExprPoly({x};3)", MExprPoly::from_dict({x}, {{{0}, Expression(3)}}), false);
    LEAF("MExprPoly({y};3)", MExprPoly::from_dict({y}, {{{0}, Expression(3)}}), false);
    LEAF("MExprPoly({x,y};x+y)", MExprPoly::from_dict({x, y}, {{{1, 0}, Expression(1)}, {{0, 1}, Expression(1)}}), false);
    LEAF("GF2(x;1+x)", GaloisField::from_vec(x, {integer_class(1), integer_class(1)}, integer_class(2)), false);
    LEAF("GF3(x;1+x)", GaloisField::from_vec(x, {integer_class(1), integer_class(1)}, integer_class(3)), false);
    LEAF("GF3(y;1+y)", GaloisField::from_vec(y, {integer_class(1), integer_class(1)}, integer_class(3)), false);
    LEAF("GF3(x;0)", GaloisField::from_vec(x, {}, integer_class(3)), false);
    LEAF("GF3(x;3+x)", GaloisField::from_vec(x, {integer_class(3), integer_class(1)}, integer_class(3)), false);
    LEAF("GF3(x;x)", GaloisField::from_vec(x, {integer_class(0), integer_class(1)}, integer_class(3)), false);
    LEAF("series(sin x,3)", UnivariateSeries::series(sin(x), "x", 3), false);
    LEAF("series(sin x,4)", UnivariateSeries::series(sin(x), "x", 4), false);
    LEAF("series(x,3)", UnivariateSeries::series(x, "x", 3), false);
    // ---- tuples, matrix expressions
    LEAF("Tuple(x,y)", tuple({x, y}), false);
    LEAF("Tuple(y,x)", tuple({y, x}), false);
    LEAF("Tuple()", tuple({}), false);
    LEAF("Identity(2)", identity_matrix(integer(2)), false);
    LEAF("Identity(3)", identity_matrix(integer(3)), false);
    LEAF("Identity(x)", identity_matrix(x), false);
    LEAF("Zero(2,2)", zero_matrix(integer(2), integer(2)), false);
    LEAF("Zero(2,3)", zero_matrix(integer(2), integer(3)), false);
    LEAF("MatrixSymbol(A)", matrix_symbol("A"), false);
    LEAF("MatrixSymbol(B)", matrix_symbol("B"), false);
    LEAF("Diag(1,2)", diagonal_matrix({integer(1), integer(2)}), false);
    LEAF("Diag(2,1)", diagonal_matrix({integer(2), integer(1)}), false);
    LEAF("IDM(2x2;1,2,3,4)", immutable_dense_matrix(2, 2, {integer(1), integer(2), integer(3), integer(4)}), false);
    LEAF("IDM(1x4;1,2,3,4)", immutable_dense_matrix(1, 4, {integer(1), integer(2), integer(3), integer(4)}), false);
    LEAF("IDM(4x1;1,2,3,4)", immutable_dense_matrix(4, 1, {integer(1), integer(2), integer(3), integer(4)}), false);
    LEAF("MatrixAdd(A,B)", matrix_add({matrix_symbol("A"), matrix_symbol("B")}), false);
    LEAF("MatrixAdd(B,A)", matrix_add({matrix_symbol("B"), matrix_symbol("A")}), false);
    LEAF("MatrixMul(A,B)", matrix_mul({matrix_symbol("A"), matrix_symbol("B")}), false);
    LEAF("MatrixMul(B,A)", matrix_mul({matrix_symbol("B"), matrix_symbol("A")}), false);
    LEAF("Hadamard(A,B)", hadamard_product({matrix_symbol("A"), matrix_symbol("B")}), false);
    LEAF("Hadamard(B,A)", hadamard_product({matrix_symbol("B"), matrix_symbol("A")}), false);
    LEAF("Transpose(A)", transpose(matrix_symbol("A")), false);
    LEAF("ConjugateMatrix(A)", conjugate_matrix(matrix_symbol("A")), false);
    LEAF("Trace(A)", trace(rcp_static_cast<const MatrixExpr>(matrix_symbol("A"))), false);
#undef LEAF
    // ---- n<=1 closure over the core sub-alphabet: every construction path of the same value
    std::vector<UEntry> core;
    for (auto &u : W.U)
        if (u.core)
            core.push_back(u);
    for (auto &a : core)
        for (auto &b : core) {
            W.put("add(" + a.recipe + "," + b.recipe + ")", [&]() { return add(a.e, b.e); });
            W.put("mul(" + a.recipe + "," + b.recipe + ")", [&]() { return mul(a.e, b.e); });
            W.put("pow(" + a.recipe + "," + b.recipe + ")", [&]() { return pow(a.e, b.e); });
            if (thorough) {
                W.put("sub(" + a.recipe + "," + b.recipe + ")", [&]() { return sub(a.e, b.e); });
                W.put("div(" + a.recipe + "," + b.recipe + ")", [&]() { return div(a.e, b.e); });
            }
        }
    for (auto &a : core) {
        W.put("sin(" + a.recipe + ")", [&]() { return sin(a.e); });
        W.put("f(" + a.recipe + ")", [&]() { return function_symbol("f", a.e); });
        W.put("{" + a.recipe + "}", [&]() -> RCP<const Basic> { return finiteset({a.e}); });
        W.put("neg(" + a.recipe + ")", [&]() { return neg(a.e); });
    }
    return W;
}
} // namespace verif
#endif
