// C16  Printing is a function of the value, and parse(str(e)) == e -- E1 explicit-state search (DESIGN 5 C16)
//
// States = distinct canonical expressions of the parseable fragment whose shortest recipe has <= n API
// operations (numbers of every exact/float kind incl. negative, rational, Gaussian-rational, symbols with odd but
// tokenizer-legal names, constants, add/sub/mul/div/pow/neg, every parser-known function, relationals, boolean
// connectives, Piecewise).  On every transition r = op(a, b):
//   * s = str(r); p = parse(s); p must be the same tree as r (structural key; floats equal to 15 significant
//     digits; also eq(p, r) when no float is involved);
//   * path independence of printing: the mirrored call op(b, a) of a commutative op, and the node rebuilt from
//     r's own arguments in reverse order, print the same string whenever they are the same value (same key);
//     duplicate arrivals at one state found while building the state set print the same string.
#include "bigints.h"
#include "common.h"
#include "explore.h"
#include <symengine/parser/parser.h>
using namespace verif;

// ------------------------------------------------------------------ float-tolerant structural key
static std::string fmt15(double d)
{
    if (d == 0)
        return "0";
    char b[40];
    snprintf(b, sizeof b, "%.15g", d);
    return b;
}
static bool g_nonfinite; // set by fkey when a non-finite double is met
static std::string fkey(const Basic &e)
{
    switch (e.get_type_code()) {
        case SYMENGINE_REAL_DOUBLE: {
            double d = down_cast<const RealDouble &>(e).i;
            if (!std::isfinite(d))
                g_nonfinite = true;
            return "D15:" + fmt15(d);
        }
        case SYMENGINE_COMPLEX_DOUBLE: {
            std::complex<double> z = down_cast<const ComplexDouble &>(e).i;
            if (!std::isfinite(z.real()) || !std::isfinite(z.imag()))
                g_nonfinite = true;
            return "Z15:" + fmt15(z.real()) + "," + fmt15(z.imag());
        }
        case SYMENGINE_ADD: {
            const Add &a = down_cast<const Add &>(e);
            std::vector<std::string> ks;
            for (auto &p : a.get_dict())
                ks.push_back(fkey(*p.second) + "*" + fkey(*p.first));
            std::sort(ks.begin(), ks.end());
            std::string o = "Add(" + fkey(*a.get_coef()) + ";";
            for (auto &k : ks)
                o += k + ",";
            return o + ")";
        }
        case SYMENGINE_MUL: {
            const Mul &m = down_cast<const Mul &>(e);
            std::vector<std::string> ks;
            for (auto &p : m.get_dict())
                ks.push_back(fkey(*p.first) + "^" + fkey(*p.second));
            std::sort(ks.begin(), ks.end());
            std::string o = "Mul(" + fkey(*m.get_coef()) + ";";
            for (auto &k : ks)
                o += k + ",";
            return o + ")";
        }
        case SYMENGINE_AND:
        case SYMENGINE_OR:
        case SYMENGINE_MAX:
        case SYMENGINE_MIN:
        case SYMENGINE_XOR:
        case SYMENGINE_BETA:           // symmetric two-argument nodes store their arguments in the library's own
        case SYMENGINE_KRONECKERDELTA: // order, which may flip between two doubles that agree to 15 digits
        case SYMENGINE_EQUALITY:
        case SYMENGINE_UNEQUALITY: {
            std::vector<std::string> ks;
            for (auto &a : e.get_args())
                ks.push_back(fkey(*a));
            std::sort(ks.begin(), ks.end());
            std::string o = type_code_name(e.get_type_code()) + "{";
            for (auto &k : ks)
                o += k + ",";
            return o + "}";
        }
        default: {
            vec_basic args = e.get_args();
            if (args.empty())
                return key(e);
            std::string o = type_code_name(e.get_type_code()) + "(";
            if (is_a<FunctionSymbol>(e))
                o += down_cast<const FunctionSymbol &>(e).get_name() + ":";
            for (auto &a : args)
                o += fkey(*a) + ",";
            return o + ")";
        }
    }
}
static bool has_float(const Basic &e)
{
    if (is_a<RealDouble>(e) || is_a<ComplexDouble>(e))
        return true;
    for (auto &a : e.get_args())
        if (has_float(*a))
            return true;
    return false;
}
// first place where the printed-and-reparsed tree differs from the original: class signature of a defect
static std::string node_class(const Basic &e, bool shallow = false)
{
    std::string t = type_code_name(e.get_type_code());
    if (is_a<Symbol>(e))
        return "Symbol";
    if (is_a<FunctionSymbol>(e))
        return "FunctionSymbol";
    if (is_a<ComplexDouble>(e)) {
        std::complex<double> z = down_cast<const ComplexDouble &>(e).i;
        return (z.real() == 0 || z.imag() == 0) ? "ComplexDouble(zero-part)" : "ComplexDouble";
    }
    if (is_a<Infty>(e)) {
        const Infty &i = down_cast<const Infty &>(e);
        return i.is_positive_infinity() ? "Infty+" : i.is_negative_infinity() ? "Infty-" : "zoo";
    }
    if (is_a_Number(e)) {
        const Number &n = down_cast<const Number &>(e);
        if (is_a<Integer>(e) || is_a<Rational>(e) || is_a<RealDouble>(e))
            return t + (n.is_zero() ? "0" : n.is_negative() ? "-" : "+");
    }
    if (is_a<Pow>(e) && !shallow)
        return "Pow[base:" + node_class(*down_cast<const Pow &>(e).get_base(), true) + "]";
    return t;
}
static std::string locus(const Basic &a, const Basic &b)
{
    vec_basic x = a.get_args(), y = b.get_args();
    if (a.get_type_code() != b.get_type_code() || x.size() != y.size() || x.empty())
        return node_class(a) + "->" + node_class(b);
    std::vector<std::string> kx, ky;
    for (auto &e : x)
        kx.push_back(fkey(*e));
    for (auto &e : y)
        ky.push_back(fkey(*e));
    std::vector<bool> used(y.size(), false);
    int firstx = -1;
    for (size_t i = 0; i < x.size(); i++) {
        bool m = false;
        for (size_t j = 0; j < y.size(); j++)
            if (!used[j] && kx[i] == ky[j]) {
                used[j] = true;
                m = true;
                break;
            }
        if (!m && firstx < 0)
            firstx = i;
    }
    if (firstx < 0)
        return node_class(a) + "(argument-order)->" + node_class(b);
    for (size_t j = 0; j < y.size(); j++)
        if (!used[j])
            return locus(*x[firstx], *y[j]);
    return node_class(a) + "->" + node_class(b);
}

// ------------------------------------------------------------------ is the expression a fixed point of its own constructors?
// str() prints the tree, parse() re-applies the public constructors to it.  If re-applying the constructor of some
// node u to u's own arguments does not give u back (sign(2*pi) is stored as sign(pi), but sign(pi) evaluates to 1),
// the expression cannot round-trip whatever the printer and the parser do: the canonical form is not unique
// (C03/C04 territory).  Such cases get their own signature class naming the innermost unstable node.
static RCP<const Basic> construct1(const Basic &e)
{
    vec_basic a = e.get_args();
    if (a.empty())
        return e.rcp_from_this();
    if (is_a<Add>(e))
        return add(a);
    if (is_a<Mul>(e))
        return mul(a);
    if (is_a<Pow>(e))
        return pow(a[0], a[1]);
    if (auto f = dynamic_cast<const OneArgFunction *>(&e))
        return f->create(a[0]);
    if (auto f = dynamic_cast<const TwoArgFunction *>(&e))
        return f->create(a[0], a[1]);
    if (auto f = dynamic_cast<const MultiArgFunction *>(&e))
        return f->create(a);
    if (is_a<Equality>(e))
        return Eq(a[0], a[1]);
    if (is_a<Unequality>(e))
        return Ne(a[0], a[1]);
    if (is_a<LessThan>(e))
        return Le(a[0], a[1]);
    if (is_a<StrictLessThan>(e))
        return Lt(a[0], a[1]);
    if (is_a<And>(e) || is_a<Or>(e)) {
        set_boolean sb;
        for (auto &x : a)
            sb.insert(rcp_static_cast<const Boolean>(x));
        return is_a<And>(e) ? logical_and(sb) : logical_or(sb);
    }
    if (is_a<Xor>(e)) {
        vec_boolean vb;
        for (auto &x : a)
            vb.push_back(rcp_static_cast<const Boolean>(x));
        return logical_xor(vb);
    }
    if (is_a<Not>(e))
        return logical_not(rcp_static_cast<const Boolean>(a[0]));
    return e.rcp_from_this();
}
// innermost node that its own constructor does not reproduce ("" if none); out: description
static std::string find_unstable(const Basic &e, std::string &desc)
{
    for (auto &a : e.get_args()) {
        std::string r = find_unstable(*a, desc);
        if (!r.empty())
            return r;
    }
    try {
        RCP<const Basic> c = construct1(e);
        if (key(*c) != key(e)) {
            std::string cls = node_class(e, true) + "(";
            vec_basic a = e.get_args();
            for (size_t i = 0; i < a.size() && i < 3; i++)
                cls += (i ? "," : "") + node_class(*a[i], true);
            cls += ")";
            desc = "the constructor of " + sstr(e.rcp_from_this()) + " [" + key(e) + "] applied to its own arguments returns " + sstr(c) + " [" + key(*c) + "]";
            return cls;
        }
    } catch (std::exception &x) {
        desc = std::string("the constructor of ") + sstr(e.rcp_from_this()) + " applied to its own arguments throws " + x.what();
        return node_class(e, true) + "(throws)";
    }
    return "";
}

// ------------------------------------------------------------------ operations
enum Kind { UE, BE, RE, UB, BB, NKIND };
typedef std::function<RCP<const Basic>(const RCP<const Basic> &, const RCP<const Basic> &)> F2;
struct Op {
    std::string name;
    Kind kind;
    bool comm;
    bool arith;
    F2 f;
};
static RCP<const Boolean> B(const RCP<const Basic> &x)
{
    return rcp_static_cast<const Boolean>(x);
}
static std::vector<Op> make_ops()
{
    std::vector<Op> O;
    typedef RCP<const Basic> (*F1)(const RCP<const Basic> &);
    typedef RCP<const Basic> (*FF2)(const RCP<const Basic> &, const RCP<const Basic> &);
    auto u = [&](const std::string &n, F1 f) { O.push_back({n, UE, false, false, [f](const RCP<const Basic> &a, const RCP<const Basic> &) { return f(a); }}); };
    auto b = [&](const std::string &n, FF2 f, bool comm, bool arith = false) {
        O.push_back({n, BE, comm, arith, [f](const RCP<const Basic> &a, const RCP<const Basic> &b) { return f(a, b); }});
    };
    O.push_back({"neg", UE, false, true, [](const RCP<const Basic> &a, const RCP<const Basic> &) -> RCP<const Basic> { return neg(a); }});
    b("add", (FF2)add, true, true), b("sub", (FF2)sub, false, true), b("mul", (FF2)mul, true, true), b("div", (FF2)div, false, true);
    b("pow", (FF2)pow, false, true);
    // every distinct single-argument function of the parser's table
    u("sin", sin), u("cos", cos), u("tan", tan), u("cot", cot), u("csc", csc), u("sec", sec), u("asin", asin), u("acos", acos), u("atan", atan);
    u("asec", asec), u("acsc", acsc), u("acot", acot), u("sinh", sinh), u("cosh", cosh), u("tanh", tanh), u("coth", coth), u("sech", sech);
    u("csch", csch), u("asinh", asinh), u("acosh", acosh), u("atanh", atanh), u("asech", asech), u("acoth", acoth), u("acsch", acsch);
    u("gamma", gamma), u("sqrt", sqrt), u("abs", abs), u("sign", sign), u("exp", exp), u("erf", erf), u("erfc", erfc), u("loggamma", loggamma);
    u("lambertw", lambertw), u("dirichlet_eta", dirichlet_eta), u("floor", floor), u("ceiling", ceiling), u("log", (F1)log), u("zeta", (F1)zeta);
    u("primepi", primepi), u("primorial", primorial);
    O.push_back({"f", UE, false, false, [](const RCP<const Basic> &a, const RCP<const Basic> &) -> RCP<const Basic> { return function_symbol("f", a); }});
    // two-argument functions of the parser's table
    b("beta", beta, true), b("log2", (FF2)log, false), b("zeta2", (FF2)zeta, false), b("lowergamma", lowergamma, false), b("uppergamma", uppergamma, false);
    b("polygamma", polygamma, false), b("kronecker_delta", kronecker_delta, true), b("atan2", atan2, false);
    O.push_back({"max", BE, true, false, [](const RCP<const Basic> &a, const RCP<const Basic> &b) -> RCP<const Basic> { return SymEngine::max(vec_basic{a, b}); }});
    O.push_back({"min", BE, true, false, [](const RCP<const Basic> &a, const RCP<const Basic> &b) -> RCP<const Basic> { return SymEngine::min(vec_basic{a, b}); }});
    O.push_back({"levi_civita", BE, false, false, [](const RCP<const Basic> &a, const RCP<const Basic> &b) -> RCP<const Basic> { return levi_civita(vec_basic{a, b}); }});
    O.push_back({"g", BE, false, false, [](const RCP<const Basic> &a, const RCP<const Basic> &b) -> RCP<const Basic> { return function_symbol("g", vec_basic{a, b}); }});
    O.push_back({"Eq", RE, true, false, [](const RCP<const Basic> &a, const RCP<const Basic> &b) -> RCP<const Basic> { return Eq(a, b); }});
    O.push_back({"Ne", RE, true, false, [](const RCP<const Basic> &a, const RCP<const Basic> &b) -> RCP<const Basic> { return Ne(a, b); }});
    O.push_back({"Lt", RE, false, false, [](const RCP<const Basic> &a, const RCP<const Basic> &b) -> RCP<const Basic> { return Lt(a, b); }});
    O.push_back({"Le", RE, false, false, [](const RCP<const Basic> &a, const RCP<const Basic> &b) -> RCP<const Basic> { return Le(a, b); }});
    O.push_back({"Not", UB, false, false, [](const RCP<const Basic> &a, const RCP<const Basic> &) -> RCP<const Basic> { return logical_not(B(a)); }});
    O.push_back({"And", BB, true, false, [](const RCP<const Basic> &a, const RCP<const Basic> &b) -> RCP<const Basic> { return logical_and({B(a), B(b)}); }});
    O.push_back({"Or", BB, true, false, [](const RCP<const Basic> &a, const RCP<const Basic> &b) -> RCP<const Basic> { return logical_or({B(a), B(b)}); }});
    O.push_back({"Xor", BB, true, false, [](const RCP<const Basic> &a, const RCP<const Basic> &b) -> RCP<const Basic> { return logical_xor({B(a), B(b)}); }});
    return O;
}

// Constructor calls that cannot be executed at all (they hang, abort or would allocate astronomically): these are
// defects or limits of the CONSTRUCTORS (recorded under C08/C40), not of printing/parsing; no expression exists
// to print, so the transition is skipped and counted.  Kept as narrow as the known classes.
static bool real_mag_gt(const Basic &e, double lim)
{
    double d;
    if (is_a<RealDouble>(e))
        d = down_cast<const RealDouble &>(e).i;
    else if (is_a<Integer>(e))
        d = mp_get_d(down_cast<const Integer &>(e).as_integer_class());
    else if (is_a<Rational>(e))
        d = mp_get_d(down_cast<const Rational &>(e).as_rational_class());
    else
        return false;
    return std::fabs(d) > lim;
}
static bool half_integer(const Basic &e)
{
    return is_a<Rational>(e) && get_den(down_cast<const Rational &>(e).as_rational_class()) == 2;
}
static bool unconstructible(const std::string &op, const Basic &a, const Basic &b)
{
    static const std::set<std::string> enumerating = {"gamma", "primepi", "primorial", "zeta", "zeta2", "polygamma", "loggamma", "dirichlet_eta",
                                                      "lowergamma", "uppergamma", "beta"};
    if (enumerating.count(op) && (real_mag_gt(a, 1000) || real_mag_gt(b, 1000)))
        return true; // factorials / sieves / Bernoulli numbers up to the argument
    if (op == "zeta2" && is_a<Integer>(a) && is_a<Integer>(b) && down_cast<const Integer &>(b).is_zero())
        return true; // C08: zeta(s, 0) never returns
    if (op == "beta" && half_integer(a) && half_integer(b)
        && !down_cast<const Number &>(*add(a.rcp_from_this(), b.rcp_from_this())).is_positive())
        return true; // C08: beta of two half-integers with sum <= 0 aborts in factorial(-1)
    if (op == "pow" && is_a<Integer>(b) && real_mag_gt(b, 5000) && is_a_Number(a) && !is_a<RealDouble>(a) && !is_a<ComplexDouble>(a))
        return true; // exact power with an astronomically large result
    return false;
}

enum { K_TRANS, K_REFUSED, K_RT_EXACT, K_RT_FLOAT, K_SKIP_NONFINITE, K_MIRROR, K_REBUILD, K_REBUILD_DIFFKEY, K_VIOL_CASES, K_DUPCHK, K_PW, K_GUARD, K_UNSTABLE };
static std::vector<std::string> CN = {"transitions",
                                      "transitions_refused_by_library(exception)",
                                      "round_trips_checked_exactly(key+eq)",
                                      "round_trips_checked_to_15_digits(float inside)",
                                      "states_skipped_nonfinite_double",
                                      "mirror_calls_compared(commutative op, same key => same string)",
                                      "rebuild_from_reversed_args_compared",
                                      "rebuild_from_reversed_args_gave_other_value(not compared)",
                                      "violating_transitions",
                                      "duplicate_arrivals_rechecked",
                                      "piecewise_transitions",
                                      "transitions_skipped_constructor_cannot_run(hang/abort/huge; C08 classes)",
                                      "round_trip_differs_because_state_is_not_a_fixed_point_of_its_constructors"};

static bool first_of_class(const std::string &sig)
{
    static std::map<std::string, int> seen;
    return seen[sig]++ < 2;
}
static void report(Ctx &c, const std::string &sig, const std::string &desc)
{
    c.count(K_VIOL_CASES);
    if (first_of_class(sig))
        c.violation(sig, desc);
}

// A Symbol whose name is one of the parser's constant names prints exactly like that constant; the string cannot
// denote both.  If replacing such symbols by the constants explains the whole difference, the mismatch gets the
// single signature of that class.
static bool explained_by_constant_named_symbol(const RCP<const Basic> &r, const RCP<const Basic> &p)
{
    static const std::map<std::string, RCP<const Basic>> names = {{"e", E},     {"E", E},       {"EulerGamma", EulerGamma}, {"Catalan", Catalan},
                                                                  {"GoldenRatio", GoldenRatio}, {"pi", pi},     {"I", I},   {"oo", Inf},
                                                                  {"inf", Inf}, {"zoo", ComplexInf}, {"nan", Nan}, {"True", boolTrue}, {"False", boolFalse}};
    map_basic_basic m;
    std::function<void(const Basic &)> walk = [&](const Basic &e) {
        if (is_a<Symbol>(e)) {
            auto it = names.find(down_cast<const Symbol &>(e).get_name());
            if (it != names.end())
                m[e.rcp_from_this()] = it->second;
        }
        for (auto &a : e.get_args())
            walk(*a);
    };
    walk(*r);
    if (m.empty())
        return false;
    try {
        RCP<const Basic> r2 = r->subs(m);
        return has_float(*r) ? fkey(*r2) == fkey(*p) : key(*r2) == key(*p);
    } catch (std::exception &) {
        return false;
    }
}
// silent version of the round-trip test, used in the parent to quarantine states (no descendants of a state that
// does not round-trip: one defect, one minimal witness)
static bool roundtrips(const RCP<const Basic> &r)
{
    try {
        std::string s = r->__str__();
        RCP<const Basic> p = parse(s);
        return has_float(*r) ? fkey(*p) == fkey(*r) : key(*p) == key(*r);
    } catch (std::exception &) {
        return false;
    }
}
// all checks on one produced state r; returns false when violating
static bool check_state(const RCP<const Basic> &r, const std::string &recipe, Ctx &c)
{
    std::string s;
    try {
        s = r->__str__();
    } catch (std::exception &x) {
        report(c, "str-throws:" + node_class(*r), recipe + ": str() throws " + x.what());
        return false;
    }
    g_nonfinite = false;
    std::string fk = fkey(*r);
    if (g_nonfinite) {
        c.count(K_SKIP_NONFINITE);
        c.outcome("skip:nonfinite-double");
        return true;
    }
    RCP<const Basic> p;
    try {
        p = parse(s);
    } catch (std::exception &x) {
        std::string m = x.what();
        std::string ud, uc = find_unstable(*r, ud);
        if (!uc.empty()) {
            c.count(K_UNSTABLE);
            report(c, "unstable-form:" + uc, recipe + " = " + s + " [" + key(*r) + "] is not reproduced by its own constructors (" + ud + "), so parse(str) throws "
                                                 + m + "; not a printer/parser defect");
            return false;
        }
        report(c, "roundtrip:parse-throws(" + m.substr(0, 32) + "):" + node_class(*r), recipe + " = " + s + " [" + key(*r) + "]: parse(str) throws " + m);
        return false;
    }
    bool fl = has_float(*r);
    c.count(fl ? K_RT_FLOAT : K_RT_EXACT);
    bool ok = fl ? fkey(*p) == fk : (key(*p) == key(*r));
    c.outcome(std::string(type_code_name(r->get_type_code())) + (fl ? ":float" : ":exact"));
    if (!ok && explained_by_constant_named_symbol(r, p)) {
        report(c, "roundtrip:symbol-named-like-parser-constant",
               recipe + " = " + s + " [" + key(*r) + "]; parse(str) = " + sstr(p) + " [" + key(*p)
                   + "]: a Symbol named like a parser constant prints like the constant and is read back as the constant");
        return false;
    }
    if (!ok) {
        std::string ud, uc = find_unstable(*r, ud);
        if (!uc.empty()) {
            c.count(K_UNSTABLE);
            report(c, "unstable-form:" + uc, recipe + " = " + s + " [" + key(*r) + "] is not reproduced by its own constructors (" + ud
                                                 + "), so parse(str) = " + sstr(p) + " [" + key(*p) + "] differs; not a printer/parser defect");
            return false;
        }
        report(c, "roundtrip:" + locus(*r, *p),
               recipe + " = " + s + " [" + key(*r) + "]; parse(str) = " + sstr(p) + " [" + key(*p) + "]" + (fl ? " (floats compared to 15 significant digits)" : ""));
        return false;
    }
    if (!fl && !eq(*p, *r)) {
        report(c, "roundtrip-eq-false:" + node_class(*r), recipe + " = " + s + ": parse(str) has the same structure but eq() is false");
        return false;
    }
    // path independence: rebuild the top node from its own arguments in reverse order
    if (is_a<Add>(*r) || is_a<Mul>(*r)) {
        vec_basic a = r->get_args();
        std::reverse(a.begin(), a.end());
        try {
            RCP<const Basic> r2 = is_a<Add>(*r) ? add(a) : mul(a);
            if (key(*r2) == key(*r)) {
                c.count(K_REBUILD);
                std::string s2 = r2->__str__();
                if (s2 != s) {
                    report(c, std::string("print-depends-on-construction-path:") + type_code_name(r->get_type_code()),
                           recipe + " prints \"" + s + "\" but the same value rebuilt from its arguments in reverse order prints \"" + s2 + "\"");
                    return false;
                }
            } else
                c.count(K_REBUILD_DIFFKEY);
        } catch (std::exception &) {
        }
    }
    return true;
}

// ------------------------------------------------------------------ layered exploration
struct Explorer {
    std::string tag;
    std::vector<Op> ops;
    StateSet SS;
    std::vector<bool> isb;
    std::vector<std::vector<int>> De, Db; // state indices by depth, expression-typed / boolean-typed
    std::vector<std::string> strs;        // str of the first arrival
    struct Dup {
        int state, op, ia, ib;
    };
    std::vector<Dup> dups;
    std::vector<int> dupcount;
    int bb_cap = 60; // bonus block: boolean connectives over the first bb_cap relationals of depth 1

    void add_state(const RCP<const Basic> &e, const std::string &recipe, int depth, int op = -1, int ia = -1, int ib = -1)
    {
        bool fresh;
        int i = SS.add(e, recipe, depth, &fresh);
        if (fresh) {
            bool bo = is_a_Boolean(*e);
            isb.push_back(bo);
            if ((int)De.size() <= depth) {
                De.resize(depth + 1);
                Db.resize(depth + 1);
            }
            (bo ? Db : De)[depth].push_back(i);
            strs.push_back(sstr(e));
            dupcount.push_back(0);
        } else if (op >= 0 && dupcount[i] < 3) {
            dupcount[i]++;
            dups.push_back({i, op, ia, ib});
        }
    }
    struct Block {
        int op;
        const std::vector<int> *A, *Bv; // operand index lists (Bv null for unary)
        long long first, count;
    };
    std::vector<Block> blocks;
    long long total = 0;
    void block(int op, const std::vector<int> *A, const std::vector<int> *Bv)
    {
        long long n = (long long)A->size() * (Bv ? (long long)Bv->size() : 1);
        if (n == 0)
            return;
        blocks.push_back({op, A, Bv, total, n});
        total += n;
    }
    std::vector<int> bonusB;
    // transitions producing states of depth n: operand depths da + db = n - 1
    void plan_layer(int n, const std::function<bool(const Op &)> &use)
    {
        blocks.clear();
        total = 0;
        if ((int)De.size() < n + 1) { // room for the new depth too: add_state must never reallocate while blocks point into De/Db
            De.resize(n + 1);
            Db.resize(n + 1);
        }
        for (size_t o = 0; o < ops.size(); o++) {
            if (!use(ops[o]))
                continue;
            Kind k = ops[o].kind;
            if (k == UE)
                block(o, &De[n - 1], nullptr);
            else if (k == UB)
                block(o, &Db[n - 1], nullptr);
            else
                for (int da = 0; da <= n - 1; da++) {
                    int db = n - 1 - da;
                    block(o, k == BB ? &Db[da] : &De[da], k == BB ? &Db[db] : &De[db]);
                }
            if (k == BB && n == 2) { // bonus: connectives of two relationals (3 operations)
                bonusB.assign(Db[1].begin(), Db[1].begin() + std::min<size_t>(bb_cap, Db[1].size()));
                block(o, &bonusB, &bonusB);
            }
        }
    }
    void decode(long long i, int &op, int &ia, int &ib) const
    {
        size_t lo = 0, hi = blocks.size() - 1;
        while (lo < hi) {
            size_t mid = (lo + hi + 1) / 2;
            if (blocks[mid].first <= i)
                lo = mid;
            else
                hi = mid - 1;
        }
        const Block &b = blocks[lo];
        long long r = i - b.first;
        op = b.op;
        if (b.Bv) {
            ia = (*b.A)[r / (long long)b.Bv->size()];
            ib = (*b.Bv)[r % (long long)b.Bv->size()];
        } else {
            ia = (*b.A)[r];
            ib = ia;
        }
    }
    std::string recipe(int op, int ia, int ib) const
    {
        const Op &o = ops[op];
        return o.name + "(" + SS.S[ia].recipe + ((o.kind == UE || o.kind == UB) ? "" : ", " + SS.S[ib].recipe) + ")";
    }
    // run layer n in the workers, then (if build) add its results to the state set in the parent
    void run_layer(int n, const std::function<bool(const Op &)> &use, bool build)
    {
        plan_layer(n, use);
        CaseSet cs;
        cs.name = tag + ":L" + std::to_string(n);
        cs.n = total;
        cs.counter_names = CN;
        cs.desc = [this](long long i) {
            int op, ia, ib;
            decode(i, op, ia, ib);
            return recipe(op, ia, ib);
        };
        cs.crash_sig = [this](long long i, const std::string &oc) {
            int op, ia, ib;
            decode(i, op, ia, ib);
            return "crash-or-hang:" + oc + ":" + ops[op].name + "(" + node_class(*SS.S[ia].e) + "," + node_class(*SS.S[ib].e) + ")";
        };
        cs.body = [this](long long i, Ctx &c) {
            int op, ia, ib;
            decode(i, op, ia, ib);
            const Op &o = ops[op];
            if (unconstructible(o.name, *SS.S[ia].e, *SS.S[ib].e)) {
                c.count(K_GUARD);
                return;
            }
            c.eval();
            c.count(K_TRANS);
            RCP<const Basic> r;
            try {
                r = o.f(SS.S[ia].e, SS.S[ib].e);
            } catch (SymEngineException &x) {
                c.count(K_REFUSED);
                c.outcome(std::string("refused:") + std::string(x.what()).substr(0, 30));
                return;
            }
            std::string rec = recipe(op, ia, ib);
            if (r->get_args().size() > 0)
                c.nontrivial();
            if (!check_state(r, rec, c))
                return;
            if (o.comm && ia != ib) {
                try {
                    RCP<const Basic> m = o.f(SS.S[ib].e, SS.S[ia].e);
                    if (key(*m) == key(*r)) {
                        c.count(K_MIRROR);
                        std::string s1 = r->__str__(), s2 = m->__str__();
                        if (s1 != s2)
                            report(c, "print-depends-on-construction-path:mirror:" + o.name,
                                   rec + " prints \"" + s1 + "\" but the mirrored call, which returns the same value, prints \"" + s2 + "\"");
                    }
                } catch (std::exception &) {
                }
            }
            if (i % 100003 == 0)
                c.sample("{\"recipe\":" + jstr(rec) + ",\"str\":" + jstr(sstr(r)) + "}");
        };
        run_cases(cs);
        if (!build)
            return;
        for (long long i = 0; i < total; i++) {
            if (cs.bad.count(i))
                continue;
            int op, ia, ib;
            decode(i, op, ia, ib);
            if (unconstructible(ops[op].name, *SS.S[ia].e, *SS.S[ib].e))
                continue;
            try {
                RCP<const Basic> r = ops[op].f(SS.S[ia].e, SS.S[ib].e);
                g_nonfinite = false;
                (void)fkey(*r);
                if (g_nonfinite)
                    continue;
                if (SS.idx.find(key(*r)) == SS.idx.end() && !roundtrips(r))
                    continue; // quarantine (the transition itself has been reported by the worker)
                add_state(r, recipe(op, ia, ib), n, op, ia, ib);
            } catch (std::exception &) {
            }
        }
    }
    // duplicate arrivals recorded while building: each must print like the first arrival
    void run_dups()
    {
        CaseSet cs;
        cs.name = tag + ":duplicate-arrivals";
        cs.n = dups.size();
        cs.counter_names = CN;
        cs.desc = [this](long long i) { return recipe(dups[i].op, dups[i].ia, dups[i].ib) + " vs first arrival " + SS.S[dups[i].state].recipe; };
        cs.body = [this](long long i, Ctx &c) {
            const Dup &d = dups[i];
            c.eval();
            c.count(K_DUPCHK);
            c.nontrivial();
            RCP<const Basic> r = ops[d.op].f(SS.S[d.ia].e, SS.S[d.ib].e);
            std::string s = r->__str__();
            c.outcome("dup:" + std::string(type_code_name(r->get_type_code())));
            if (key(*r) == SS.S[d.state].key && s != strs[d.state])
                report(c, std::string("print-depends-on-construction-path:arrival:") + type_code_name(r->get_type_code()),
                       recipe(d.op, d.ia, d.ib) + " prints \"" + s + "\" but the equal expression " + SS.S[d.state].recipe + " prints \"" + strs[d.state] + "\"");
        };
        if (cs.n > 0)
            run_cases(cs);
    }
    // Piecewise((e1, c), (e2, True)) with e1, e2 leaves and c any boolean state of depth <= maxd
    void run_piecewise(int maxd)
    {
        std::vector<int> conds;
        for (int d = 0; d <= maxd && d < (int)Db.size(); d++)
            conds.insert(conds.end(), Db[d].begin(), Db[d].end());
        const std::vector<int> &E0 = De[0];
        long long ne = E0.size(), nc = conds.size();
        CaseSet cs;
        cs.name = tag + ":piecewise";
        cs.n = ne * ne * nc;
        cs.counter_names = CN;
        auto dec = [=, &E0](long long i, int &e1, int &cc, int &e2) {
            e2 = E0[i % ne];
            cc = conds[(i / ne) % nc];
            e1 = E0[i / ne / nc];
        };
        cs.desc = [=](long long i) {
            int e1, cc, e2;
            dec(i, e1, cc, e2);
            return "Piecewise((" + SS.S[e1].recipe + ", " + SS.S[cc].recipe + "), (" + SS.S[e2].recipe + ", True))";
        };
        cs.crash_sig = [](long long, const std::string &oc) { return "crash-or-hang:" + oc + ":piecewise"; };
        cs.body = [=](long long i, Ctx &c) {
            int e1, cc, e2;
            dec(i, e1, cc, e2);
            c.eval();
            c.count(K_TRANS);
            c.count(K_PW);
            RCP<const Basic> r;
            try {
                r = piecewise({{SS.S[e1].e, B(SS.S[cc].e)}, {SS.S[e2].e, boolTrue}});
            } catch (SymEngineException &) {
                c.count(K_REFUSED);
                return;
            }
            c.nontrivial();
            check_state(r, cs.desc(i), c);
        };
        if (cs.n > 0)
            run_cases(cs);
    }
};

int main(int argc, char **argv)
{
    init(argc, argv, "C16");
    bool thorough = opts().thorough();
    Run &R = run();
    RCP<const Basic> x = symbol("x"), y = symbol("y");
    auto Q = [](long a, long b) { return Rational::from_two_ints(a, b); };
    auto CX = [](long a, long b, long c, long d) { return Complex::from_two_nums(*Rational::from_two_ints(a, b), *Rational::from_two_ints(c, d)); };
    typedef std::vector<std::pair<std::string, RCP<const Basic>>> Leaves;
    Leaves quick = {{"x", x},
                    {"y", y},
                    {"0", integer(0)},
                    {"1", integer(1)},
                    {"-1", integer(-1)},
                    {"2", integer(2)},
                    {"-2", integer(-2)},
                    {"3", integer(3)},
                    {"1/2", Q(1, 2)},
                    {"-1/2", Q(-1, 2)},
                    {"-3/2", Q(-3, 2)},
                    {"I", I},
                    {"1+2I", CX(1, 1, 2, 1)},
                    {"1/2-3/2I", CX(1, 2, -3, 2)},
                    {"0.5", real_double(0.5)},
                    {"-2.0", real_double(-2.0)},
                    {"double(1/3)", real_double(1.0 / 3.0)},
                    {"_x1", symbol("_x1")},
                    {"pi", pi},
                    {"E", E},
                    {"oo", Inf},
                    {"True", boolTrue},
                    {"False", boolFalse}};
    Leaves extra = {{"2/3", Q(2, 3)},
                    {"-I", CX(0, 1, -1, 1)},
                    {"0.1", real_double(0.1)},
                    {"1e20", real_double(1e20)},
                    {"1e-5", real_double(1e-5)},
                    {"123456789012345.0", real_double(123456789012345.0)},
                    {"complexdouble(1,2)", complex_double(std::complex<double>(1.0, 2.0))},
                    {"complexdouble(0,-2.5)", complex_double(std::complex<double>(0.0, -2.5))},
                    {"symbol(e-acute)", symbol("\xc3\xa9")},
                    {"symbol(Piecewise1)", symbol("Piecewise1")},
                    {"symbol(x_1)", symbol("x_1")},
                    {"symbol(pi)", symbol("pi")}, // prints like the constant: tokenizer-legal name that collides with a parser constant
                    {"EulerGamma", EulerGamma},
                    {"Catalan", Catalan},
                    {"GoldenRatio", GoldenRatio},
                    {"-oo", NegInf},
                    {"zoo", ComplexInf},
                    {"nan", Nan}};
    Explorer G;
    G.tag = "G";
    G.ops = make_ops();
    Leaves lv = quick;
    if (thorough)
        lv.insert(lv.end(), extra.begin(), extra.end());
    for (auto &l : lv)
        G.add_state(l.second, l.first, 0);
    R.counters["G:leaves"] = lv.size();

    // leaves themselves
    {
        CaseSet cs;
        cs.name = "G:L0";
        cs.n = G.SS.size();
        cs.counter_names = CN;
        cs.desc = [&](long long i) { return "leaf " + G.SS.S[i].recipe; };
        cs.body = [&](long long i, Ctx &c) {
            c.eval();
            c.nontrivial();
            check_state(G.SS.S[i].e, G.SS.S[i].recipe, c);
        };
        run_cases(cs);
    }
    // boundary integers: every integer next to a representation boundary (int / long / unsigned long / limb sizes, the
    // decimal digit counts around LONG_MAX) in every syntactic position a number can take
    {
        std::vector<integer_class> B = verif::boundary_integers();
        std::vector<std::pair<std::string, RCP<const Basic>>> bs;
        for (auto &n : B) {
            RCP<const Integer> N = integer(n);
            std::string t = verif::bstr(n);
            bs.push_back({t, N});
            bs.push_back({"(" + t + ")/3", Rational::from_mpq(rational_class(n, integer_class(3)))});
            bs.push_back({"3/(" + t + ")", div(integer(3), N)});
            bs.push_back({"(" + t + ")*x", mul(N, x)});
            bs.push_back({"x**(" + t + ")", pow(x, N)});
            bs.push_back({"x+(" + t + ")", add(x, N)});
            bs.push_back({"sin(" + t + ")", sin(N)});
            bs.push_back({"(" + t + ")+I", add(N, I)});
            bs.push_back({"1/2+(" + t + ")/3*I", add(Q(1, 2), mul(Rational::from_mpq(rational_class(n, integer_class(3))), I))});
            bs.push_back({"x<(" + t + ")", Lt(x, N)});
        }
        CaseSet cs;
        cs.name = "G:boundary-integers";
        cs.n = bs.size();
        cs.counter_names = CN;
        cs.desc = [&](long long i) { return "boundary integer form " + bs[i].first; };
        cs.body = [&](long long i, Ctx &c) {
            c.eval();
            c.nontrivial();
            check_state(bs[i].second, bs[i].first, c);
        };
        run_cases(cs);
        R.counters["G:boundary_integer_forms"] = bs.size();
    }
    auto all = [](const Op &) { return true; };
    auto quick_l2 = [](const Op &o) { return o.arith || o.kind != BE; }; // two-argument functions only as outermost op of depth 1
    G.run_layer(1, all, true);
    G.run_dups();
    R.counters["G:states_depth<=1"] = G.SS.size();
    std::string bound = "general fragment: all states with <= 1 operation";
    if (!past_deadline()) {
        G.run_piecewise(1);
        G.run_layer(2, thorough ? std::function<bool(const Op &)>(all) : std::function<bool(const Op &)>(quick_l2), false);
        bound = std::string("general fragment (") + std::to_string(lv.size()) + " leaves, " + std::to_string(G.ops.size())
                + " operations): every transition into states with <= 2 operations" + (thorough ? "" : " (two-argument functions only at depth 1)")
                + ", And/Or/Xor of the first 60 relationals, Piecewise with conditions of depth <= 1";
    }
    uint64_t states = G.SS.size();
    if (thorough && !past_deadline()) {
        // arithmetic only, one level deeper
        Explorer A;
        A.tag = "A";
        A.ops = make_ops();
        Leaves al = {{"x", x},       {"y", y},           {"2", integer(2)}, {"-1", integer(-1)}, {"3", integer(3)},         {"1/2", Q(1, 2)},
                     {"-3/2", Q(-3, 2)}, {"I", I},       {"1+2I", CX(1, 1, 2, 1)}, {"0.5", real_double(0.5)}, {"-2.0", real_double(-2.0)}, {"pi", pi}};
        for (auto &l : al)
            A.add_state(l.second, l.first, 0);
        auto arith = [](const Op &o) { return o.arith; };
        A.run_layer(1, arith, true);
        A.run_layer(2, arith, true);
        A.run_dups();
        R.counters["A:states_depth<=2"] = A.SS.size();
        if (!past_deadline()) {
            A.run_layer(3, arith, false);
            bound += "; arithmetic fragment (12 leaves, add/sub/mul/div/pow/neg): every transition into states with <= 3 operations";
        }
        states += A.SS.size();
    }
    if (past_deadline())
        R.exhaustive = false;
    R.states = states;
    R.transitions = R.evaluations;
    R.bound_completed = bound;
    R.rule = "E1: BFS by number of API operations, states de-duplicated by an independent structural key; every transition result r is "
             "printed with str, re-parsed with parse, and compared with r (key and eq; trees containing doubles compared with doubles "
             "rendered to 15 significant digits); commutative calls are mirrored and Add/Mul nodes rebuilt from reversed arguments to check "
             "that equal values print equal strings; duplicate arrivals found while building the state set are re-checked. "
             "distinct_nontrivial = transitions whose result is a compound expression";
    R.assumptions = {"structural key (key.h) identifies equal expressions",
                     "expressions containing non-finite doubles (inf/nan produced by overflow) are outside the fragment: skipped and counted",
                     "printf %.15g is the reference rendering of a double to 15 significant digits; signed zeros are identified"};
    return R.finish();
}
