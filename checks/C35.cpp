// C35  refine and simplify preserve value under their assumptions -- E1 x assumption menu x witnesses (DESIGN 5 C35)
//
// States: every distinct expression whose shortest recipe over the leaves
// {x, y, 1, -1, 2, 3, 1/2, 1/3, 3/2, -1/2, 8, I, pi} with operations {add, mul, pow, max, min, abs, sign, floor,
// ceiling, conjugate, log, csc, sec, cot} has <= n operations (this contains (x^a)^b for all a,b of the
// alphabet, log(x^a), log(8), 1/csc(x), ...).  For every state and every pair of per-symbol assumptions,
// refine(e, A) and simplify(e, A) are executed on the real library; whenever the result is a different
// tree its value is compared with the value of e at EVERY witness assignment that satisfies A.
#include "checks/C34_assume.h"
using namespace verif;
using namespace a12;

enum { K_CALLS, K_UNCHANGED, K_CHANGED, K_REFUSED, K_W_EQUAL, K_W_EQUAL_EXACT, K_W_SKIP_UNDEC, K_W_SKIP_ILLCOND, K_W_CACHED,
       K_CHANGED_JUDGED, K_CHANGED_UNJUDGED, K_STATES_CLOSED, K_STATES_1SYM, K_STATES_2SYM, K_DUP_STATE, K_CONSTRUCT_REFUSED,
       K_DISTINCT_RESULTS, K_INCONSISTENT };
static const char *FN[] = {"refine", "simplify"};

static StateSet SS;
static AssumeTable AT;
static OpTable T;

static RCP<const Basic> transform(int f, const RCP<const Basic> &e, const Assumptions *A)
{
    return f == 0 ? refine(e, A) : simplify(e, A);
}

// 1 equal, 0 different (certain), -1 undecided (why: 'u' undecidable, 'i' ill-conditioned); exact=true if decided exactly
static int compare_at(const Basic &e, const Basic &r, const Bind &b, bool &exact, char &why, std::string &detail)
{
    exact = false;
    why = 'u';
    Env env = env_of(b);
    std::string w;
    int sv = same_value(e, r, env, w);
    if (sv == 1)
        return 1;
    XV xe = ex_eval(e, b), xr = ex_eval(r, b);
    if (xe.k == 1 && xr.k == 1) {
        exact = true;
        if (xe.g == xr.g) {
            if (sv == 0) { // numeric and exact evaluators disagree: judge nothing
                why = 'x';
                return -1;
            }
            return 1;
        }
        detail = "exact values " + gq_str(xe.g) + " vs " + gq_str(xr.g);
        return 0;
    }
    if (sv < 0) {
        detail = w;
        return -1;
    }
    // numeric difference: accept only if both values are stable under a 1e-27 relative perturbation of the witnesses
    Env e2 = env;
    if (b.wx >= 0)
        e2.sym["x"] = env.sym["x"] * mkc(1 + 1e-27Q, 0);
    if (b.wy >= 0)
        e2.sym["y"] = env.sym["y"] * mkc(1 - 0.7e-27Q, 0);
    Value a0 = refeval(e, env), a1 = refeval(e, e2), b0 = refeval(r, env), b1 = refeval(r, e2);
    if (!a0.ok || !a1.ok || !b0.ok || !b1.ok) {
        why = 'i';
        return -1;
    }
    rq s = fmaxq(fmaxq(a0.scale, a1.scale), fmaxq(b0.scale, b1.scale));
    if (!closeq(a0.v, a1.v, 1e-20Q, s) || !closeq(b0.v, b1.v, 1e-20Q, s)) {
        why = 'i';
        return -1;
    }
    // and the difference must be far above the comparison tolerance
    if (closeq(a0.v, b0.v, 1e-15Q, s)) {
        why = 'i';
        return -1;
    }
    detail = "values " + cstr(a0.v, 25) + " vs " + cstr(b0.v, 25);
    return 0;
}

static int node_count(const Basic &e)
{
    int n = 1;
    for (auto &a : e.get_args())
        n += node_count(*a);
    return n;
}
// smallest subterm whose own transformation changes its value at this witness
static void blame_scan(const RCP<const Basic> &e, int f, const Assumptions *A, const Bind &b, RCP<const Basic> &best, int &best_n)
{
    for (auto &a : e->get_args()) {
        blame_scan(a, f, A, b, best, best_n);
        RCP<const Basic> r;
        try {
            r = transform(f, a, A);
        } catch (std::exception &) {
            continue;
        }
        bool ex;
        char why;
        std::string d;
        if (compare_at(*a, *r, b, ex, why, d) == 0) {
            int n = node_count(*a);
            if (n < best_n) {
                best = a;
                best_n = n;
            }
        }
    }
}

static void check_expr(const RCP<const Basic> &e, const std::string &recipe, long long idx, Ctx &c)
{
    bool hx = false, hy = false, other = false;
    sym_scan(*e, hx, hy, other);
    c.count(hx && hy ? K_STATES_2SYM : (hx || hy) ? K_STATES_1SYM : K_STATES_CLOSED);
    std::string ke = key(*e);
    std::vector<int> none = {-1};
    int nax = hx ? NASSUME : 1, nay = hy ? NASSUME : 1;
    // distinct results of this state and their verdict per witness assignment
    std::map<std::string, int> rid;
    std::vector<RCP<const Basic>> results;
    std::map<std::tuple<int, int, int>, int> verdicts;
    std::set<std::string> reported;
    for (int f = 0; f < 2; f++)
        for (int ax = 0; ax < nax; ax++)
            for (int ay = 0; ay <= nay; ay++) {
                // ay == nay: extra variant "no Assumptions object" (nullptr), once per state
                bool nullA = ay == nay;
                if (nullA && ax != 0)
                    continue;
                const Assumptions *A = nullA ? nullptr : AT.get(ax, ay);
                int eay = nullA ? 0 : ay;
                const std::vector<int> &wx = hx ? menu()[ax].w : none;
                const std::vector<int> &wy = hy ? menu()[eay].w : none;
                RCP<const Basic> r;
                c.eval();
                c.count(K_CALLS);
                std::string astr = nullA ? "assumptions=nullptr" : assume_str(ax, eay, hx, hy);
                try {
                    r = transform(f, e, A);
                } catch (SymEngineException &x) {
                    c.count(K_REFUSED);
                    c.outcome(std::string(FN[f]) + " throws " + x.what());
                    continue;
                } catch (std::exception &x) {
                    c.violation(std::string(FN[f]) + ":std::exception:" + cls(*e, 1),
                                std::string(FN[f]) + "(" + sstr(e) + ") [" + recipe + "] under " + astr
                                    + " threw a non-library exception: " + x.what());
                    continue;
                }
                std::string kr = key(*r);
                if (kr == ke) {
                    c.count(K_UNCHANGED);
                    continue;
                }
                c.count(K_CHANGED);
                c.outcome(std::string(FN[f]) + ":" + tname(*e) + "->" + tname(*r));
                auto it = rid.find(kr);
                int id;
                if (it == rid.end()) {
                    id = results.size();
                    rid[kr] = id;
                    results.push_back(r);
                    c.count(K_DISTINCT_RESULTS);
                } else
                    id = it->second;
                bool judged = false, bad = false;
                for (size_t i = 0; i < wx.size() && !bad; i++)
                    for (size_t j = 0; j < wy.size() && !bad; j++) {
                        Bind b;
                        b.wx = wx[i];
                        b.wy = wy[j];
                        auto vk = std::make_tuple(id, b.wx, b.wy);
                        auto vit = verdicts.find(vk);
                        if (vit != verdicts.end() && vit->second != 0) {
                            c.count(K_W_CACHED);
                            if (vit->second == 1)
                                judged = true;
                            continue;
                        }
                        bool exact;
                        char why;
                        std::string detail;
                        int v = compare_at(*e, *r, b, exact, why, detail);
                        verdicts[vk] = v;
                        if (v == 1) {
                            judged = true;
                            c.count(exact ? K_W_EQUAL_EXACT : K_W_EQUAL);
                            continue;
                        }
                        if (v < 0) {
                            c.count(why == 'i' ? K_W_SKIP_ILLCOND : why == 'x' ? K_INCONSISTENT : K_W_SKIP_UNDEC);
                            continue;
                        }
                        judged = true;
                        bad = true;
                        RCP<const Basic> bl = e;
                        int bn = node_count(*e);
                        blame_scan(e, f, A, b, bl, bn);
                        RCP<const Basic> br = transform(f, bl, A);
                        std::string sig = std::string(FN[f]) + ":" + cls(*bl, 3) + "->" + cls(*br, 1);
                        if (reported.insert(sig + "|" + astr).second) {
                            std::string d = std::string(FN[f]) + "(" + sstr(e) + ") = " + sstr(r) + " under " + astr + " [recipe " + recipe
                                            + "], but at the satisfying assignment " + bind_str(b, hx, hy) + " the two differ: " + detail;
                            if (bl.get() != e.get())
                                d += "; smallest subterm whose value changes: " + sstr(bl) + " -> " + sstr(br);
                            c.violation(sig, d);
                        }
                    }
                if (judged) {
                    c.count(K_CHANGED_JUDGED);
                    c.nontrivial();
                } else
                    c.count(K_CHANGED_UNJUDGED);
            }
    if (idx % 499 == 0)
        c.sample("{\"state\":" + jstr(sstr(e)) + ",\"recipe\":" + jstr(recipe) + ",\"distinct_results\":" + std::to_string(results.size())
                 + (results.empty() ? "" : ",\"first_result\":" + jstr(sstr(results[0]))) + "}");
}

int main(int argc, char **argv)
{
    init(argc, argv, "C35");
    bool thorough = opts().thorough();
    menu();
    AT.build();
    RCP<const Basic> x = AT.x, y = AT.y;
    auto Q = [](long a, long b) { return Rational::from_two_ints(a, b); };
    std::vector<std::pair<std::string, RCP<const Basic>>> leaves
        = {{"x", x},        {"y", y},         {"1", integer(1)}, {"-1", integer(-1)}, {"2", integer(2)}, {"3", integer(3)},
           {"1/2", Q(1, 2)}, {"1/3", Q(1, 3)}, {"3/2", Q(3, 2)},  {"-1/2", Q(-1, 2)},  {"8", integer(8)}, {"I", I},
           {"pi", pi},
           // structured leaves: the direct functions and the reciprocals that simplify() rewrites into them, so that products whose
           // factors COLLIDE after the rewrite (sin(x) * 1/csc(x)) exist at depth 1 (added after seeded change C35 escaped)
           {"sin(x)", sin(x)}, {"cos(x)", cos(x)}, {"tan(x)", tan(x)}, {"1/csc(x)", div(one, csc(x))}, {"1/sec(x)", div(one, sec(x))},
           {"1/cot(x)", div(one, cot(x))}};
    T.bin_names = {"add", "mul", "pow", "max", "min"};
    T.un_names = {"abs", "sign", "floor", "ceiling", "conjugate", "log", "csc", "sec", "cot"};
    T.bin = [](int op, const RCP<const Basic> &a, const RCP<const Basic> &b) -> RCP<const Basic> {
        switch (op) {
            case 0:
                return add(a, b);
            case 1:
                return mul(a, b);
            case 2: {
                // alphabet restriction: no towers such as 8**(8**8) (a 50-million-bit integer)
                if (is_a_Number(*b) && !is_a<Symbol>(*a)) {
                    integer_class n(0);
                    if (is_a<Integer>(*b))
                        n = down_cast<const Integer &>(*b).as_integer_class();
                    else if (is_a<Rational>(*b))
                        n = get_num(down_cast<const Rational &>(*b).as_rational_class());
                    if (n > 64 || n < -64)
                        throw std::runtime_error("driver: exponent outside the alphabet");
                }
                return pow(a, b);
            }
            case 3:
                return max({a, b});
            default:
                return min({a, b});
        }
    };
    T.un = [](int op, const RCP<const Basic> &a) -> RCP<const Basic> {
        switch (op) {
            case 0:
                return abs(a);
            case 1:
                return sign(a);
            case 2:
                return floor(a);
            case 3:
                return ceiling(a);
            case 4:
                return conjugate(a);
            case 5:
                return log(a);
            case 6:
                return csc(a);
            case 7:
                return sec(a);
            default:
                return cot(a);
        }
    };
    for (auto &l : leaves)
        SS.add(l.second, l.first, 0);
    int n0 = SS.size();
    std::vector<Trans> tr;
    gen_trans(T, 0, n0, 0, n0, true, tr);
    build_layer(T, SS, tr, "depth1", 1);
    int n1 = SS.size();
    tr.clear();
    gen_trans(T, n0, n1, 0, n0, true, tr);
    gen_trans(T, 0, n0, n0, n1, false, tr);
    build_layer(T, SS, tr, "depth2", 2);
    int n2 = SS.size();

    std::vector<std::string> cn = {"transform_calls",
                                   "results_unchanged(same tree)",
                                   "results_changed",
                                   "calls_refused(library exception)",
                                   "witness_points_equal(numeric)",
                                   "witness_points_equal(exact)",
                                   "witness_points_skipped(pole/non-finite/near discontinuity)",
                                   "witness_points_skipped(ill-conditioned)",
                                   "witness_points_reused(same result tree, same witness)",
                                   "changed_results_judged(>=1 witness decided)",
                                   "changed_results_unjudged",
                                   "states_without_symbols",
                                   "states_with_one_symbol",
                                   "states_with_two_symbols",
                                   "depth3_transitions_landing_on_checked_state",
                                   "depth3_constructor_refused",
                                   "distinct_result_trees",
                                   "witness_points_skipped(exact and numeric evaluators disagree)"};
    Run &R = run();
    {
        CaseSet cs;
        cs.name = "check:depth<=2";
        cs.n = n2;
        cs.counter_names = cn;
        cs.hang_s = 60;
        cs.desc = [&](long long i) { return "refine/simplify under all assumptions on state " + SS.S[i].recipe; };
        cs.crash_sig = [&](long long i, const std::string &oc) { return "transform:" + oc + ":" + cls(*SS.S[i].e, 1); };
        cs.body = [&](long long i, Ctx &c) { check_expr(SS.S[i].e, SS.S[i].recipe, i, c); };
        run_cases(cs);
    }
    std::string bound = "all states with recipes of <= 2 operations: |S0|=" + std::to_string(n0) + " |S<=1|=" + std::to_string(n1)
                        + " |S<=2|=" + std::to_string(n2);
    R.counters["states_depth0"] = n0;
    R.counters["states_depth<=1"] = n1;
    R.counters["states_depth<=2"] = n2;
    uint64_t nstates = n2;
    if (thorough && !past_deadline()) {
        // depth 3 (not materialised): every unary op on a depth-2 state and every binary op between two depth-1 states
        tr.clear();
        int nb = T.bin_names.size(), nu = T.un_names.size();
        for (int a = n1; a < n2; a++)
            for (int op = 0; op < nu; op++)
                tr.push_back(Trans{nb + op, a, a});
        for (int a = n0; a < n1; a++)
            for (int b = n0; b < n1; b++)
                for (int op = 0; op < nb; op++)
                    tr.push_back(Trans{op, a, b});
        CaseSet cs;
        cs.name = "check:depth3";
        cs.n = tr.size();
        cs.counter_names = cn;
        cs.hang_s = 20;
        cs.desc = [&](long long i) { return "refine/simplify under all assumptions on state " + trans_str(T, SS, tr[i]); };
        cs.crash_sig = [&](long long i, const std::string &oc) {
            const Trans &t = tr[i];
            int nb = T.bin_names.size();
            std::string o = (t.op < nb ? T.bin_names[t.op] : T.un_names[t.op - nb]) + "(" + cls(*SS.S[t.a].e, 1);
            if (t.op < nb)
                o += "," + cls(*SS.S[t.b].e, 1);
            return "construct+transform:" + oc + ":" + o + ")";
        };
        cs.body = [&](long long i, Ctx &c) {
            RCP<const Basic> e;
            double t_start = now();
            struct Tm {
                double t0;
                long long i;
                ~Tm()
                {
                    if (getenv("VERIF_C35_TIMING") && now() - t0 > 0.5)
                        fprintf(stderr, "SLOW case %lld %.2fs\n", i, now() - t0);
                }
            } tm{t_start, i};
            try {
                e = apply_trans(T, SS, tr[i]);
            } catch (std::exception &) {
                c.count(K_CONSTRUCT_REFUSED);
                return;
            }
            if (SS.idx.count(key(*e))) {
                c.count(K_DUP_STATE);
                return;
            }
            check_expr(e, trans_str(T, SS, tr[i]), i, c);
        };
        run_cases(cs);
        nstates += tr.size();
        if (R.exhaustive)
            bound += "; plus all 3-operation recipes of the forms unary(a), a of depth 2, and op(a,b), a,b of depth 1: "
                     + std::to_string(tr.size()) + " transitions";
    }
    R.counters["duplicate_arrivals(recipes merged by structural key)"] = SS.duplicate_arrivals;
    R.states = nstates;
    R.transitions = R.evaluations;
    R.bound_completed = bound + "; x 13 assumptions per symbol (169 pairs, + nullptr) x {refine, simplify}; 6 witnesses per assumption";
    R.rule = "E1: leaves {x,y,1,-1,2,3,1/2,1/3,3/2,-1/2,8,I,pi}; ops add,mul,pow,max,min,abs,sign,floor,ceiling,conjugate,log,csc,sec,cot; "
             "states de-duplicated by structural key. Per state and per pair of per-symbol assumptions {none,complex,real,rational,integer,"
             ">0,>=0,<0,<=0,!=0,=0,integer&>0,real&!=0}: r = refine(e,A), simplify(e,A); if r is a different tree, RefEval(r) == RefEval(e) "
             "(113-bit, tolerance 1e-25 x scale, two-sided on cuts) or exact Gaussian-rational equality at every witness assignment (6 values "
             "per assumption). A numeric difference counts only when both values are stable under a 1e-27 perturbation and differ by > 1e-15. "
             "distinct_nontrivial = changed results judged at >= 1 witness";
    R.assumptions = {"libquadmath elementary functions", "RefEval recursion (core/refeval.h)", "principal branch with arg(negative real)=+pi",
                     "unconstrained symbols range over the complex numbers", "Max/Min of non-real values have no reference value (skipped)"};
    return R.finish();
}
