// a13_harness.h -- the three sub-checks shared by C13 (lambda) and C14 (LLVM), generic over a
// traits class TR describing the evaluator under test:
//   TR::V            visitor type            TR::T   scalar type (float/double/long double)
//   TR::tname()      "lambda-double", "llvm-float", ...
//   TR::num()        NumCfg of T
//   TR::nvariants()  number of init configurations (cse on/off [x opt level])
//   TR::vname(k), TR::vcse(k)
//   TR::init(V&, inputs, outputs, k)
//   TR::call(V&, T *outs, const T *inps)
//   TR::single(inputs, expr, k, inps)   value through the single-output API (fresh visitor)
//   TR::reload(V&)   unique_ptr<V> holding loads(dumps()) in a NEW visitor (LLVM) or nullptr (lambda)
#ifndef A13_HARNESS_H
#define A13_HARNESS_H
#include "a13_numeric.h"

namespace a13
{
static const double GX[3] = {-1.5, 0.5, 2.0};
static const double GY[3] = {-0.75, 1.0, 3.0};
static const double GZ = 0.25, GX0 = 7.0;

inline Point grid_point(int g)
{
    return Point{{"x", (rq)GX[g / 3]}, {"y", (rq)GY[g % 3]}, {"z", (rq)GZ}, {"x0", (rq)GX0}};
}
inline std::string point_str(int g)
{
    char b[96];
    snprintf(b, sizeof b, "(x=%g, y=%g)", GX[g / 3], GY[g % 3]);
    return b;
}
inline rq sym_value(const Point &p, const Basic &s)
{
    const std::string &n = down_cast<const Symbol &>(s).get_name();
    for (auto &kv : p)
        if (kv.first == n)
            return kv.second;
    return 0;
}

enum {
    K_TERMS_JUDGED,
    K_POINTS_COMPARED,
    K_SKIP0, // SK_N slots
    K_REFUSED = K_SKIP0 + SK_N,
    K_ROUNDTRIP,
    K_TUPLE_OUT,
    K_HIST_OK,
    K_HIST_THROW,
    K_SINGLE,
    K_BOOL_POINTS,
    K_EXACT_POINTS,
    K_CONSTRUCT_REFUSED,
    K_NCOUNT
};
inline std::vector<std::string> counter_names()
{
    std::vector<std::string> n(K_NCOUNT);
    n[K_TERMS_JUDGED] = "term_x_variant_judged_at_some_point";
    n[K_POINTS_COMPARED] = "points_compared_with_reference";
    for (int i = 0; i < SK_N; i++)
        n[K_SKIP0 + i] = SKIPNAME[i];
    n[K_REFUSED] = "init_refused(library exception)";
    n[K_ROUNDTRIP] = "dumps_loads_roundtrips_bit_compared";
    n[K_TUPLE_OUT] = "tuple_outputs_compared";
    n[K_HIST_OK] = "histories_compared_bitwise_with_fresh_visitor";
    n[K_HIST_THROW] = "histories_ending_in_failing_init_(both_throw)";
    n[K_SINGLE] = "single_output_api_bit_compared";
    n[K_BOOL_POINTS] = "points_with_boolean_reference";
    n[K_EXACT_POINTS] = "points_with_exact_reference(bit-exact demanded)";
    n[K_CONSTRUCT_REFUSED] = "level2_constructor_refused(exception)";
    return n;
}

template <class T>
inline std::string tstr(T v)
{
    char b[64];
    snprintf(b, sizeof b, "%.21Lg", (long double)v);
    return b;
}
template <class T>
inline bool same_bits(T a, T b)
{
    if (std::isnan(a) && std::isnan(b))
        return true;
    if (a == 0 && b == 0)
        return std::signbit(a) == std::signbit(b);
    return a == b;
}

struct InitSpec {
    std::string name;
    vec_basic inputs, outputs;
    int variant;
};

template <class TR>
struct EvalChecks {
    typedef typename TR::V V;
    typedef typename TR::T T;

    static void fill_inputs(const vec_basic &inputs, int g, std::vector<T> &in)
    {
        Point p = grid_point(g);
        in.clear();
        for (auto &s : inputs)
            in.push_back((T)sym_value(p, *s));
        in.push_back((T)0); // never empty
    }

    // judge outputs[j] evaluated to got at grid point g
    static void judge(Ctx &c, const Basic &e, int g, T got, const NV &ref, const std::string &sigprefix, const std::string &what,
                      bool &judged, bool &violated)
    {
        if (!ref.ok) {
            c.count(K_SKIP0 + skip_class(ref.why));
            return;
        }
        judged = true;
        c.count(K_POINTS_COMPARED);
        if (ref.isbool)
            c.count(K_BOOL_POINTS);
        else if (ref.err == 0)
            c.count(K_EXACT_POINTS);
        if (!value_matches((rq)got, ref) && !violated) {
            violated = true;
            c.violation(sigprefix + skel(e, 2),
                        what + " at " + point_str(g) + ": got " + tstr(got) + ", reference " + qstr(ref.v, 25) + " (allowed error "
                            + qstr(4 * ref.err, 4) + ")");
        }
    }

    // ------------------------------------------------------------ A. single terms
    // cases: every state of the pool P (all variants), followed by every recipe of `deep` (terms one
    // level above the pool, built inside the worker; only the variants in variants_deep)
    static void run_terms(const TermPool &P, const std::string &name, const std::vector<int> &variants_states, const std::vector<Recipe> &deep,
                          const std::vector<int> &variants_deep, bool include_states = true)
    {
        // case index -> state: values first, then booleans, then deep recipes
        const long long nv = P.V.size(), nb = P.B.size(), ns = nv + nb;
        RCP<const Basic> x = symbol("x"), y = symbol("y");
        vec_basic inputs = {x, y};
        CaseSet cs;
        cs.name = name;
        cs.n = ns + (long long)deep.size();
        cs.counter_names = counter_names();
        auto st = [&](long long i) -> const State & { return i < nv ? P.V.S[i] : P.B.S[i - nv]; };
        auto rec = [&](long long i) { return i < ns ? st(i).recipe : P.rname(deep[i - ns]); };
        cs.desc = [&](long long i) { return TR::tname() + " term " + rec(i); };
        cs.hang_s = TR::hang_s();
        cs.crash_sig = [&](long long i, const std::string &oc) {
            if (i < ns)
                return TR::tname() + ":term:" + oc + ":" + skel(*st(i).e, 1);
            const Recipe &r = deep[i - ns];
            return TR::tname() + ":term:" + oc + ":recipe-kind" + std::to_string((int)r.kind) + "-op" + std::to_string(r.op);
        };
        cs.body = [&](long long i, Ctx &c) {
            State S;
            if (i < ns && !include_states)
                return;
            if (i < ns)
                S = st(i);
            else {
                try {
                    S.e = P.build(deep[i - ns]);
                } catch (SymEngineException &) {
                    c.count(K_CONSTRUCT_REFUSED);
                    return;
                }
                S.recipe = rec(i);
                S.depth = 1000;
            }
            const Basic &e = *S.e;
            NV ref[9];
            for (int g = 0; g < 9; g++)
                ref[g] = real_eval(e, grid_point(g), TR::num());
            bool dep = depends_on_symbols(e);
            std::vector<int> vars;
            vars = i < ns ? variants_states : variants_deep;
            std::string oc = type_code_name(e.get_type_code());
            bool any_judged = false;
            for (int k : vars) {
                c.eval();
                V v;
                try {
                    TR::init(v, inputs, {S.e}, k);
                } catch (SymEngineException &ex) {
                    c.count(K_REFUSED);
                    c.outcome(oc + ":refused:" + std::string(ex.what()).substr(0, 40));
                    continue;
                }
                bool judged = false, violated = false;
                std::vector<T> in;
                std::unique_ptr<V> re = TR::reload(v);
                if (re)
                    c.count(K_ROUNDTRIP);
                for (int g = 0; g < 9; g++) {
                    fill_inputs(inputs, g, in);
                    T out[3] = {(T)-777, (T)-777, (T)-777};
                    TR::call(v, out + 1, in.data());
                    if (out[0] != (T)-777 || out[2] != (T)-777) {
                        c.violation(TR::tname() + ":term:writes-outside-output:" + skel(e, 1), "call() wrote outside outs[0..1) for " + S.recipe);
                        break;
                    }
                    judge(c, e, g, out[1], ref[g], TR::tname() + ":term:value-mismatch:cse=" + (TR::vcse(k) ? "1:" : "0:"),
                          TR::tname() + "[" + TR::vname(k) + "] of " + S.recipe + " = " + sstr(S.e), judged, violated);
                    if (re) {
                        T o2[3] = {(T)-777, (T)-777, (T)-777};
                        TR::call(*re, o2 + 1, in.data());
                        if (!same_bits(o2[1], out[1]) || o2[0] != (T)-777 || o2[2] != (T)-777)
                            c.violation(TR::tname() + ":term:dumps-loads-differs:" + skel(e, 1),
                                        "reloaded function gives " + tstr(o2[1]) + " but the original " + tstr(out[1]) + " for " + S.recipe + " ["
                                            + TR::vname(k) + "] at " + point_str(g));
                    }
                    if (k == vars[0] && g == 4) {
                        c.count(K_SINGLE);
                        T s1 = TR::single(inputs, e, k, in.data());
                        if (!same_bits(s1, out[1]))
                            c.violation(TR::tname() + ":term:single-output-api-differs:" + skel(e, 1),
                                        "init(x, b)/call(vec) gives " + tstr(s1) + " but the vector API gives " + tstr(out[1]) + " for " + S.recipe);
                    }
                }
                if (judged) {
                    c.count(K_TERMS_JUDGED);
                    any_judged = true;
                }
            }
            int nj = 0;
            for (int g = 0; g < 9; g++)
                nj += ref[g].ok;
            c.outcome(oc + (nj == 9 ? ":all" : nj ? ":some" : ":none"));
            if (any_judged && dep)
                c.nontrivial();
            if (i % 4001 == 0)
                c.sample("{\"evaluator\":" + jstr(TR::tname()) + ",\"term\":" + jstr(S.recipe) + ",\"expr\":" + jstr(sstr(S.e))
                         + ",\"judged_points\":" + std::to_string(nj) + "}");
        };
        run_cases(cs);
    }

    // ------------------------------------------------------------ B. output tuples
    static vec_basic tuple_pool()
    {
        RCP<const Basic> x = symbol("x"), y = symbol("y");
        RCP<const Basic> s = sin(x), xy = mul(x, y), q = add(pow(xy, integer(2)), integer(1));
        return {s,
                add(s, y),
                mul(exp(s), y),
                q,
                sqrt(q),
                sub(x, y),
                sub(y, x),
                div(integer(1), sub(x, y)),
                mkpw2(s, Lt(x, y), xy),
                Lt(s, xy),
                x,
                add(add(cos(xy), xy), integer(2))};
    }
    static std::vector<std::pair<std::string, vec_basic>> input_orders()
    {
        RCP<const Basic> x = symbol("x"), y = symbol("y"), x0 = symbol("x0");
        return {{"x,y", {x, y}}, {"y,x", {y, x}}, {"x0,x,y", {x0, x, y}}};
    }
    static void run_tuples(const std::string &name, int maxlen, const std::vector<int> &variants)
    {
        vec_basic pool = tuple_pool();
        auto orders = input_orders();
        const long long np = pool.size();
        std::vector<long long> off = {0};
        long long cnt = 1; // the empty tuple
        for (int l = 1; l <= maxlen; l++) {
            off.push_back(cnt);
            long long m = 1;
            for (int j = 0; j < l; j++)
                m *= np;
            cnt += m;
        }
        auto decode = [&](long long t) {
            std::vector<int> idx;
            if (t == 0)
                return idx;
            int l = maxlen;
            while (off[l] > t)
                l--;
            long long r = t - off[l];
            for (int j = 0; j < l; j++) {
                idx.push_back(r % np);
                r /= np;
            }
            std::reverse(idx.begin(), idx.end());
            return idx;
        };
        const long long no = orders.size();
        CaseSet cs;
        cs.name = name;
        cs.n = cnt * no;
        cs.counter_names = counter_names();
        auto tname = [&](long long i) {
            std::string s = "outputs [";
            for (int j : decode(i / no))
                s += "#" + std::to_string(j) + "=" + sstr(pool[j]) + "; ";
            return s + "] inputs [" + orders[i % no].first + "]";
        };
        cs.desc = [&](long long i) { return TR::tname() + " " + tname(i); };
        cs.hang_s = TR::hang_s();
        cs.crash_sig = [&](long long i, const std::string &oc) { return TR::tname() + ":tuple:" + oc + ":inputs=" + orders[i % no].first; };
        // reference values per pool expression and point
        std::vector<std::array<NV, 9>> ref(np);
        for (int j = 0; j < np; j++)
            for (int g = 0; g < 9; g++)
                ref[j][g] = real_eval(*pool[j], grid_point(g), TR::num());
        cs.body = [&](long long i, Ctx &c) {
            std::vector<int> idx = decode(i / no);
            const auto &ord = orders[i % no];
            vec_basic outs;
            for (int j : idx)
                outs.push_back(pool[j]);
            bool shared = false;
            for (size_t a = 0; a < idx.size(); a++)
                for (size_t b = a + 1; b < idx.size(); b++)
                    if (idx[a] != idx[b])
                        shared = true;
            if (shared)
                c.nontrivial();
            for (int k : variants) {
                c.eval();
                V v;
                try {
                    TR::init(v, ord.second, outs, k);
                } catch (SymEngineException &ex) {
                    c.count(K_REFUSED);
                    c.outcome(std::string("tuple:refused:") + std::string(ex.what()).substr(0, 40));
                    c.violation(TR::tname() + ":tuple:init-throws:cse=" + (TR::vcse(k) ? "1" : "0") + ":inputs=" + ord.first,
                                "init threw '" + std::string(ex.what()) + "' for " + tname(i) + " [" + TR::vname(k) + "]");
                    continue;
                }
                bool violated = false, judged = false;
                std::vector<T> in;
                std::unique_ptr<V> re = TR::reload(v);
                if (re)
                    c.count(K_ROUNDTRIP);
                for (int g = 0; g < 9 && !violated; g++) {
                    fill_inputs(ord.second, g, in);
                    std::vector<T> out(idx.size() + 2, (T)-777);
                    TR::call(v, out.data() + 1, in.data());
                    if (out[0] != (T)-777 || out.back() != (T)-777) {
                        c.violation(TR::tname() + ":tuple:writes-outside-output", "call() wrote outside outs[0..n) for " + tname(i));
                        break;
                    }
                    for (size_t j = 0; j < idx.size(); j++) {
                        c.count(K_TUPLE_OUT);
                        judge(c, *pool[idx[j]], g, out[j + 1], ref[idx[j]][g],
                              TR::tname() + ":tuple:value-mismatch:cse=" + (TR::vcse(k) ? "1" : "0") + ":inputs=" + ord.first + ":",
                              TR::tname() + "[" + TR::vname(k) + "] output " + std::to_string(j) + " of " + tname(i), judged, violated);
                    }
                    if (re && !violated) {
                        std::vector<T> o2(idx.size() + 2, (T)-777);
                        TR::call(*re, o2.data() + 1, in.data());
                        for (size_t j = 0; j < o2.size(); j++)
                            if (!same_bits(o2[j], out[j])) {
                                c.violation(TR::tname() + ":tuple:dumps-loads-differs",
                                            "reloaded function differs in output slot " + std::to_string((int)j - 1) + " for " + tname(i) + " [" + TR::vname(k) + "]");
                                break;
                            }
                    }
                }
                c.outcome("tuple:len" + std::to_string(idx.size()) + (violated ? ":bad" : judged ? ":ok" : ":unjudged"));
            }
            if (i % 997 == 0)
                c.sample("{\"evaluator\":" + jstr(TR::tname()) + ",\"tuple\":" + jstr(tname(i)) + "}");
        };
        run_cases(cs);
    }

    // ------------------------------------------------------------ C. re-initialisation histories
    static std::vector<InitSpec> menu()
    {
        RCP<const Basic> x = symbol("x"), y = symbol("y"), z = symbol("z"), x0 = symbol("x0");
        RCP<const Basic> s = sin(x), xy = mul(x, y);
        int nv = TR::nvariants();
        // variant picks: cse-off / cse-on variants (for LLVM they also rotate the optimisation level)
        std::vector<int> off, on;
        for (int k = 0; k < nv; k++)
            (TR::vcse(k) ? on : off).push_back(k);
        auto OFF = [&](int i) { return off[i % off.size()]; };
        auto ON = [&](int i) { return on[i % on.size()]; };
        std::vector<InitSpec> m;
        m.push_back({"A:[x,y]->[x+y] plain", {x, y}, {add(x, y)}, OFF(0)});
        m.push_back({"B:[x,y]->[sin(x)*y, sin(x)+y] cse", {x, y}, {mul(s, y), add(s, y)}, ON(0)});
        m.push_back({"C:[y,x]->[x-y] plain", {y, x}, {sub(x, y)}, OFF(1)});
        m.push_back({"D:[x,y]->5 outputs, 3 shared subexpressions, cse",
                     {x, y},
                     {exp(add(s, y)), add(s, y), cos(xy), pow(xy, integer(2)), add(xy, s)},
                     ON(1)});
        m.push_back({"E:[x]->[x*x+1] cse (nothing to share)", {x}, {add(mul(x, x), integer(1))}, ON(2)});
        m.push_back({"F:[x]->[x+z] plain, z unknown (must throw)", {x}, {add(x, z)}, OFF(2)});
        m.push_back({"G:[x,y]->[sin(x)*y, sin(x)+z] cse, z unknown (must throw)", {x, y}, {mul(s, y), add(s, z)}, ON(3)});
        m.push_back({"H:[x,y]->[x0+y] plain, x0 unknown (must throw)", {x, y}, {add(x0, y)}, OFF(3)});
        m.push_back({"I:[x,y]->[y, x, 2] plain", {x, y}, {y, x, integer(2)}, OFF(0)});
        m.push_back({"J:[x,y]->[Piecewise, Lt] cse", {x, y}, {mkpw2(s, Lt(x, y), add(s, xy)), Lt(s, xy)}, ON(0)});
        return m;
    }
    static void run_histories(const std::string &name, int depth)
    {
        std::vector<InitSpec> M = menu();
        const long long nm = M.size();
        std::vector<long long> off = {0, 0};
        long long cnt = 0;
        for (int l = 1; l <= depth; l++) {
            long long m = 1;
            for (int j = 0; j < l; j++)
                m *= nm;
            off.push_back(off.back() + m);
            cnt += m;
        }
        auto decode = [&](long long t) {
            int l = 1;
            while (off[l + 1] <= t)
                l++;
            long long r = t - off[l];
            std::vector<int> h;
            for (int j = 0; j < l; j++) {
                h.push_back(r % nm);
                r /= nm;
            }
            std::reverse(h.begin(), h.end());
            return h;
        };
        // which menu entries throw on a fresh visitor is measured, not assumed
        CaseSet cs;
        cs.name = name;
        cs.n = cnt;
        cs.counter_names = counter_names();
        auto hname = [&](long long i) {
            std::string s;
            for (int j : decode(i))
                s += (s.empty() ? "" : " ; ") + M[j].name;
            return s;
        };
        cs.desc = [&](long long i) { return TR::tname() + " history: " + hname(i); };
        cs.crash_sig = [&](long long i, const std::string &oc) {
            std::vector<int> h = decode(i);
            bool fail_before = false;
            for (size_t j = 0; j + 1 < h.size(); j++)
                if (M[h[j]].name.find("must throw") != std::string::npos)
                    fail_before = true;
            return TR::tname() + ":history:" + oc + (fail_before ? ":after-a-failing-init" : h.size() > 1 ? ":after-successful-inits" : ":fresh");
        };
        const int MAXOUT = 8;
        auto work = [&](long long i, Ctx &c) {
            std::vector<int> h = decode(i);
            V reused;
            bool threw = false;
            std::string what;
            int nfail = 0;
            for (size_t j = 0; j < h.size(); j++) {
                const InitSpec &s = M[h[j]];
                threw = false;
                try {
                    TR::init(reused, s.inputs, s.outputs, s.variant);
                } catch (SymEngineException &ex) {
                    threw = true;
                    what = ex.what();
                    if (j + 1 < h.size())
                        nfail++;
                }
            }
            const InitSpec &L = M[h.back()];
            V fresh;
            bool fthrew = false;
            std::string fwhat;
            try {
                TR::init(fresh, L.inputs, L.outputs, L.variant);
            } catch (SymEngineException &ex) {
                fthrew = true;
                fwhat = ex.what();
            }
            std::string last = L.name.substr(0, 1);
            if (threw != fthrew) {
                c.outcome("history:exception-mismatch");
                c.violation(TR::tname() + ":history:" + (fthrew ? "init-accepted-but-fresh-visitor-throws" : "init-throws-but-fresh-visitor-accepts") + ":last="
                                + last,
                            "after [" + hname(i) + "] the last init " + (threw ? "threw '" + what + "'" : "succeeded") + " but on a fresh visitor it "
                                + (fthrew ? "throws '" + fwhat + "'" : "succeeds"));
                return;
            }
            if (threw) {
                c.count(K_HIST_THROW);
                c.outcome("history:both-throw");
                return;
            }
            c.count(K_HIST_OK);
            std::vector<T> in;
            for (int g = 0; g < 9; g++) {
                fill_inputs(L.inputs, g, in);
                std::vector<T> o1(MAXOUT, (T)-777), o2(MAXOUT, (T)-777);
                TR::call(reused, o1.data() + 1, in.data());
                TR::call(fresh, o2.data() + 1, in.data());
                for (int j = 0; j < MAXOUT; j++)
                    if (!same_bits(o1[j], o2[j])) {
                        c.outcome("history:differs");
                        c.violation(TR::tname() + ":history:reused-visitor-differs-from-fresh:last=" + last + (nfail ? ":after-a-failing-init" : ""),
                                    "after [" + hname(i) + "] output slot " + std::to_string(j - 1) + " at " + point_str(g) + " is " + tstr(o1[j])
                                        + " but a fresh visitor gives " + tstr(o2[j]));
                        return;
                    }
            }
            c.outcome("history:identical:last=" + last + ":len" + std::to_string(h.size()) + ":fails" + std::to_string(nfail));
            if (i % 211 == 0)
                c.sample("{\"evaluator\":" + jstr(TR::tname()) + ",\"history\":" + jstr(hname(i)) + ",\"result\":\"bit-identical to fresh visitor\"}");
        };
        cs.body = [&](long long i, Ctx &c) {
            // counted here (not in the possibly crashing child) so that the totals are deterministic
            size_t len = decode(i).size();
            c.eval(len);
            if (len > 1)
                c.nontrivial();
            if (!TR::fragile()) {
                work(i, c);
                return;
            }
            // a failing init may corrupt the heap of the process (that is the defect): run every history in a
            // process of its own so that the damage cannot leak into later cases of this worker
            static bool warmed = false;
            if (!warmed) {
                // one-time initialisation of the JIT happens here, in the worker, so that the per-history children inherit it
                warmed = true;
                try {
                    V w;
                    TR::init(w, {symbol("x")}, {symbol("x")}, 0);
                } catch (...) {
                }
                try { // ... and the first exception ever thrown (the unwinder indexes the frame tables of the whole binary once)
                    V w;
                    TR::init(w, {symbol("x")}, {symbol("warmup_unknown_symbol")}, 0);
                } catch (...) {
                }
            }
            fflush(c.out);
            pid_t p = fork();
            if (p == 0) {
                int nul = open("/dev/null", O_WRONLY);
                dup2(nul, 1);
                dup2(nul, 2);
                work(i, c);
                fflush(c.out);
                _exit(0);
            }
            int stt = 0;
            double t0 = now();
            std::string oc;
            while (true) {
                pid_t r = waitpid(p, &stt, WNOHANG);
                if (r == p)
                    break;
                if (now() - t0 > 120) {
                    kill(p, SIGKILL);
                    waitpid(p, &stt, 0);
                    oc = "hang";
                    break;
                }
                usleep(500);
            }
            if (oc.empty() && WIFSIGNALED(stt))
                oc = std::string("crash:") + strsignal(WTERMSIG(stt));
            else if (oc.empty() && WIFEXITED(stt) && WEXITSTATUS(stt) != 0)
                oc = "exit:" + std::to_string(WEXITSTATUS(stt));
            if (!oc.empty()) {
                c.outcome("history:" + oc);
                c.violation(cs.crash_sig(i, oc), oc + " in " + cs.desc(i));
            }
        };
        cs.hang_s = 200;
        run_cases(cs);
    }
};

// ------------------------------------------------------------------ leaf alphabets
inline PoolCfg pool_cfg(int size)
{
    RCP<const Basic> x = symbol("x"), y = symbol("y");
    auto R = [](long a, long b) { return RCP<const Basic>(Rational::from_two_ints(a, b)); };
    PoolCfg c;
    // ordered simplest first; size -2 (3 leaves), -1 (4 leaves), 0 (5 leaves) .. 3 (16 leaves)
    c.leavesV = {{"x", x}, {"y", y}, {"2", integer(2)}};
    if (size >= -1)
        c.leavesV.push_back({"-1/2", R(-1, 2)});
    if (size >= 0)
        c.leavesV.push_back({"2.5", real_double(2.5)});
    if (size >= 1) {
        c.leavesV.push_back({"-1", integer(-1)});
        c.leavesV.push_back({"pi", pi});
        c.leavesV.push_back({"1/3", R(1, 3)});
        c.leavesV.push_back({"1", integer(1)});
        c.leavesV.push_back({"0", integer(0)});
    }
    if (size >= 2) {
        c.leavesV.push_back({"3", integer(3)});
        c.leavesV.push_back({"E", E});
        c.leavesV.push_back({"-2", integer(-2)});
    }
    if (size >= 3) {
        c.leavesV.push_back({"3/2", R(3, 2)});
        c.leavesV.push_back({"-0.75", real_double(-0.75)});
        c.leavesV.push_back({"EulerGamma", EulerGamma});
    }
    c.leavesB = {{"True", boolTrue}, {"False", boolFalse}, {"x<y", Lt(x, y)}, {"x<=2", Le(x, integer(2))}, {"y==1", Eq(y, integer(1))}};
    return c;
}

} // namespace a13
#endif
