// C13  Lambda double callbacks compute the expression's value -- E1 outputs + E2 re-initialisation
// histories (DESIGN 5 C13).  Oracle: RealEval (a13_numeric.h), an independent real-domain evaluator
// in 113-bit arithmetic with a running double-precision error budget.
#include "common.h"
#include "checks/a13_harness.h"
using namespace a13;

struct LambdaTraits {
    typedef LambdaRealDoubleVisitor V;
    typedef double T;
    static std::string tname()
    {
        return "lambda-double";
    }
    static NumCfg num()
    {
        return CFG_DOUBLE;
    }
    static int nvariants()
    {
        return 2;
    }
    static std::string vname(int k)
    {
        return k ? "cse=on" : "cse=off";
    }
    static bool vcse(int k)
    {
        return k == 1;
    }
    static void init(V &v, const vec_basic &in, const vec_basic &out, int k)
    {
        v.init(in, out, k == 1);
    }
    static void call(V &v, T *outs, const T *inps)
    {
        v.call(outs, inps);
    }
    static T single(const vec_basic &in, const Basic &e, int k, const T *inps)
    {
        V v;
        v.init(in, e, k == 1);
        std::vector<T> iv(inps, inps + in.size());
        return v.call(iv);
    }
    static std::unique_ptr<V> reload(V &)
    {
        return nullptr;
    }
    static bool fragile()
    {
        return false;
    }
    static double hang_s()
    {
        return 60;
    }
};

int main(int argc, char **argv)
{
    init(argc, argv, "C13");
    bool thorough = opts().thorough();
    typedef EvalChecks<LambdaTraits> EC;
    Run &R = run();

    // histories and tuples first (cheap, and they carry the state-related part of the property)
    EC::run_histories("histories", thorough ? 4 : 3);
    phase_log("C13", "histories");
    EC::run_tuples("tuples", thorough ? 4 : 3, {0, 1});
    phase_log("C13", "tuples");

    PoolCfg pc = pool_cfg(thorough ? 3 : 1);
    pc.maxn = 1;
    TermPool P;
    build_pool(P, pc, "pool");
    std::vector<Recipe> deep = P.level_recipes(pc, 2);
    phase_log("C13", "pool " + std::to_string(P.V.size()) + "+" + std::to_string(P.B.size()) + " states, " + std::to_string(deep.size()) + " level-2 recipes");
    EC::run_terms(P, "terms", {0, 1}, deep, {0, 1});
    phase_log("C13", "terms");

    R.states = P.V.size() + P.B.size();
    R.transitions = R.evaluations;
    R.counters["pool_value_states"] = P.V.size();
    R.counters["pool_boolean_states"] = P.B.size();
    R.counters["level2_recipes(transitions, not de-duplicated)"] = deep.size();
    R.counters["pool_recipes_constructed"] = P.recipes;
    R.counters["pool_recipes_refused_by_constructor"] = P.refused;
    R.bound_completed = "terms: all expressions with recipes of <= 2 operations over " + std::to_string(pc.leavesV.size()) + " value leaves + "
                        + std::to_string(pc.leavesB.size()) + " boolean leaves (" + std::to_string(P.V.size()) + " value + " + std::to_string(P.B.size())
                        + " boolean states with <= 1 operation, " + std::to_string(deep.size()) + " transitions into level 2) x cse on/off x 3x3 grid; tuples: all ordered tuples of <= " + (thorough ? "4" : "3")
                        + " outputs from a 12-expression pool x 3 input vectors x cse on/off; histories: all sequences of <= " + (thorough ? "4" : "3")
                        + " init calls from a menu of 10 (3 failing) on one visitor";
    R.rule = "E1: typed term algebra (38 unary functions, add/sub/mul/div/pow/atan2/max/min, Eq/Ne/Lt/Le/Gt/Ge, Contains in 5 intervals, Not/And/Or/Xor, "
             "2-piece Piecewise) de-duplicated by structural key; every state is compiled by LambdaRealDoubleVisitor::init with cse off and on and called "
             "on the grid x in {-1.5,0.5,2} x y in {-0.75,1,3}; each value is compared with RealEval within 4*delta (delta = running first-order error "
             "budget for IEEE double; exact sub-expressions demand bit-exact results; booleans demand exactly 1.0/0.0). E2: every init history on one "
             "visitor must leave it bit-identical (outputs and exception behaviour) to a fresh visitor given the last init. distinct_nontrivial = terms "
             "depending on a symbol judged at >= 1 point, tuples with >= 2 different outputs, histories of length >= 2";
    R.assumptions = {"libquadmath / MPFR special functions", "glibc libm within 4 ulp (16 ulp for tgamma/lgamma/erf/erfc), pow exact when the result is representable",
                     "points where the value is non-real, non-finite, ill-conditioned (delta > 2^-20 scale) or within delta of a discontinuity are skipped and counted",
                     "Piecewise without a final True branch, Infty/NaN leaves and Contains of non-Interval sets are outside the enumerated alphabet"};
    return R.finish();
}
