// C26  Matrix expressions preserve value; predicates are sound -- E1 over matrix-expression terms
// (DESIGN 5 C26).  Every transition r = op(a, b) on the real library is judged by an independent
// dense interpreter: entries are formal polynomials over Q(i) in x, conj(x) and the entries of the
// MatrixSymbols A, B (and their conjugates), so equality of the interpretations is an exact
// polynomial identity (valid for every substitution).  A definite answer of a predicate must hold
// for every substitution: decided formally where possible, else by enumerating all 2x2 matrices
// over {0,1} (thorough {0,1,2}) for A, B and x in {0,1,2,I}.
#include "common.h"
#include "key.h"
#include "explore.h"
#include <symengine/matrix_expressions.h>
using namespace verif;

// ---------------------------------------------------------------- formal polynomials
enum { NV = 18 }; // 0:x 1:conj x | 2..5: A entries 6..9: conj A | 10..13: B 14..17: conj B
typedef std::array<uint8_t, NV> Mono;
static const char *VN[NV] = {"x",  "x~",  "a11", "a12", "a21", "a22", "a11~", "a12~", "a21~",
                             "a22~", "b11", "b12", "b21", "b22", "b11~", "b12~", "b21~", "b22~"};
static int conj_var(int v)
{
    if (v < 2)
        return v ^ 1;
    if (v < 10)
        return v < 6 ? v + 4 : v - 4;
    return v < 14 ? v + 4 : v - 4;
}
struct Poly {
    std::map<Mono, GQ> t;
    static Poly constant(const GQ &g)
    {
        Poly p;
        if (!g.is_zero())
            p.t[Mono{}] = g;
        return p;
    }
    static Poly var(int v)
    {
        Poly p;
        Mono m{};
        m[v] = 1;
        p.t[m] = GQ{1, 0};
        return p;
    }
    bool is_zero() const
    {
        return t.empty();
    }
    bool is_const() const
    {
        return t.empty() || (t.size() == 1 && t.begin()->first == Mono{});
    }
    bool operator==(const Poly &o) const
    {
        if (t.size() != o.t.size())
            return false;
        auto a = t.begin();
        auto b = o.t.begin();
        for (; a != t.end(); ++a, ++b)
            if (a->first != b->first || !(a->second == b->second))
                return false;
        return true;
    }
    void addto(const Mono &m, const GQ &c)
    {
        auto it = t.find(m);
        if (it == t.end()) {
            if (!c.is_zero())
                t[m] = c;
        } else {
            it->second = it->second + c;
            if (it->second.is_zero())
                t.erase(it);
        }
    }
};
static Poly padd(const Poly &a, const Poly &b)
{
    Poly r = a;
    for (auto &kv : b.t)
        r.addto(kv.first, kv.second);
    return r;
}
static Poly pneg(const Poly &a)
{
    Poly r;
    for (auto &kv : a.t)
        r.t[kv.first] = GQ{-kv.second.re, -kv.second.im};
    return r;
}
static Poly pmul(const Poly &a, const Poly &b)
{
    Poly r;
    for (auto &x : a.t)
        for (auto &y : b.t) {
            Mono m;
            for (int i = 0; i < NV; i++)
                m[i] = x.first[i] + y.first[i];
            r.addto(m, x.second * y.second);
        }
    return r;
}
static Poly pconj(const Poly &a)
{
    Poly r;
    for (auto &kv : a.t) {
        Mono m{};
        for (int i = 0; i < NV; i++)
            m[conj_var(i)] = kv.first[i];
        r.addto(m, GQ{kv.second.re, -kv.second.im});
    }
    return r;
}
static std::string pstr(const Poly &p)
{
    if (p.t.empty())
        return "0";
    std::string o;
    for (auto &kv : p.t) {
        if (!o.empty())
            o += " + ";
        o += "(" + gq_str(kv.second) + ")";
        for (int i = 0; i < NV; i++)
            if (kv.first[i])
                o += std::string("*") + VN[i] + (kv.first[i] > 1 ? "^" + std::to_string((int)kv.first[i]) : "");
    }
    return o;
}
static GQ peval(const Poly &p, const std::array<GQ, NV> &val)
{
    GQ s{0, 0};
    for (auto &kv : p.t) {
        GQ m = kv.second;
        for (int i = 0; i < NV; i++)
            for (int k = 0; k < kv.first[i]; k++)
                m = m * val[i];
        s = s + m;
    }
    return s;
}

// ---------------------------------------------------------------- dense model
struct DM {
    int r = 0, c = 0;
    std::vector<Poly> v;
    Poly &at(int i, int j)
    {
        return v[i * c + j];
    }
    const Poly &at(int i, int j) const
    {
        return v[i * c + j];
    }
    bool operator==(const DM &o) const
    {
        return r == o.r && c == o.c && v == o.v;
    }
};
static DM dm_zero(int r, int c)
{
    DM m;
    m.r = r;
    m.c = c;
    m.v.assign(r * c, Poly());
    return m;
}
static std::string dmstr(const DM &m)
{
    std::string o = std::to_string(m.r) + "x" + std::to_string(m.c) + "[";
    for (int i = 0; i < m.r; i++) {
        o += i ? "; " : "";
        for (int j = 0; j < m.c; j++)
            o += (j ? ", " : "") + pstr(m.at(i, j));
    }
    return o + "]";
}
enum MOp { M_ADD, M_MUL, M_HAD, NBIN, M_TRANSPOSE = NBIN, M_CONJ, M_SCALE2, M_SCALEX, NMOPS };
static const char *OPN[] = {"matrix_add", "matrix_mul", "hadamard_product", "transpose", "conjugate_matrix", "matrix_mul{2,.}", "matrix_mul{x,.}"};

// model semantics; false = shapes do not fit
static bool dm_bin(int op, const DM &a, const DM &b, DM &out)
{
    if (op == M_MUL) {
        if (a.c != b.r)
            return false;
        out = dm_zero(a.r, b.c);
        for (int i = 0; i < a.r; i++)
            for (int j = 0; j < b.c; j++) {
                Poly s;
                for (int k = 0; k < a.c; k++)
                    s = padd(s, pmul(a.at(i, k), b.at(k, j)));
                out.at(i, j) = s;
            }
        return true;
    }
    if (a.r != b.r || a.c != b.c)
        return false;
    out = dm_zero(a.r, a.c);
    for (size_t k = 0; k < a.v.size(); k++)
        out.v[k] = op == M_ADD ? padd(a.v[k], b.v[k]) : pmul(a.v[k], b.v[k]);
    return true;
}
static DM dm_un(int op, const DM &a)
{
    DM o;
    if (op == M_TRANSPOSE) {
        o = dm_zero(a.c, a.r);
        for (int i = 0; i < a.r; i++)
            for (int j = 0; j < a.c; j++)
                o.at(j, i) = a.at(i, j);
        return o;
    }
    o = a;
    for (auto &p : o.v)
        p = op == M_CONJ ? pconj(p) : op == M_SCALE2 ? pmul(Poly::constant(GQ{2, 0}), p) : pmul(Poly::var(0), p);
    return o;
}

// ---------------------------------------------------------------- interpreter of library trees
static bool interp(const Basic &e, DM &out, std::string &why);
static bool scalar(const Basic &e, Poly &out, std::string &why)
{
    GQ g;
    if (to_gq(e, g)) {
        out = Poly::constant(g);
        return true;
    }
    switch (e.get_type_code()) {
        case SYMENGINE_SYMBOL:
            if (down_cast<const Symbol &>(e).get_name() == "x") {
                out = Poly::var(0);
                return true;
            }
            why = "unknown symbol";
            return false;
        case SYMENGINE_ADD: {
            Poly s;
            for (auto &a : e.get_args()) {
                Poly p;
                if (!scalar(*a, p, why))
                    return false;
                s = padd(s, p);
            }
            out = s;
            return true;
        }
        case SYMENGINE_MUL: {
            Poly s = Poly::constant(GQ{1, 0});
            for (auto &a : e.get_args()) {
                Poly p;
                if (!scalar(*a, p, why))
                    return false;
                s = pmul(s, p);
            }
            out = s;
            return true;
        }
        case SYMENGINE_POW: {
            const Pow &p = down_cast<const Pow &>(e);
            if (!is_a<Integer>(*p.get_exp())) {
                why = "non-integer power";
                return false;
            }
            long n = down_cast<const Integer &>(*p.get_exp()).as_int();
            if (n < 0 || n > 16) {
                why = "negative or large power";
                return false;
            }
            Poly b, s = Poly::constant(GQ{1, 0});
            if (!scalar(*p.get_base(), b, why))
                return false;
            for (long k = 0; k < n; k++)
                s = pmul(s, b);
            out = s;
            return true;
        }
        case SYMENGINE_CONJUGATE: {
            Poly p;
            if (!scalar(*e.get_args()[0], p, why))
                return false;
            out = pconj(p);
            return true;
        }
        case SYMENGINE_TRACE: {
            DM m;
            if (!interp(*e.get_args()[0], m, why))
                return false;
            if (m.r != m.c) {
                why = "trace of a non-square value";
                return false;
            }
            Poly s;
            for (int i = 0; i < m.r; i++)
                s = padd(s, m.at(i, i));
            out = s;
            return true;
        }
        default:
            why = "scalar node " + type_code_name(e.get_type_code());
            return false;
    }
}
static bool dim_of(const Basic &e, int &n)
{
    if (!is_a<Integer>(e))
        return false;
    n = (int)down_cast<const Integer &>(e).as_int();
    return n >= 0 && n <= 8;
}
static bool interp(const Basic &e, DM &out, std::string &why)
{
    switch (e.get_type_code()) {
        case SYMENGINE_IMMUTABLEDENSEMATRIX: {
            const ImmutableDenseMatrix &m = down_cast<const ImmutableDenseMatrix &>(e);
            out = dm_zero(m.nrows(), m.ncols());
            if (m.get_values().size() != out.v.size()) {
                why = "dense matrix with wrong number of values";
                return false;
            }
            for (size_t k = 0; k < out.v.size(); k++)
                if (!scalar(*m.get_values()[k], out.v[k], why))
                    return false;
            return true;
        }
        case SYMENGINE_DIAGONALMATRIX: {
            const vec_basic &d = down_cast<const DiagonalMatrix &>(e).get_container();
            out = dm_zero(d.size(), d.size());
            for (size_t k = 0; k < d.size(); k++)
                if (!scalar(*d[k], out.at(k, k), why))
                    return false;
            return true;
        }
        case SYMENGINE_IDENTITYMATRIX: {
            int n;
            if (!dim_of(*down_cast<const IdentityMatrix &>(e).size(), n)) {
                why = "symbolic dimension";
                return false;
            }
            out = dm_zero(n, n);
            for (int k = 0; k < n; k++)
                out.at(k, k) = Poly::constant(GQ{1, 0});
            return true;
        }
        case SYMENGINE_ZEROMATRIX: {
            int r, c;
            const ZeroMatrix &z = down_cast<const ZeroMatrix &>(e);
            if (!dim_of(*z.nrows(), r) || !dim_of(*z.ncols(), c)) {
                why = "symbolic dimension";
                return false;
            }
            out = dm_zero(r, c);
            return true;
        }
        case SYMENGINE_MATRIXSYMBOL: {
            const std::string &n = down_cast<const MatrixSymbol &>(e).get_name();
            int base = n == "A" ? 2 : n == "B" ? 10 : -1;
            if (base < 0) {
                why = "unknown matrix symbol";
                return false;
            }
            out = dm_zero(2, 2);
            for (int k = 0; k < 4; k++)
                out.v[k] = Poly::var(base + k);
            return true;
        }
        case SYMENGINE_MATRIXADD:
        case SYMENGINE_HADAMARDPRODUCT:
        case SYMENGINE_MATRIXMUL: {
            vec_basic f;
            Poly sc = Poly::constant(GQ{1, 0});
            int op;
            if (is_a<MatrixAdd>(e)) {
                f = down_cast<const MatrixAdd &>(e).get_terms();
                op = M_ADD;
            } else if (is_a<HadamardProduct>(e)) {
                f = down_cast<const HadamardProduct &>(e).get_factors();
                op = M_HAD;
            } else {
                f = down_cast<const MatrixMul &>(e).get_factors();
                op = M_MUL;
                if (!scalar(*down_cast<const MatrixMul &>(e).get_scalar(), sc, why))
                    return false;
            }
            if (f.empty()) {
                why = "empty composite";
                return false;
            }
            DM acc;
            for (size_t k = 0; k < f.size(); k++) {
                DM m;
                if (!interp(*f[k], m, why))
                    return false;
                if (k == 0)
                    acc = m;
                else {
                    DM o;
                    if (!dm_bin(op, acc, m, o)) {
                        why = "ill-shaped " + type_code_name(e.get_type_code());
                        return false;
                    }
                    acc = o;
                }
            }
            for (auto &p : acc.v)
                p = pmul(sc, p);
            out = acc;
            return true;
        }
        case SYMENGINE_TRANSPOSE:
        case SYMENGINE_CONJUGATEMATRIX: {
            DM m;
            if (!interp(*e.get_args()[0], m, why))
                return false;
            out = dm_un(is_a<Transpose>(e) ? M_TRANSPOSE : M_CONJ, m);
            return true;
        }
        default:
            why = "matrix node " + type_code_name(e.get_type_code());
            return false;
    }
}

static void symbols_in(const Basic &e, bool &hx, bool &ha, bool &hb)
{
    if (is_a<Symbol>(e) && down_cast<const Symbol &>(e).get_name() == "x")
        hx = true;
    if (is_a<MatrixSymbol>(e)) {
        if (down_cast<const MatrixSymbol &>(e).get_name() == "A")
            ha = true;
        else
            hb = true;
    }
    for (auto &a : e.get_args())
        symbols_in(*a, hx, ha, hb);
}

static std::string kind(const Basic &e)
{
    std::string t = type_code_name(e.get_type_code());
    if (is_a<ImmutableDenseMatrix>(e)) {
        const ImmutableDenseMatrix &m = down_cast<const ImmutableDenseMatrix &>(e);
        if (m.nrows() != m.ncols())
            t += "-" + std::to_string(m.nrows()) + "x" + std::to_string(m.ncols());
    }
    if (is_a<ZeroMatrix>(e)) {
        const ZeroMatrix &z = down_cast<const ZeroMatrix &>(e);
        if (!eq(*z.nrows(), *z.ncols()))
            t += "-" + sstr(z.nrows()) + "x" + sstr(z.ncols());
    }
    if (is_a<MatrixAdd>(e) || is_a<MatrixMul>(e) || is_a<HadamardProduct>(e) || is_a<Transpose>(e) || is_a<ConjugateMatrix>(e)) {
        t += "[";
        if (is_a<MatrixMul>(e)) { // ordered factor kinds
            bool first = true;
            for (auto &a : down_cast<const MatrixMul &>(e).get_factors()) {
                t += (first ? "" : "*") + type_code_name(a->get_type_code());
                first = false;
            }
        } else {
            std::set<std::string> f;
            for (auto &a : e.get_args())
                f.insert(type_code_name(a->get_type_code()));
            bool first = true;
            for (auto &x : f) {
                t += (first ? "" : "+") + x;
                first = false;
            }
        }
        t += "]";
        if (is_a<MatrixMul>(e) && !eq(*down_cast<const MatrixMul &>(e).get_scalar(), *one))
            t += "*scalar";
    }
    return t;
}

// ---------------------------------------------------------------- predicates
enum Pred { P_ZERO, P_DIAG, P_SYM, P_LOWER, P_UPPER, P_REAL, P_SQUARE, P_TOEPLITZ, NPRED };
static const char *PN[] = {"is_zero", "is_diagonal", "is_symmetric", "is_lower", "is_upper", "is_real", "is_square", "is_toeplitz"};
static tribool call_pred(int p, const MatrixExpr &m)
{
    switch (p) {
        case P_ZERO:
            return is_zero(m);
        case P_DIAG:
            return is_diagonal(m);
        case P_SYM:
            return is_symmetric(m);
        case P_LOWER:
            return is_lower(m);
        case P_UPPER:
            return is_upper(m);
        case P_REAL:
            return is_real(m);
        case P_SQUARE:
            return is_square(m);
        default:
            return is_toeplitz(m);
    }
}
// The predicate on a dense value is a conjunction of conditions "poly == 0" (is_real: poly == conj poly).
// returns false when the predicate is not defined for this shape (triangularity of non-square)
static bool pred_conditions(int p, const DM &m, std::vector<Poly> &zero_conds, bool &shape_false)
{
    shape_false = false;
    bool sq = m.r == m.c;
    switch (p) {
        case P_ZERO:
            for (auto &e : m.v)
                zero_conds.push_back(e);
            return true;
        case P_SQUARE:
            shape_false = !sq;
            return true;
        case P_REAL:
            for (auto &e : m.v)
                zero_conds.push_back(padd(e, pneg(pconj(e))));
            return true;
        case P_TOEPLITZ:
            for (int i = 1; i < m.r; i++)
                for (int j = 1; j < m.c; j++)
                    zero_conds.push_back(padd(m.at(i, j), pneg(m.at(i - 1, j - 1))));
            return true;
        case P_DIAG:
        case P_SYM:
            if (!sq) {
                shape_false = true;
                return true;
            }
            for (int i = 0; i < m.r; i++)
                for (int j = 0; j < m.c; j++)
                    if (i != j)
                        zero_conds.push_back(p == P_DIAG ? m.at(i, j) : padd(m.at(i, j), pneg(m.at(j, i))));
            return true;
        default: // lower / upper
            if (!sq)
                return false;
            for (int i = 0; i < m.r; i++)
                for (int j = 0; j < m.c; j++)
                    if (p == P_LOWER ? j > i : j < i)
                        zero_conds.push_back(m.at(i, j));
            return true;
    }
}

enum {
    K_VALUE_JUDGED,
    K_VALUE_UNDECIDED,
    K_REFUSED,
    K_SHAPE_MISMATCH_REFUSED,
    K_SHAPE_MISMATCH_ACCEPTED,
    K_PRED_DEFINITE,
    K_PRED_INDET,
    K_PRED_FORMAL,
    K_PRED_ENUM,
    K_PRED_ENUM_ENVS,
    K_PRED_SKIPPED,
    K_SIZE_DEFINITE,
    K_SIZE_UNKNOWN,
    K_TRACE_JUDGED,
    K_TRACE_REFUSED,
    K_PRED_REFUSED,
    K_PROBED,
    K_QUARANTINED
};
static std::vector<std::string> CN = {"transitions_value_judged(exact_polynomial_identity)",
                                      "transitions_value_undecided(interpreter_does_not_cover_tree)",
                                      "transitions_library_refused(exception,shapes_fit)",
                                      "transitions_shape_mismatch_refused_by_library",
                                      "transitions_shape_mismatch_accepted_by_library(size_unknown_to_it;not_judged)",
                                      "predicate_answers_definite_checked",
                                      "predicate_answers_indeterminate",
                                      "predicate_definite_decided_formally",
                                      "predicate_definite_decided_by_substitution_enumeration",
                                      "predicate_substitutions_enumerated",
                                      "predicate_checks_skipped(value_undecided_or_triangularity_of_nonsquare)",
                                      "size_answers_definite_checked",
                                      "size_answers_unknown_or_symbolic",
                                      "trace_values_judged",
                                      "trace_refused(exception)",
                                      "predicate_calls_refused(exception)",
                                      "case_indices_already_run_as_class_probe",
                                      "cases_quarantined(operand_kind_class_died_on_its_probe;not_run)"};

static bool g_thorough = false;

// soundness of all predicate / size / trace answers on a library tree whose dense value is val
static void check_props(Ctx &c, const RCP<const Basic> &r, bool have_val, const DM &val, const std::string &origin)
{
    const MatrixExpr &m = down_cast<const MatrixExpr &>(*r);
    std::string kd = kind(*r);
    for (int p = 0; p < NPRED; p++) {
        tribool ans;
        try {
            ans = call_pred(p, m);
        } catch (SymEngineException &x) {
            c.count(K_PRED_REFUSED);
            continue;
        }
        if (is_indeterminate(ans)) {
            c.count(K_PRED_INDET);
            continue;
        }
        if (!have_val) {
            c.count(K_PRED_SKIPPED);
            continue;
        }
        std::vector<Poly> conds;
        bool shape_false;
        if (!pred_conditions(p, val, conds, shape_false)) {
            c.count(K_PRED_SKIPPED);
            continue;
        }
        c.count(K_PRED_DEFINITE);
        bool claim = is_true(ans);
        auto report = [&](const std::string &how) {
            c.violation(std::string("pred:") + PN[p] + "(" + kd + ")=" + (claim ? "true" : "false"),
                        std::string(PN[p]) + "(" + key(*r) + ") = " + (claim ? "true" : "false") + " but " + how + "; dense value "
                            + dmstr(val) + "; expression obtained by " + origin);
        };
        if (shape_false) {
            c.count(K_PRED_FORMAL);
            if (claim)
                report("the value is not square");
            continue;
        }
        bool all_zero = true, some_nonzero_const = false;
        for (auto &q : conds) {
            if (!q.is_zero())
                all_zero = false;
            if (!q.is_zero() && q.is_const())
                some_nonzero_const = true;
        }
        if (all_zero || some_nonzero_const) {
            c.count(K_PRED_FORMAL);
            bool truth = all_zero;
            if (truth != claim)
                report(std::string("the predicate is ") + (truth ? "true" : "false") + " for every substitution");
            continue;
        }
        // depends on the substitution: enumerate
        c.count(K_PRED_ENUM);
        bool hx = false, ha = false, hb = false;
        symbols_in(*r, hx, ha, hb);
        std::vector<GQ> xs = {GQ{0, 0}, GQ{1, 0}, GQ{2, 0}, GQ{0, 1}};
        int base = g_thorough ? 3 : 2, nm = base * base * base * base;
        bool found = false;
        for (size_t xi = 0; xi < (hx ? xs.size() : 1) && !found; xi++)
            for (int ai = 0; ai < (ha ? nm : 1) && !found; ai++)
                for (int bi = 0; bi < (hb ? nm : 1) && !found; bi++) {
                    std::array<GQ, NV> v;
                    v[0] = xs[xi];
                    v[1] = GQ{xs[xi].re, -xs[xi].im};
                    int a = ai, b = bi;
                    for (int k = 0; k < 4; k++) {
                        v[2 + k] = v[6 + k] = GQ{a % base, 0};
                        a /= base;
                        v[10 + k] = v[14 + k] = GQ{b % base, 0};
                        b /= base;
                    }
                    c.count(K_PRED_ENUM_ENVS);
                    bool truth = true;
                    for (auto &q : conds)
                        if (!peval(q, v).is_zero())
                            truth = false;
                    if (truth != claim) {
                        found = true;
                        std::string env = std::string(hx ? "x=" + gq_str(xs[xi]) + " " : "");
                        auto ms = [&](int off) {
                            return "[[" + gq_str(v[off]) + "," + gq_str(v[off + 1]) + "],[" + gq_str(v[off + 2]) + "," + gq_str(v[off + 3]) + "]]";
                        };
                        if (ha)
                            env += "A=" + ms(2) + " ";
                        if (hb)
                            env += "B=" + ms(10);
                        report(std::string("the predicate is ") + (truth ? "true" : "false") + " for the substitution " + env);
                    }
                }
    }
    // size
    try {
        auto sz = size(m);
        int rr, cc;
        if (!sz.first.is_null() && !sz.second.is_null() && dim_of(*sz.first, rr) && dim_of(*sz.second, cc)) {
            if (have_val) {
                c.count(K_SIZE_DEFINITE);
                if (rr != val.r || cc != val.c)
                    c.violation("size(" + kd + ")", "size(" + key(*r) + ") = (" + std::to_string(rr) + "," + std::to_string(cc)
                                                        + ") but the dense value is " + std::to_string(val.r) + "x" + std::to_string(val.c)
                                                        + "; expression obtained by " + origin);
            }
        } else
            c.count(K_SIZE_UNKNOWN);
    } catch (SymEngineException &x) {
        c.count(K_PRED_REFUSED);
    }
    // trace
    try {
        RCP<const Basic> t = trace(rcp_static_cast<const MatrixExpr>(r));
        if (have_val && val.r == val.c) {
            Poly got, want;
            std::string why;
            for (int i = 0; i < val.r; i++)
                want = padd(want, val.at(i, i));
            if (scalar(*t, got, why)) {
                c.count(K_TRACE_JUDGED);
                if (!(got == want))
                    c.violation("trace(" + kd + ")", "trace(" + key(*r) + ") = " + sstr(t) + " = " + pstr(got) + " but the dense value "
                                                         + dmstr(val) + " has trace " + pstr(want) + "; expression obtained by " + origin);
            }
        } else if (have_val && val.r != val.c) {
            // the library accepted the trace of a non-square value: only possible when it cannot know the size
            bool hx = false, ha = false, hb = false;
            symbols_in(*r, hx, ha, hb);
            (void)hx;
        }
    } catch (DomainError &x) {
        c.count(K_TRACE_REFUSED);
        if (have_val && val.r == val.c)
            c.violation("trace-DomainError(" + kd + ")",
                        "trace(" + key(*r) + ") threw DomainError although the value is square; obtained by " + origin);
    } catch (SymEngineException &x) {
        c.count(K_TRACE_REFUSED);
    }
}

static StateSet SS;
struct Sem {
    bool ok = false;
    DM m;
};
static std::vector<Sem> SV;
static RCP<const Basic> XS;

static RCP<const MatrixExpr> M_(const RCP<const Basic> &b)
{
    return rcp_static_cast<const MatrixExpr>(b);
}
static RCP<const MatrixExpr> apply_op(int op, const std::vector<RCP<const Basic>> &a)
{
    switch (op) {
        case M_ADD:
            return matrix_add(a);
        case M_MUL:
            return matrix_mul(a);
        case M_HAD:
            return hadamard_product(a);
        case M_TRANSPOSE:
            return transpose(M_(a[0]));
        case M_CONJ:
            return conjugate_matrix(M_(a[0]));
        case M_SCALE2:
            return matrix_mul({integer(2), a[0]});
        default:
            return matrix_mul({XS, a[0]});
    }
}

static std::string crash_class(int op, const std::vector<int> &ix, const std::string &oc)
{
    std::string ks;
    for (size_t k = 0; k < ix.size(); k++)
        ks += (k ? "," : "") + kind(*SS.S[ix[k]].e);
    std::string o = oc.find("Segmentation") != std::string::npos ? "crash:SIGSEGV" : oc.find("Abort") != std::string::npos ? "crash:SIGABRT" : oc;
    return (o.empty() ? "" : o + ":") + OPN[op] + "(" + ks + ")";
}
static void check_transition(Ctx &c, int op, const std::vector<int> &ix)
{
    std::vector<RCP<const Basic>> args;
    std::string recipe = std::string(op < NBIN ? OPN[op] : OPN[op]) + "(";
    std::string ks;
    bool operands_ok = true;
    for (size_t k = 0; k < ix.size(); k++) {
        args.push_back(SS.S[ix[k]].e);
        recipe += (k ? ", " : "") + SS.S[ix[k]].recipe;
        ks += (k ? "," : "") + kind(*SS.S[ix[k]].e);
        operands_ok = operands_ok && SV[ix[k]].ok;
    }
    recipe += ")";
    c.eval();
    // expected value
    bool fit = true;
    DM want;
    if (operands_ok) {
        if (op < NBIN) {
            want = SV[ix[0]].m;
            for (size_t k = 1; k < ix.size() && fit; k++) {
                DM o;
                fit = dm_bin(op, want, SV[ix[k]].m, o);
                want = o;
            }
        } else
            want = dm_un(op, SV[ix[0]].m);
    }
    RCP<const MatrixExpr> r;
    try {
        r = apply_op(op, args);
    } catch (DomainError &x) {
        if (operands_ok && !fit)
            c.count(K_SHAPE_MISMATCH_REFUSED);
        else {
            c.count(K_REFUSED);
            if (operands_ok)
                c.violation(std::string("DomainError:") + OPN[op] + "(" + ks + ")",
                            recipe + " threw DomainError(" + x.what() + ") although the operand shapes fit");
        }
        c.outcome(std::string(OPN[op]) + ":DomainError");
        return;
    } catch (SymEngineException &x) {
        c.count(K_REFUSED);
        c.outcome(std::string(OPN[op]) + ":throw");
        return;
    }
    TypeID plain = op == M_ADD ? SYMENGINE_MATRIXADD : op == M_MUL || op >= M_SCALE2 ? SYMENGINE_MATRIXMUL : op == M_HAD ? SYMENGINE_HADAMARDPRODUCT
                                                     : op == M_TRANSPOSE ? SYMENGINE_TRANSPOSE : SYMENGINE_CONJUGATEMATRIX;
    if (r->get_type_code() != plain)
        c.nontrivial();
    c.outcome(std::string(OPN[op]) + "(" + ks + ")->" + kind(*r));
    DM got;
    std::string why;
    bool have = interp(*r, got, why);
    if (operands_ok && !fit) {
        c.count(K_SHAPE_MISMATCH_ACCEPTED);
        return;
    }
    if (!operands_ok || !have) {
        c.count(K_VALUE_UNDECIDED);
        if (have)
            check_props(c, r, true, got, recipe);
        else if (why.rfind("ill-shaped", 0) == 0 && operands_ok)
            c.violation(std::string("ill-shaped-result:") + OPN[op] + "(" + ks + ")", recipe + " returned " + key(*r) + " whose factors do not fit: " + why);
        return;
    }
    c.count(K_VALUE_JUDGED);
    if (!(got == want)) {
        c.violation(std::string(got.r != want.r || got.c != want.c ? "shape:" : "value:") + OPN[op] + "(" + ks + ")",
                    recipe + " returned " + key(*r) + " with dense value " + dmstr(got) + " but the operation on the operand values gives "
                        + dmstr(want));
        return;
    }
    check_props(c, r, true, got, recipe);
    if (c.index % 3001 == 0)
        c.sample("{\"recipe\":" + jstr(recipe) + ",\"result\":" + jstr(key(*r)) + ",\"value\":" + jstr(dmstr(got)) + "}");
}

int main(int argc, char **argv)
{
    init(argc, argv, "C26");
    bool thorough = g_thorough = opts().thorough();
    Run &R = run();
    XS = symbol("x");
    auto I_ = [](long v) { return RCP<const Basic>(integer(v)); };

    // ---- leaves
    std::vector<std::pair<std::string, RCP<const Basic>>> leaves;
    leaves.push_back({"Identity(2)", identity_matrix(integer(2))});
    leaves.push_back({"Zero(2,2)", zero_matrix(integer(2), integer(2))});
    leaves.push_back({"A", matrix_symbol("A")});
    leaves.push_back({"B", matrix_symbol("B")});
    {
        std::vector<std::pair<std::string, RCP<const Basic>>> dv = {{"0", I_(0)}, {"1", I_(1)}, {"x", XS}};
        for (auto &a : dv)
            for (auto &b : dv)
                leaves.push_back({"Diag(" + a.first + "," + b.first + ")", diagonal_matrix({a.second, b.second})});
        for (int m = 0; m < 81; m++) {
            int v[4], t = m;
            for (int k = 0; k < 4; k++) {
                v[k] = t % 3;
                t /= 3;
            }
            leaves.push_back({"[[" + std::to_string(v[0]) + "," + std::to_string(v[1]) + "],[" + std::to_string(v[2]) + "," + std::to_string(v[3]) + "]]",
                              immutable_dense_matrix(2, 2, {I_(v[0]), I_(v[1]), I_(v[2]), I_(v[3])})});
        }
        // entries that are not plain non-negative integers: complex and symbolic
        leaves.push_back({"[[I,1],[0,x]]", immutable_dense_matrix(2, 2, {I, I_(1), I_(0), XS})});
        leaves.push_back({"[[1,x],[x,2]]", immutable_dense_matrix(2, 2, {I_(1), XS, XS, I_(2)})});
        leaves.push_back({"Diag(I,2)", diagonal_matrix({I, I_(2)})});
        // non-square
        leaves.push_back({"[[1,2]]", immutable_dense_matrix(1, 2, {I_(1), I_(2)})});
        leaves.push_back({"[[1],[2]]", immutable_dense_matrix(2, 1, {I_(1), I_(2)})});
        leaves.push_back({"Zero(1,2)", zero_matrix(integer(1), integer(2))});
        leaves.push_back({"Zero(2,1)", zero_matrix(integer(2), integer(1))});
        if (thorough) {
            leaves.push_back({"Identity(3)", identity_matrix(integer(3))});
            leaves.push_back({"Zero(3,3)", zero_matrix(integer(3), integer(3))});
            leaves.push_back({"Diag(1,2,x)", diagonal_matrix({I_(1), I_(2), XS})});
            leaves.push_back({"[[1,2,3],[4,1,2],[5,4,1]]",
                              immutable_dense_matrix(3, 3, {I_(1), I_(2), I_(3), I_(4), I_(1), I_(2), I_(5), I_(4), I_(1)})});
            leaves.push_back({"[[1,2,3],[0,1,2],[0,0,2]]",
                              immutable_dense_matrix(3, 3, {I_(1), I_(2), I_(3), I_(0), I_(1), I_(2), I_(0), I_(0), I_(2)})});
            leaves.push_back({"[[1,2,0],[2,1,2]]", immutable_dense_matrix(2, 3, {I_(1), I_(2), I_(0), I_(2), I_(1), I_(2)})});
            leaves.push_back({"[[1,2,0]]", immutable_dense_matrix(1, 3, {I_(1), I_(2), I_(0)})});
        }
    }
    for (auto &l : leaves)
        SS.add(l.second, l.first, 0);
    auto sync = [&]() {
        while (SV.size() < SS.size()) {
            Sem s;
            std::string why;
            s.ok = interp(*SS.S[SV.size()].e, s.m, why);
            SV.push_back(s);
        }
    };
    sync();
    const long long n0 = SS.size();
    for (long long i = 0; i < n0; i++)
        if (!SV[i].ok) {
            fprintf(stderr, "leaf %s not interpretable\n", SS.S[i].recipe.c_str());
            return 2;
        }
    R.counters["states_S0(leaves)"] = n0;

    // ---- properties of the leaves themselves
    CaseSet pl;
    pl.name = "P0:props(S0)";
    pl.n = n0;
    pl.counter_names = CN;
    pl.desc = [&](long long i) { return "predicates/size/trace of " + SS.S[i].recipe; };
    pl.crash_sig = [&](long long i, const std::string &oc) {
        return std::string(oc.find("Segmentation") != std::string::npos ? "crash:SIGSEGV" : oc) + ":props(" + kind(*SS.S[i].e) + ")";
    };
    pl.body = [&](long long i, Ctx &c) {
        c.eval();
        c.outcome("props(" + kind(*SS.S[i].e) + ")");
        check_props(c, SS.S[i].e, true, SV[i].m, "leaf " + SS.S[i].recipe);
    };
    run_cases(pl);

    // ---- predicate-only leaves: every 2x3 and 3x2 dense matrix over {0,1} and every 3x2 / 2x3 matrix whose entries follow the
    //      Toeplitz pattern except in ONE position (non-square shapes with min(m,n) >= 2 are where the diagonal loops of
    //      is_toeplitz/is_lower/is_upper/is_diagonal have separate bounds; added after seeded change C26 escaped the 2x2 alphabet)
    {
        struct PLeaf {
            std::string name;
            RCP<const Basic> e;
            Sem s;
        };
        std::vector<PLeaf> PL;
        auto addm = [&](int r, int cdim, const std::vector<int> &v) {
            vec_basic vals;
            std::string nm = std::to_string(r) + "x" + std::to_string(cdim) + "[";
            for (int t : v) {
                vals.push_back(integer(t));
                nm += std::to_string(t) + ",";
            }
            PLeaf p;
            p.name = nm + "]";
            p.e = immutable_dense_matrix(r, cdim, vals);
            std::string why;
            p.s.ok = interp(*p.e, p.s.m, why);
            if (p.s.ok)
                PL.push_back(p);
        };
        for (int shape = 0; shape < 2; shape++) {
            int r = shape ? 3 : 2, cdim = shape ? 2 : 3;
            for (int bits = 0; bits < 64; bits++) {
                std::vector<int> v(6);
                for (int k = 0; k < 6; k++)
                    v[k] = (bits >> k) & 1;
                addm(r, cdim, v);
            }
        }
        // 4x3 / 3x4 Toeplitz patterns t[i-j] with one perturbed entry
        for (int shape = 0; shape < 2; shape++) {
            int r = shape ? 4 : 3, cdim = shape ? 3 : 4;
            for (int pert = -1; pert < r * cdim; pert++) {
                std::vector<int> v(r * cdim);
                for (int i = 0; i < r; i++)
                    for (int j = 0; j < cdim; j++)
                        v[i * cdim + j] = 1 + ((i - j) + 8) % 5;
                if (pert >= 0)
                    v[pert] = 9;
                addm(r, cdim, v);
            }
        }
        CaseSet pb;
        pb.name = "P0b:props(non-square dense)";
        pb.n = PL.size();
        pb.counter_names = CN;
        pb.desc = [&](long long i) { return "predicates/size of dense " + PL[i].name; };
        pb.crash_sig = [&](long long i, const std::string &oc) {
            return std::string(oc.find("Segmentation") != std::string::npos ? "crash:SIGSEGV" : oc) + ":props(" + kind(*PL[i].e) + ")";
        };
        pb.body = [&](long long i, Ctx &c) {
            c.eval();
            c.outcome("props(" + kind(*PL[i].e) + ")");
            check_props(c, PL[i].e, true, PL[i].s.m, "leaf " + PL[i].name);
            // and of its transpose (a different loop orientation)
            try {
                RCP<const Basic> t = transpose(rcp_static_cast<const MatrixExpr>(PL[i].e));
                Sem ts;
                std::string why;
                if (interp(*t, ts.m, why))
                    check_props(c, t, true, ts.m, "transpose of leaf " + PL[i].name);
            } catch (std::exception &) {
            }
        };
        run_cases(pb);
        R.counters["predicate_only_nonsquare_leaves"] = PL.size();
    }

    // A layer = a probe pass (the first case of every operand-kind class) followed by the full pass.
    // Classes whose probe crashed or hung are quarantined: their other members are counted, not run
    // (every death costs a worker process; the class is reported once through its probe).
    typedef std::function<void(long long, int &, std::vector<int> &)> DecFn;
    auto desc_of = [&](int op, const std::vector<int> &ix) {
        std::string o = std::string(OPN[op]) + "(";
        for (size_t k = 0; k < ix.size(); k++)
            o += (k ? ", " : "") + SS.S[ix[k]].recipe;
        return o + ")";
    };
    auto run_layer = [&](const std::string &name, long long n, const DecFn &dec, bool force_real, std::set<long long> &bad) {
        long long keep = opts().only_index;
        bool rp_probe = replaying() && opts().only_check == name + "/probe";
        bool rp_full = replaying() && opts().only_check == name;
        std::vector<int> cid(n);
        std::vector<long long> rep;
        {
            std::unordered_map<std::string, int> ids;
            for (long long k = 0; k < n; k++) {
                int op;
                std::vector<int> ix;
                dec(k, op, ix);
                std::string cl = crash_class(op, ix, "");
                auto it = ids.find(cl);
                if (it == ids.end()) {
                    it = ids.emplace(cl, (int)rep.size()).first;
                    rep.push_back(k);
                }
                cid[k] = it->second;
            }
        }
        std::vector<char> dead(rep.size() + 1, 0);
        CaseSet pr;
        pr.name = name + "/probe";
        pr.n = rep.size();
        pr.counter_names = CN;
        pr.desc = [&](long long j) {
            int op;
            std::vector<int> ix;
            dec(rep[j], op, ix);
            return desc_of(op, ix);
        };
        pr.crash_sig = [&](long long j, const std::string &oc) {
            int op;
            std::vector<int> ix;
            dec(rep[j], op, ix);
            dead[j] = 1; // runs in the parent
            return crash_class(op, ix, oc);
        };
        pr.body = [&](long long j, Ctx &c) {
            int op;
            std::vector<int> ix;
            dec(rep[j], op, ix);
            check_transition(c, op, ix);
        };
        if ((force_real || rp_full) && replaying())
            opts().only_index = -1;
        run_cases(pr);
        opts().only_index = keep;
        if (rp_probe)
            return;
        for (auto j : pr.bad)
            bad.insert(rep[j]);
        CaseSet fu;
        fu.name = name;
        fu.n = n;
        fu.counter_names = CN;
        fu.desc = [&](long long k) {
            int op;
            std::vector<int> ix;
            dec(k, op, ix);
            return desc_of(op, ix);
        };
        fu.crash_sig = [&](long long k, const std::string &oc) {
            int op;
            std::vector<int> ix;
            dec(k, op, ix);
            return crash_class(op, ix, oc);
        };
        fu.body = [&](long long k, Ctx &c) {
            if (rep[cid[k]] == k) {
                c.count(K_PROBED);
                return;
            }
            if (dead[cid[k]]) {
                c.count(K_QUARANTINED);
                return;
            }
            int op;
            std::vector<int> ix;
            dec(k, op, ix);
            check_transition(c, op, ix);
        };
        if (force_real && replaying())
            opts().only_index = -1;
        run_cases(fu);
        opts().only_index = keep;
        for (auto k : fu.bad)
            bad.insert(k);
        uint64_t dc = 0;
        for (size_t j = 0; j < rep.size(); j++)
            dc += dead[j];
        for (long long k = 0; k < n; k++)
            if (dead[cid[k]])
                bad.insert(k);
        R.counters[name + ":operand_kind_classes"] = rep.size();
        R.counters[name + ":classes_quarantined_after_probe_death"] = dc;
    };
    auto replay_in = [&](const std::string &nm) { return replaying() && (opts().only_check == nm || opts().only_check == nm + "/probe"); };
    if (replay_in(pl.name))
        return R.finish();

    // ---- layer 1: binary ops on all ordered pairs of leaves, unary ops on leaves
    const int NUN = NMOPS - NBIN;
    const std::string L1N = "L1:op(S0,S0)";
    const long long l1n = n0 * n0 * NBIN + n0 * NUN;
    DecFn dec1 = [&](long long i, int &op, std::vector<int> &ix) {
        if (i < n0 * n0 * NBIN) {
            op = i % NBIN;
            i /= NBIN;
            ix = {(int)(i / n0), (int)(i % n0)};
        } else {
            i -= n0 * n0 * NBIN;
            op = NBIN + i % NUN;
            ix = {(int)(i / NUN)};
        }
    };
    std::set<long long> bad1;
    run_layer(L1N, l1n, dec1, replaying() && !replay_in(L1N), bad1);
    if (replay_in(L1N))
        return R.finish();
    for (long long i = 0; i < l1n; i++) {
        if (bad1.count(i))
            continue;
        int op;
        std::vector<int> ix;
        dec1(i, op, ix);
        std::vector<RCP<const Basic>> a;
        for (int k : ix)
            a.push_back(SS.S[k].e);
        try {
            SS.add(apply_op(op, a), desc_of(op, ix), 1);
        } catch (std::exception &) {
        }
    }
    sync();
    const long long n1 = SS.size();
    R.counters["states_S1"] = n1;
    // composite (non-leaf-type) states whose value is known
    std::vector<int> comp;
    for (long long i = n0; i < n1; i++) {
        const Basic &e = *SS.S[i].e;
        if (SV[i].ok && (is_a<MatrixAdd>(e) || is_a<MatrixMul>(e) || is_a<HadamardProduct>(e) || is_a<Transpose>(e) || is_a<ConjugateMatrix>(e)))
            comp.push_back(i);
    }
    const long long ncp = comp.size();
    R.counters["states_S1_composite(symbolic)"] = ncp;
    std::string bound = "matrix_add/matrix_mul/hadamard_product on all ordered pairs of the " + std::to_string(n0)
                        + " leaves, transpose/conjugate/scalar multiples of every leaf, predicates+size+trace on every leaf and result";

    // ---- layer 2: every composite state against leaves (both orders), unary ops on composites
    std::vector<int> sub2; // leaves paired with composites (quick: a subset)
    {
        static const std::set<std::string> pick = {"Identity(2)", "Zero(2,2)", "A", "B", "Diag(0,1)", "Diag(1,0)", "Diag(x,1)", "Diag(0,x)",
                                                   "Diag(x,x)", "Diag(I,2)", "[[1,2],[0,1]]", "[[0,1],[1,0]]", "[[1,1],[2,0]]",
                                                   "[[0,1],[0,0]]", "[[0,0],[1,0]]", "[[1,1],[1,1]]", "[[2,1],[1,2]]", "[[0,2],[1,0]]",
                                                   "[[1,0],[2,1]]", "[[1,2],[2,2]]", "[[I,1],[0,x]]", "[[1,x],[x,2]]", "[[1,2]]",
                                                   "[[1],[2]]", "Zero(1,2)", "Zero(2,1)"};
        for (int i = 0; i < n0; i++)
            if (thorough || pick.count(SS.S[i].recipe))
                sub2.push_back(i);
    }
    const long long ns2 = sub2.size();
    const std::string L2N = "L2:op(C1,S0')+op(S0',C1)";
    const long long l2n = ncp * ns2 * 2 * NBIN + ncp * NUN;
    DecFn dec2 = [&](long long i, int &op, std::vector<int> &ix) {
        if (i < ncp * ns2 * 2 * NBIN) {
            op = i % NBIN;
            i /= NBIN;
            int dir = i % 2;
            i /= 2;
            int leaf = sub2[i % ns2], big = comp[i / ns2];
            ix = dir ? std::vector<int>{leaf, big} : std::vector<int>{big, leaf};
        } else {
            i -= ncp * ns2 * 2 * NBIN;
            op = NBIN + i % NUN;
            ix = {comp[i / NUN]};
        }
    };
    std::set<long long> bad2;
    if (!past_deadline()) {
        run_layer(L2N, l2n, dec2, false, bad2);
        if (replay_in(L2N))
            return R.finish();
        bound += "; every binary op between each of the " + std::to_string(ncp) + " composite (symbolic) states of S1 and each of "
                 + std::to_string(ns2) + " leaves, both orders, and unary ops on them";
    }

    // ---- 3-operand calls over a leaf subset (merge rules depend on the order of concrete factors)
    {
        std::vector<int> t3;
        static const std::set<std::string> pick = {"Identity(2)", "Zero(2,2)", "A", "B", "Diag(0,1)", "Diag(x,1)", "Diag(x,x)", "[[1,2],[0,1]]",
                                                   "[[0,1],[1,0]]", "[[1,1],[2,0]]", "[[I,1],[0,x]]", "[[1,2]]", "[[1],[2]]"};
        static const std::set<std::string> pickt = {"Diag(1,x)", "[[2,0],[1,1]]", "[[0,1],[0,0]]", "Zero(2,1)", "Diag(I,2)"};
        for (int i = 0; i < n0; i++)
            if (pick.count(SS.S[i].recipe) || (thorough && pickt.count(SS.S[i].recipe)))
                t3.push_back(i);
        const long long m = t3.size();
        const std::string L3N = "N3:op(S0',S0',S0')";
        DecFn dec3 = [&](long long i, int &op, std::vector<int> &ix) {
            op = i % NBIN;
            i /= NBIN;
            ix = {t3[i / m / m], t3[(i / m) % m], t3[i % m]};
        };
        std::set<long long> bad3;
        if (!past_deadline()) {
            run_layer(L3N, m * m * m * NBIN, dec3, false, bad3);
            if (replay_in(L3N))
                return R.finish();
            bound += "; 3-operand matrix_add/matrix_mul/hadamard_product on all ordered triples of " + std::to_string(m) + " leaves";
        }
    }

    // ---- thorough: composite x composite
    if (thorough && !past_deadline()) {
        const std::string L4N = "L4:op(C1,C1)";
        DecFn dec4 = [&](long long i, int &op, std::vector<int> &ix) {
            op = i % NBIN;
            i /= NBIN;
            ix = {comp[i / ncp], comp[i % ncp]};
        };
        std::set<long long> bad4;
        run_layer(L4N, ncp * ncp * NBIN, dec4, false, bad4);
        bound += "; every binary op on all ordered pairs of composite states";
    }
    bound += " (operand-kind classes whose first member crashed are quarantined: counted, not run)";

    R.states = SS.size();
    R.transitions = R.evaluations;
    R.bound_completed = bound;
    R.rule = "E1: leaves = the 81 2x2 matrices over {0,1,2} (via immutable_dense_matrix, so zero/identity/diagonal ones canonicalise), "
             "Diag over {0,1,x}, Identity(2), Zero(2,2), MatrixSymbols A,B, complex/symbolic-entry matrices, 1x2/2x1 dense and zero (+3x3 in "
             "thorough); ops matrix_add, matrix_mul, hadamard_product, transpose, conjugate_matrix, scalar multiples, trace; each result "
             "tree is interpreted densely with entries as formal polynomials over Q(i) in x, conj x and the entries of A, B and their "
             "conjugates and compared (exact identity) with the operation on the operand values; every definite predicate answer "
             "(is_zero/diagonal/symmetric/lower/upper/real/square/toeplitz) and size must hold for every substitution: decided formally, "
             "else by enumerating A,B over all 2x2 {0,1} (thorough {0,1,2}) matrices and x in {0,1,2,I}. distinct_nontrivial = transitions "
             "whose result is not the operator's plain node";
    R.assumptions = {"trusted: the driver's polynomial arithmetic over Gaussian rationals and dense interpreter",
                     "MatrixSymbols are interpreted as 2x2 (the library does not know their size); combinations whose model shapes do not fit are counted, not judged",
                     "symbolic dimensions (Identity(n), Zero(m,n)) are not covered"};
    return R.finish();
}
