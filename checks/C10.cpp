// C10  Differentiation is correct -- E1 explicit-state search + numeric differentiation (DESIGN 5 C10)
//
// States: leaves S0, S1 = every operator/function on S0, S2 = arithmetic on S1xS0 u S0xS1 plus every
// differentiable function applied to every S1 state; D = Derivative/Subs objects returned by diff on those
// states; Piecewise states; polynomial types with an exact dictionary oracle; Dummy/Symbol name collision.
// Per state and per variable in {x,y,z}:
//   (a) the variable does not occur free (own walk)  =>  diff is exactly 0 (Integer 0, or the zero polynomial)
//   (b) diff(x,cache=true) and diff(x,cache=false) have the same structural key and are eq
//   (c) RefEval(diff(e,x))(p) == 8th-order central difference of RefEval(e) in x at p, 4 fixed points
#include "checks/a9_terms.h"
using namespace verif;
using namespace a9;

static std::vector<Env> G;
static std::vector<bool> Greal;
static std::vector<RCP<const Symbol>> VARS;
static Builder BD;
static rq TOL = 1e-18Q;

enum {
    K_PAIRS,
    K_ABSENT_ZERO,
    K_ABSENT_ZERO_POLY,
    K_THROW,
    K_VALUE_JUDGED,
    K_POINTS_JUDGED,
    K_PT_SKIP_EXPECTED_UNDEF,
    K_PT_SKIP_RESULT_UNDEF,
    K_PT_SKIP_NONHOLO_COMPLEX,
    K_PT_SKIP_KINK,
    K_PT_SKIP_UNSTABLE,
    K_PT_SKIP_COMPLEX_SPECIAL,
    K_PT_SKIP_DERIV_ORDER,
    K_PT_SKIP_UNSUPPORTED,
    K_PT_FLOAT_TOL,
    K_PT_ONCUT_TWOSIDED,
    K_ERR_LT_1E30,
    K_ERR_LT_1E25,
    K_ERR_LT_1E22,
    K_ERR_LT_1E20,
    K_ERR_LT_1E18,
    K_ERR_GE_1E18_FLOAT,
    K_RESULT_HAS_DERIVATIVE,
    K_RESULT_HAS_SUBS,
    K_PAIRS_NO_POINT_JUDGED,
    K_PW_PIECES,
    K_PAIRS_SLOWREF_NOT_VALUE_CHECKED,
    K_PT_SKIP_ON_CUT,
    K_PT_NESTED_TOL,
    K_ABSENT_FLOAT_ZERO,
    K_NCOUNT
};
static const std::vector<std::string> CN = {"(state,variable)_pairs",
                                            "variable_absent=>Integer0_confirmed",
                                            "variable_absent=>zero_polynomial_confirmed",
                                            "diff_refused(exception)",
                                            "pairs_value_judged(>=1 point)",
                                            "points_value_compared",
                                            "points_skipped_expected_undefined(pole/nonfinite/near-cut)",
                                            "points_skipped_result_undefined(pole/nonfinite/near-cut)",
                                            "points_skipped_nonholomorphic_node_at_complex_argument",
                                            "points_skipped_near_kink(abs/sign/floor/max/min/...)",
                                            "points_skipped_stencil_unstable(h vs 2h disagree)",
                                            "points_skipped_complex_argument_of_real_special_function",
                                            "points_skipped_derivative_order>2",
                                            "points_skipped_unsupported_node",
                                            "points_compared_with_float_tolerance",
                                            "points_on_cut_two_sided",
                                            "relerr<1e-30",
                                            "relerr<1e-25",
                                            "relerr<1e-22",
                                            "relerr<1e-20",
                                            "relerr<1e-18",
                                            "relerr>=1e-18(float_leaf_or_nested_stencil)",
                                            "results_containing_Derivative",
                                            "results_containing_Subs",
                                            "pairs_with_variable_present_but_no_point_judged",
                                            "piecewise_pieces_checked",
                                            "pairs_not_value_checked(zeta/eta beyond S1, nested stencil over MPFR functions beyond depth 2)",
                                            "points_skipped_real_point_on_a_branch_cut_of_the_state(not differentiable)",
                                            "points_compared_with_nested_stencil_tolerance(1e-10)",
                                            "variable_absent=>floating-point_zero(0.0 / 0.0+0.0i)_accepted"};

static const std::set<TypeID> NONHOLO = {SYMENGINE_ABS,   SYMENGINE_CONJUGATE, SYMENGINE_SIGN, SYMENGINE_FLOOR,
                                         SYMENGINE_CEILING, SYMENGINE_TRUNCATE, SYMENGINE_MAX,  SYMENGINE_MIN,
                                         SYMENGINE_KRONECKERDELTA, SYMENGINE_ATAN2};
static const std::set<TypeID> DERIVSUBS = {SYMENGINE_DERIVATIVE, SYMENGINE_SUBS};
// mpfr_zeta at 192 bits costs 1-30 ms per call: states containing these are value-checked only in S0/S1
static const std::set<TypeID> SLOWREF = {SYMENGINE_ZETA, SYMENGINE_DIRICHLET_ETA};
// 50-100 us per call; only a problem under nested stencils (64-512 calls per point)
static const std::set<TypeID> MPFRREF = {SYMENGINE_GAMMA,      SYMENGINE_LOGGAMMA,   SYMENGINE_ERF,  SYMENGINE_ERFC,     SYMENGINE_POLYGAMMA,
                                         SYMENGINE_LOWERGAMMA, SYMENGINE_UPPERGAMMA, SYMENGINE_BETA, SYMENGINE_LAMBERTW};

// Every non-holomorphic node must have exactly real arguments at the point (so that the real-direction
// stencil and the chain rule agree) and must be away from its kink by a margin far larger than the stencil.
// returns 0 ok, 1 complex argument, 2 near kink / undecidable
static int kink_status(const Basic &e, const Env &env)
{
    TypeID t = e.get_type_code();
    if (t == SYMENGINE_SUBS) {
        const Subs &s = down_cast<const Subs &>(e);
        Env e2 = env;
        int worst = 0;
        for (auto &p : s.get_dict()) {
            worst = std::max(worst, kink_status(*p.second, env));
            Value v = refeval(*p.second, env);
            if (!v.ok || !is_a_sub<Symbol>(*p.first))
                return 2;
            e2.sym[down_cast<const Symbol &>(*p.first).get_name()] = v.v;
        }
        return std::max(worst, kink_status(*s.get_arg(), e2));
    }
    int worst = 0;
    if (NONHOLO.count(t)) {
        std::vector<cq> a;
        for (auto &x : e.get_args()) {
            Value v = refeval(*x, env);
            if (!v.ok)
                return 2;
            if (im(v.v) != 0)
                return 1;
            a.push_back(v.v);
        }
        auto far = [](rq d, rq mag) { return fabsq(d) >= 0.02Q * (mag + 1); };
        switch (t) {
            case SYMENGINE_ABS:
            case SYMENGINE_SIGN:
                if (!far(re(a[0]), 0))
                    worst = 2;
                break;
            case SYMENGINE_FLOOR:
            case SYMENGINE_CEILING:
            case SYMENGINE_TRUNCATE:
                if (!far(re(a[0]) - roundq(re(a[0])), fabsq(re(a[0]))))
                    worst = 2;
                break;
            case SYMENGINE_MAX:
            case SYMENGINE_MIN:
            case SYMENGINE_KRONECKERDELTA:
                for (size_t i = 0; i < a.size(); i++)
                    for (size_t j = i + 1; j < a.size(); j++)
                        if (!far(re(a[i]) - re(a[j]), fabsq(re(a[i]))))
                            worst = 2;
                break;
            case SYMENGINE_ATAN2:
                if (!far(re(a[1]), 0) && re(a[0]) <= 0.02Q)
                    worst = 2; // near the negative real axis / origin
                break;
            default:
                break;
        }
    }
    for (auto &x : e.get_args())
        worst = std::max(worst, kink_status(*x, env));
    return worst;
}

struct NumD {
    bool ok = false;
    std::string why;
    cq v[2];
    int nsides = 1;
    rq scale = 0;
    bool has_float = false;
};
static NumD expected_derivative(const Basic &e, const std::string &var, const Env &env, rq h)
{
    NumD r;
    for (int s = 0; s < 2; s++) {
        EvalState st;
        st.env = &env;
        st.side = s == 0 ? +1 : -1;
        cq v = numdiff(e, var, st, h);
        if (!st.ok || !finite(v)) {
            r.why = st.ok ? "nonfinite" : st.why;
            return r;
        }
        r.v[s] = v;
        r.scale = fmaxq(r.scale, st.scale);
        r.has_float = r.has_float || st.has_float;
        if (!st.on_cut) {
            r.nsides = 1;
            break;
        }
        r.nsides = 2;
    }
    r.ok = true;
    return r;
}

static int skip_slot(const std::string &why, bool expected)
{
    if (why.find("complex-special") != std::string::npos || why.find("complex-atan2") != std::string::npos
        || why.find("complex-maxmin") != std::string::npos || why.find("polygamma-order") != std::string::npos
        || why.find("hurwitz") != std::string::npos || why.find("incomplete-gamma") != std::string::npos
        || why.find("loggamma-nonpositive") != std::string::npos || why.find("lambertw") != std::string::npos)
        return K_PT_SKIP_COMPLEX_SPECIAL;
    if (why.find("derivative-order") != std::string::npos)
        return K_PT_SKIP_DERIV_ORDER;
    if (why.find("unsupported") != std::string::npos || why.find("boolean-node") != std::string::npos
        || why.find("nonsymbol") != std::string::npos || why.find("unbound") != std::string::npos)
        return K_PT_SKIP_UNSUPPORTED;
    return expected ? K_PT_SKIP_EXPECTED_UNDEF : K_PT_SKIP_RESULT_UNDEF;
}

// Is e discontinuous across the real axis at this (real) point, i.e. does the point lie on a branch cut of e?
// There e is not differentiable and the property makes no claim.
static bool touches_cut(const Basic &e, const std::string &var, const Env &env)
{
    auto it = env.sym.find(var);
    if (it == env.sym.end())
        return false;
    rq dl = 1e-6Q * (absq(it->second) + 1);
    Value up = refeval(e, env_with(env, var, it->second + mkc(0, dl)));
    Value dn = refeval(e, env_with(env, var, it->second - mkc(0, dl)));
    if (!up.ok || !dn.ok) {
        if (up.why == "near-cut" || dn.why == "near-cut")
            return true;
        return false; // real-only reference functions: meromorphic or refused on their cuts by RefEval
    }
    rq sc = fmaxq(fmaxq(up.scale, dn.scale), 1e-300Q);
    return absq(up.v - dn.v) > 1e-3Q * sc;
}

struct VC {
    int judged = 0;
    bool bad = false;
    std::string msg;
};
// value check of d (claimed derivative of e with respect to var) at the grid. c==nullptr: silent (used for shrinking)
static VC value_check(const Basic &e, const Basic &d, const std::string &var, Ctx *c)
{
    VC out;
    auto cnt = [&](int k) {
        if (c)
            c->count(k);
    };
    bool nonholo = contains_type(e, NONHOLO) || contains_type(d, NONHOLO);
    bool nested = contains_type(e, {SYMENGINE_DERIVATIVE}) || contains_type(d, {SYMENGINE_DERIVATIVE});
    for (size_t g = 0; g < G.size(); g++) {
        if (nonholo) {
            if (!Greal[g]) {
                cnt(K_PT_SKIP_NONHOLO_COMPLEX);
                continue;
            }
            int ks = std::max(kink_status(e, G[g]), kink_status(d, G[g]));
            if (ks) {
                cnt(ks == 1 ? K_PT_SKIP_NONHOLO_COMPLEX : K_PT_SKIP_KINK);
                continue;
            }
        }
        Value a0 = refeval(d, G[g], +1);
        if (!a0.ok) {
            cnt(skip_slot(a0.why, false));
            continue;
        }
        NumD ex = expected_derivative(e, var, G[g], 0x1p-12Q);
        if (!ex.ok) {
            cnt(skip_slot(ex.why, true));
            continue;
        }
        if (Greal[g] && touches_cut(e, var, G[g])) {
            cnt(K_PT_SKIP_ON_CUT);
            continue;
        }
        std::vector<cq> acts = {a0.v};
        if (a0.on_cut || ex.nsides == 2) {
            Value a1 = refeval(d, G[g], -1);
            if (a1.ok)
                acts.push_back(a1.v);
            cnt(K_PT_ONCUT_TWOSIDED);
        }
        bool fl = ex.has_float || a0.has_float;
        // nested Derivative nodes are evaluated by RefEval's own fixed-step stencils (truncation up to ~1e-13 near poles)
        rq tol = (fl ? 1e-9Q : nested ? 1e-10Q : TOL) * (rq)(a0.nodes + 4);
        rq scale = fmaxq(ex.scale, a0.scale);
        rq best = 1e300Q;
        for (int s = 0; s < ex.nsides; s++)
            for (auto &y : acts) {
                rq sc = fmaxq(fmaxq(absq(ex.v[s]), absq(y)), scale);
                if (sc < 1e-300Q)
                    sc = 1e-300Q;
                best = fminq(best, absq(ex.v[s] - y) / sc);
            }
        if (best > tol) {
            // is the stencil itself trustworthy here?  Compare with the doubled step.
            NumD ex2 = expected_derivative(e, var, G[g], 0x1p-11Q);
            bool stable = ex2.ok && ex2.nsides == ex.nsides;
            if (stable)
                for (int s = 0; s < ex.nsides; s++) {
                    rq sc = fmaxq(fmaxq(absq(ex.v[s]), absq(ex2.v[s])), scale);
                    if (sc < 1e-300Q)
                        sc = 1e-300Q;
                    // 8th order: doubling h multiplies the truncation error by 256; demand it far below the mismatch
                    if (absq(ex.v[s] - ex2.v[s]) / sc > fmaxq(tol, best * 1e-3Q))
                        stable = false;
                }
            if (!stable) {
                cnt(K_PT_SKIP_UNSTABLE);
                continue;
            }
            out.bad = true;
            out.msg = "at grid point " + std::to_string(g) + " (" + var + "=" + cstr(G[g].sym.at(var), 6) + ") numeric d/d" + var + " = "
                      + cstr(ex.v[0]) + " but the returned tree evaluates to " + cstr(acts[0]) + " (relative error " + qstr(best, 6) + ")";
            return out;
        }
        if (fl)
            cnt(K_PT_FLOAT_TOL);
        if (nested)
            cnt(K_PT_NESTED_TOL);
        cnt(best < 1e-30Q   ? K_ERR_LT_1E30
            : best < 1e-25Q ? K_ERR_LT_1E25
            : best < 1e-22Q ? K_ERR_LT_1E22
            : best < 1e-20Q ? K_ERR_LT_1E20
            : best < 1e-18Q ? K_ERR_LT_1E18
                            : K_ERR_GE_1E18_FLOAT);
        cnt(K_POINTS_JUDGED);
        out.judged++;
    }
    return out;
}

static bool is_int_zero(const Basic &e)
{
    return is_a<Integer>(e) && down_cast<const Integer &>(e).is_zero();
}
// a floating-point zero (0.0, -0.0, 0.0+0.0i): still exactly zero in value
static bool is_float_zero(const Basic &e)
{
    if (is_a<RealDouble>(e))
        return down_cast<const RealDouble &>(e).i == 0.0;
    if (is_a<ComplexDouble>(e))
        return down_cast<const ComplexDouble &>(e).i.real() == 0.0 && down_cast<const ComplexDouble &>(e).i.imag() == 0.0;
    return false;
}
// a polynomial object with an empty dictionary (read through the containers, not through the library's is_zero)
static bool is_zero_poly(const Basic &e)
{
    switch (e.get_type_code()) {
        case SYMENGINE_UINTPOLY:
            return down_cast<const UIntPoly &>(e).get_poly().get_dict().empty();
        case SYMENGINE_URATPOLY:
            return down_cast<const URatPoly &>(e).get_poly().get_dict().empty();
        case SYMENGINE_UEXPRPOLY:
            return down_cast<const UExprPoly &>(e).get_poly().get_dict().empty();
        case SYMENGINE_MINTPOLY:
            return down_cast<const MIntPoly &>(e).get_poly().dict_.empty();
        case SYMENGINE_MEXPRPOLY:
            return down_cast<const MExprPoly &>(e).get_poly().dict_.empty();
        case SYMENGINE_GALOISFIELD:
            return down_cast<const GaloisField &>(e).get_poly().dict_.empty();
        default:
            return false;
    }
}

// structural descent to the innermost sub-expression that already shows the defect (one defect => one signature)
static std::string culprit_absent(const Basic &e, const RCP<const Symbol> &v)
{
    std::string id = "S:" + v->get_name();
    for (auto &a : e.get_args()) {
        if (my_free(*a).count(id))
            continue;
        try {
            RCP<const Basic> da = a->diff(v);
            if (!is_int_zero(*da) && !is_float_zero(*da))
                return culprit_absent(*a, v);
        } catch (std::exception &) {
        }
    }
    bool nf = false;
    try {
        nf = has_nonfinite(*e.diff(v));
    } catch (std::exception &) {
    }
    return nf ? "absent-nan:" + cls(e, 1) : "absent-nonzero:" + cls(e, 0);
}
static std::string culprit_nonfinite(const Basic &e, const RCP<const Symbol> &v)
{
    for (auto &a : e.get_args()) {
        try {
            if (has_nonfinite(*a->diff(v)))
                return culprit_nonfinite(*a, v);
        } catch (std::exception &) {
        }
    }
    if (!my_free(e).count("S:" + v->get_name()))
        return "absent-nan:" + cls(e, 1);
    return "nonfinite:" + cls(e, 1);
}

static std::string culprit_value(const Basic &e, const RCP<const Symbol> &v, int depth = 0)
{
    std::string id = "S:" + v->get_name();
    if (depth < 6)
        for (auto &a : e.get_args()) {
            if (!my_free(*a).count(id))
                continue;
            try {
                RCP<const Basic> da = a->diff(v);
                if (value_check(*a, *da, v->get_name(), nullptr).bad)
                    return culprit_value(*a, v, depth + 1);
            } catch (std::exception &) {
            }
        }
    return "value:" + (is_a<Pow>(e) ? cls(e, 1) : type_code_name(e.get_type_code()));
}

static void check_state(const State &S, Ctx &c)
{
    const Basic &e = *S.e;
    SymSet fr = my_free(e);
    for (auto &v : VARS) {
        c.eval();
        c.count(K_PAIRS);
        std::string vn = v->get_name();
        std::string what0 = "diff(" + S.recipe + " = " + sstr(S.e) + ", " + vn + ")";
        RCP<const Basic> d1, d0;
        try {
            d1 = e.diff(v, true);
            d0 = e.diff(v, false);
        } catch (SymEngineException &x) {
            c.count(K_THROW);
            c.outcome(std::string("throw:") + x.what());
            continue;
        }
        std::string k1 = key(*d1), k0 = key(*d0);
        if (k1 != k0 || !eq(*d1, *d0) || !eq(*d0, *d1)) {
            c.violation("cache:" + cls(e), what0 + ": cache=true gives " + sstr(d1) + " [" + k1 + "], cache=false gives "
                                               + sstr(d0) + " [" + k0 + "]");
            continue;
        }
        bool present = fr.count("S:" + vn) > 0;
        if (!present) {
            if (is_int_zero(*d1)) {
                c.count(K_ABSENT_ZERO);
                c.outcome("absent=>0");
            } else if (is_float_zero(*d1)) {
                c.count(K_ABSENT_FLOAT_ZERO);
                c.outcome("absent=>" + type_code_name(d1->get_type_code()) + " zero");
            } else
                c.violation(culprit_absent(e, v),
                            what0 + ": " + vn + " does not occur free in the expression but diff returned " + sstr(d1) + " [" + k1 + "]");
            continue;
        }
        c.nontrivial();
        c.outcome(cls(*d1, 1));
        if (contains_type(*d1, {SYMENGINE_DERIVATIVE}))
            c.count(K_RESULT_HAS_DERIVATIVE);
        if (contains_type(*d1, {SYMENGINE_SUBS}))
            c.count(K_RESULT_HAS_SUBS);
        std::string what = what0 + " returned " + sstr(d1) + " [" + k1 + "]";
        if (S.depth > 1
            && (contains_type(e, SLOWREF) || contains_type(*d1, SLOWREF)
                || (S.depth > 2 && contains_type(e, {SYMENGINE_DERIVATIVE}) && contains_type(e, MPFRREF)))) {
            c.count(K_PAIRS_SLOWREF_NOT_VALUE_CHECKED);
            continue;
        }
        if (has_nonfinite(*d1)) {
            // a zoo/nan inside the derivative of a finite expression: wrong wherever the true derivative is finite
            bool finite_somewhere = false;
            for (size_t g = 0; g < G.size() && !finite_somewhere; g++)
                finite_somewhere = expected_derivative(e, vn, G[g], 0x1p-12Q).ok;
            if (finite_somewhere) {
                c.violation(culprit_nonfinite(e, v), what + " which contains zoo/nan although the derivative is finite at the grid");
                continue;
            }
        }
        if (is_a<Piecewise>(e)) {
            // piece-wise oracle: same conditions, every piece differentiated
            const PiecewiseVec &pe = down_cast<const Piecewise &>(e).get_vec();
            if (!is_a<Piecewise>(*d1) || down_cast<const Piecewise &>(*d1).get_vec().size() != pe.size()) {
                c.violation("piecewise-shape", what + ": result is not a Piecewise with the same number of pieces");
                continue;
            }
            const PiecewiseVec &pd = down_cast<const Piecewise &>(*d1).get_vec();
            int tot = 0;
            bool bad = false;
            for (size_t i = 0; i < pe.size() && !bad; i++) {
                if (key(*pe[i].second) != key(*pd[i].second)) {
                    c.violation("piecewise-condition", what + ": condition of piece " + std::to_string(i) + " changed");
                    bad = true;
                    break;
                }
                c.count(K_PW_PIECES);
                VC r = value_check(*pe[i].first, *pd[i].first, vn, &c);
                if (r.bad) {
                    c.violation(culprit_value(*pe[i].first, v), what + " piece " + std::to_string(i) + "; " + r.msg);
                    bad = true;
                } else
                    tot += r.judged;
            }
            if (!bad && tot > 0)
                c.count(K_VALUE_JUDGED);
            continue;
        }
        VC r = value_check(e, *d1, vn, &c);
        int j = r.judged;
        if (r.bad) {
            c.violation(culprit_value(e, v), what + "; " + r.msg);
            continue;
        }
        if (j > 0)
            c.count(K_VALUE_JUDGED);
        else
            c.count(K_PAIRS_NO_POINT_JUDGED);
        if (c.index % 20011 == 0)
            c.sample("{\"state\":" + jstr(S.recipe) + ",\"expr\":" + jstr(sstr(S.e)) + ",\"var\":" + jstr(vn) + ",\"diff\":"
                     + jstr(sstr(d1)) + ",\"points_judged\":" + std::to_string(j) + "}");
    }
}

static void run_states(const std::string &name, int first, int last)
{
    CaseSet cs;
    cs.name = name;
    cs.n = last - first;
    cs.counter_names = CN;
    cs.hang_s = 150; // nested stencils over MPFR special functions take seconds when the machine is oversubscribed
    cs.desc = [&, first](long long i) { return "diff of state " + BD.SS.S[first + i].recipe + " wrt x,y,z"; };
    cs.crash_sig = [&, first](long long i, const std::string &oc) { return "diff:" + oc + ":" + cls(*BD.SS.S[first + i].e); };
    cs.body = [&, first](long long i, Ctx &c) {
        double t0 = now();
        check_state(BD.SS.S[first + i], c);
        double dt = now() - t0;
        if (getenv("C10_SLOW") && dt > atof(getenv("C10_SLOW")))
            fprintf(stderr, "SLOW %.3fs %s\n", dt, BD.SS.S[first + i].recipe.c_str());
    };
    double t0 = now();
    run_cases(cs);
    fprintf(stderr, "[C10] %s: %lld states in %.1fs (t=%.1fs)\n", name.c_str(), cs.n, now() - t0, now() - opts().t0);
}

// ------------------------------------------------------------------------------------------ polynomial types
struct PolyCase {
    std::string name;
    RCP<const Basic> p;
    std::map<std::string, RCP<const Basic>> expect; // variable -> expected derivative (built from my own dictionary)
};
static std::vector<PolyCase> PC;

static void build_poly_cases(bool thorough)
{
    RCP<const Symbol> x = symbol("x"), y = symbol("y"), z = symbol("z");
    // univariate integer / rational / GF(p) dictionaries: all coefficient vectors over a small alphabet
    std::vector<long> ca = {0, 1, -1, 2, 7};
    int deg = thorough ? 4 : 3;
    long total = 1;
    for (int i = 0; i <= deg; i++)
        total *= ca.size();
    for (long code = 0; code < total; code++) {
        std::vector<long> cf;
        long t = code;
        for (int i = 0; i <= deg; i++) {
            cf.push_back(ca[t % ca.size()]);
            t /= ca.size();
        }
        std::string nm;
        for (auto v : cf)
            nm += std::to_string(v) + ",";
        {
            map_uint_mpz d, dd;
            for (int k = 0; k <= deg; k++)
                if (cf[k] != 0) {
                    d[k] = integer_class(cf[k]);
                    if (k > 0)
                        dd[k - 1] = integer_class(cf[k] * k);
                }
            PolyCase pc;
            pc.name = "UIntPoly(x;[" + nm + "])";
            pc.p = UIntPoly::from_dict(x, std::move(d));
            pc.expect["x"] = UIntPoly::from_dict(x, std::move(dd));
            pc.expect["y"] = pc.expect["z"] = UIntPoly::from_dict(x, {{}});
            PC.push_back(pc);
        }
        {
            map_uint_mpq d, dd;
            for (int k = 0; k <= deg; k++)
                if (cf[k] != 0) {
                    d[k] = rational_class(cf[k], k + 2);
                    if (k > 0)
                        dd[k - 1] = rational_class(cf[k] * k, k + 2);
                }
            for (auto &p : d)
                canonicalize(p.second);
            for (auto &p : dd)
                canonicalize(p.second);
            PolyCase pc;
            pc.name = "URatPoly(x;[" + nm + "]/(k+2))";
            pc.p = URatPoly::from_dict(x, std::move(d));
            pc.expect["x"] = URatPoly::from_dict(x, std::move(dd));
            pc.expect["y"] = pc.expect["z"] = URatPoly::from_dict(x, {{}});
            PC.push_back(pc);
        }
        for (long p : {2L, 3L, 5L}) {
            map_uint_mpz d, dd;
            for (int k = 0; k <= deg; k++) {
                long cm = ((cf[k] % p) + p) % p;
                if (cm != 0)
                    d[k] = integer_class(cm);
                long dm = ((cf[k] * k % p) + p) % p;
                if (k > 0 && dm != 0)
                    dd[k - 1] = integer_class(dm);
            }
            PolyCase pc;
            pc.name = "GF(" + std::to_string(p) + ")(x;[" + nm + "])";
            pc.p = GaloisField::from_dict(x, GaloisFieldDict(d, integer_class(p)));
            pc.expect["x"] = GaloisField::from_dict(x, GaloisFieldDict(dd, integer_class(p)));
            map_uint_mpz e0;
            pc.expect["y"] = pc.expect["z"] = GaloisField::from_dict(x, GaloisFieldDict(e0, integer_class(p)));
            PC.push_back(pc);
        }
    }
    // expression coefficients with hand-written derivatives with respect to y
    std::vector<std::pair<RCP<const Basic>, RCP<const Basic>>> ce
        = {{integer(0), integer(0)},          {integer(1), integer(0)},
           {y, integer(1)},                   {add(y, integer(1)), integer(1)},
           {mul(integer(2), y), integer(2)},  {pow(y, integer(2)), mul(integer(2), y)}};
    int edeg = 2;
    long etotal = 1;
    for (int i = 0; i <= edeg; i++)
        etotal *= ce.size();
    for (long code = 0; code < etotal; code++) {
        std::vector<int> ix;
        long t = code;
        for (int i = 0; i <= edeg; i++) {
            ix.push_back(t % ce.size());
            t /= ce.size();
        }
        map_int_Expr d, dx, dy;
        std::string nm;
        for (int k = 0; k <= edeg; k++) {
            nm += sstr(ce[ix[k]].first) + ",";
            if (ix[k] == 0)
                continue;
            d[k] = Expression(ce[ix[k]].first);
            if (k > 0)
                dx[k - 1] = Expression(mul(integer(k), ce[ix[k]].first));
            if (!is_int_zero(*ce[ix[k]].second))
                dy[k] = Expression(ce[ix[k]].second);
        }
        PolyCase pc;
        pc.name = "UExprPoly(x;[" + nm + "])";
        pc.p = UExprPoly::from_dict(x, std::move(d));
        pc.expect["x"] = UExprPoly::from_dict(x, std::move(dx));
        pc.expect["y"] = UExprPoly::from_dict(x, std::move(dy));
        pc.expect["z"] = UExprPoly::from_dict(x, {{}});
        PC.push_back(pc);
    }
    // multivariate: all subsets of a monomial menu in (x,y) with fixed coefficients
    std::vector<std::pair<std::vector<unsigned>, long>> mono = {{{0, 0}, 5}, {{1, 0}, 2}, {{0, 1}, -3}, {{1, 1}, 4}, {{2, 0}, 1}, {{0, 3}, 7}, {{2, 1}, -1}};
    for (unsigned mask = 0; mask < (1u << mono.size()); mask++) {
        umap_uvec_mpz d, dx, dy;
        umap_vec_expr de, dex, dey, dez;
        std::string nm;
        for (size_t i = 0; i < mono.size(); i++) {
            if (!((mask >> i) & 1))
                continue;
            unsigned ex = mono[i].first[0], ey = mono[i].first[1];
            long cc = mono[i].second;
            nm += std::to_string(cc) + "x^" + std::to_string(ex) + "y^" + std::to_string(ey) + " ";
            d[{ex, ey}] = integer_class(cc);
            if (ex > 0)
                dx[{ex - 1, ey}] = integer_class(cc * ex);
            if (ey > 0)
                dy[{ex, ey - 1}] = integer_class(cc * ey);
            // expression version: coefficient cc*z
            de[{(int)ex, (int)ey}] = Expression(mul(integer(cc), z));
            if (ex > 0)
                dex[{(int)ex - 1, (int)ey}] = Expression(mul(integer(cc * ex), z));
            if (ey > 0)
                dey[{(int)ex, (int)ey - 1}] = Expression(mul(integer(cc * ey), z));
            dez[{(int)ex, (int)ey}] = Expression(integer(cc));
        }
        {
            PolyCase pc;
            pc.name = "MIntPoly(x,y;" + nm + ")";
            pc.p = MIntPoly::from_dict({x, y}, std::move(d));
            pc.expect["x"] = MIntPoly::from_dict({x, y}, std::move(dx));
            pc.expect["y"] = MIntPoly::from_dict({x, y}, std::move(dy));
            pc.expect["z"] = MIntPoly::from_dict({x, y}, {{}});
            PC.push_back(pc);
        }
        {
            PolyCase pc;
            pc.name = "MExprPoly(x,y;z*(" + nm + "))";
            pc.p = MExprPoly::from_dict({x, y}, std::move(de));
            pc.expect["x"] = MExprPoly::from_dict({x, y}, std::move(dex));
            pc.expect["y"] = MExprPoly::from_dict({x, y}, std::move(dey));
            pc.expect["z"] = MExprPoly::from_dict({x, y}, std::move(dez));
            PC.push_back(pc);
        }
    }
}

static void run_polys()
{
    CaseSet cs;
    cs.name = "polys";
    cs.n = PC.size();
    cs.counter_names = CN;
    cs.desc = [&](long long i) { return "diff of " + PC[i].name + " wrt x,y,z"; };
    cs.crash_sig = [&](long long i, const std::string &oc) { return "diff:" + oc + ":" + type_code_name(PC[i].p->get_type_code()); };
    cs.body = [&](long long i, Ctx &c) {
        const PolyCase &pc = PC[i];
        SymSet fr = my_free(*pc.p);
        for (auto &v : VARS) {
            c.eval();
            c.count(K_PAIRS);
            std::string vn = v->get_name();
            RCP<const Basic> d1, d0;
            try {
                d1 = pc.p->diff(v, true);
                d0 = pc.p->diff(v, false);
            } catch (SymEngineException &x) {
                c.count(K_THROW);
                c.outcome(std::string("throw:") + x.what());
                continue;
            }
            std::string tn = type_code_name(pc.p->get_type_code());
            std::string what = "diff(" + pc.name + " = " + sstr(pc.p) + ", " + vn + ") returned " + sstr(d1) + " [" + key(*d1) + "]";
            if (key(*d1) != key(*d0) || !eq(*d1, *d0)) {
                c.violation("cache:" + tn, what + " but cache=false gives " + sstr(d0));
                continue;
            }
            const RCP<const Basic> &want = pc.expect.at(vn);
            bool present = fr.count("S:" + vn) > 0;
            std::string kw = key(*want), kd = key(*d1);
            if (!present) {
                // exactly zero: Integer 0 or the zero polynomial of the same type
                if (is_int_zero(*d1))
                    c.count(K_ABSENT_ZERO);
                else if (d1->get_type_code() == pc.p->get_type_code() && is_zero_poly(*d1)) {
                    c.count(K_ABSENT_ZERO_POLY);
                    if (kd != kw)
                        c.outcome(tn + ":zero-polynomial-but-not-the-canonical-one(" + kd + ")");
                }
                else
                    c.violation("absent-nonzero:" + tn, what + ": " + vn + " does not occur but the result is not zero");
                c.outcome(tn + ":absent=>0");
                continue;
            }
            c.nontrivial();
            c.outcome(tn + (kd == kw ? ":dict-match" : ":dict-mismatch"));
            if (kd != kw) {
                bool is_main = vn == "x" || (vn == "y" && (tn.find("MIntPoly") == 0 || tn.find("MExprPoly") == 0));
                c.violation(std::string("poly-dict:") + tn + (is_main ? ":d/d(generator)" : ":d/d(symbol-in-coefficients)"),
                            what + " but differentiating the dictionary term by term gives " + sstr(want) + " [" + kw + "]");
            } else
                c.count(K_VALUE_JUDGED);
        }
    };
    run_cases(cs);
}

// ------------------------------------------------------------------------------------------ Dummy vs Symbol of the same name
static void run_dummy()
{
    RCP<const Symbol> x = symbol("x");
    RCP<const Symbol> dx = dummy("x"), dx2 = dummy("x");
    struct DC {
        std::string name;
        RCP<const Basic> e;
        RCP<const Symbol> v;
        RCP<const Basic> want;
    };
    static std::vector<DC> dc;
    dc = {{"diff(Dummy('x'), Symbol('x'))", dx, x, integer(0)},
          {"diff(Symbol('x'), Dummy('x'))", x, dx, integer(0)},
          {"diff(Dummy('x')#1, Dummy('x')#2)", dx, dx2, integer(0)},
          {"diff(Dummy('x'), same Dummy)", dx, dx, integer(1)},
          {"diff(Dummy('x')*Symbol('x'), Symbol('x'))", mul(dx, x), x, dx},
          {"diff(sin(Dummy('x')), Symbol('x'))", sin(dx), x, integer(0)},
          {"diff(Dummy('x')+Symbol('y'), Symbol('x'))", add(dx, symbol("y")), x, integer(0)}};
    CaseSet cs;
    cs.name = "dummy-name-collision";
    cs.n = dc.size();
    cs.counter_names = CN;
    cs.desc = [&](long long i) { return dc[i].name; };
    cs.body = [&](long long i, Ctx &c) {
        c.eval();
        c.count(K_PAIRS);
        RCP<const Basic> d = dc[i].e->diff(dc[i].v);
        c.nontrivial();
        c.outcome("dummy:" + sstr(d));
        // compare through sym_id-based structure: expected results are 0, 1 or the dummy itself
        bool ok = false;
        if (is_a<Integer>(*dc[i].want))
            ok = is_a<Integer>(*d) && key(*d) == key(*dc[i].want);
        else
            ok = is_a<Dummy>(*d) && sym_id(*d) == sym_id(*dc[i].want);
        if (!ok)
            c.violation("dummy-symbol-same-name", dc[i].name + " returned " + sstr(d) + ", expected " + sstr(dc[i].want)
                                                      + " (a Dummy and a Symbol with the same name are different symbols)");
        else
            c.count(K_VALUE_JUDGED);
    };
    run_cases(cs);
}

int main(int argc, char **argv)
{
    init(argc, argv, "C10");
    bool thorough = opts().thorough();
    Run &R = run();
    RCP<const Symbol> x = symbol("x"), y = symbol("y"), z = symbol("z");
    VARS = {x, y, z};
    G.resize(4);
    G[0].sym = {{"x", mkc(0.7Q, 0.4Q)}, {"y", mkc(-1.3Q, 0.6Q)}, {"z", mkc(0.45Q, -0.8Q)}};
    G[1].sym = {{"x", mkc(1.7Q, 0)}, {"y", mkc(0.6Q, 0)}, {"z", mkc(2.3Q, 0)}};
    G[2].sym = {{"x", mkc(-0.8Q, 0.3Q)}, {"y", mkc(2.1Q, -0.9Q)}, {"z", mkc(-0.35Q, 1.2Q)}};
    G[3].sym = {{"x", mkc(-0.45Q, 0)}, {"y", mkc(0.3Q, 0)}, {"z", mkc(1.2Q, 0)}};
    Greal = {false, true, false, true};
    if (getenv("C10_TOL"))
        TOL = strtoflt128(getenv("C10_TOL"), nullptr);

    auto Rt = [](long a, long b) { return Rational::from_two_ints(a, b); };
    std::vector<std::pair<std::string, B>> leaves = {{"x", x},         {"y", y},   {"2", integer(2)}, {"-1", integer(-1)},
                                                     {"1/2", Rt(1, 2)}, {"pi", pi}, {"I", I}};
    if (thorough) {
        leaves.push_back({"3", integer(3)});
        leaves.push_back({"0.5", real_double(0.5)});
    }
    for (auto &l : leaves)
        BD.SS.add(l.second, l.first, 0);
    const int n0 = BD.SS.size();
    BD.un = all_unary();
    BD.bin = arith_ops();
    const int NAR = BD.bin.size();
    for (auto &b : all_binfun())
        BD.bin.push_back(b);
    const int NBIN = BD.bin.size(), NUN = BD.un.size();

    // ---- S1: every operator and function on leaves
    std::vector<Trans> t1;
    for (int a = 0; a < n0; a++)
        for (int b = 0; b < n0; b++)
            for (int op = 0; op < NBIN; op++)
                t1.push_back({1, op, a, b});
    for (int a = 0; a < n0; a++)
        for (int op = 0; op < NUN; op++)
            t1.push_back({0, op, a, a});
    BD.layer("S1", t1, 1);
    const int n1 = BD.SS.size();
    R.counters["states_S0"] = n0;
    R.counters["states_S1"] = n1;
    run_states("diff:S0+S1", 0, n1);

    // ---- S2: arithmetic on S1xS0 u S0xS1, every function of every S1 state, (thorough) two-argument functions too
    std::vector<Trans> t2;
    // thorough adds the two-argument functions with a chain-rule of their own (atan2, log_b, g) and max
    auto in_s2 = [&](int op) {
        if (op < NAR)
            return true;
        const std::string &n = BD.bin[op].name;
        return thorough && (n == "atan2" || n == "logb" || n == "g" || n == "max");
    };
    for (int a = n0; a < n1; a++)
        for (int b = 0; b < n0; b++)
            for (int op = 0; op < NBIN; op++) {
                if (!in_s2(op))
                    continue;
                t2.push_back({1, op, a, b});
                t2.push_back({1, op, b, a});
            }
    for (int a = n0; a < n1; a++)
        for (int op = 0; op < NUN; op++)
            t2.push_back({0, op, a, a});
    // (zeta/dirichlet_eta states are built like all others; beyond S1 only checks (a),(b) apply to them)
    std::string bound = "S0 (" + std::to_string(n0) + " leaves), S1 = all " + std::to_string(NBIN) + " binary and " + std::to_string(NUN)
                        + " unary operators on leaves (" + std::to_string(n1) + " states)";
    int n2 = n1;
    if (!past_deadline()) {
        BD.layer("S2", t2, 2);
        n2 = BD.SS.size();
        R.counters["states_S2"] = n2 - n1;
        run_states("diff:S2", n1, n2);
        bound += ", S2 = " + std::string(thorough ? "arithmetic, atan2, log_b, g, max" : "arithmetic") + " on S1xS0 u S0xS1 + every unary function of every S1 state ("
                 + std::to_string(n2 - n1) + " states)";
    }

    // ---- D: Derivative / Subs objects produced by diff on already-checked states (parent recomputation is safe:
    //         the same calls ran in isolated workers above), differentiated again
    int nd0 = BD.SS.size();
    if (!past_deadline()) {
        static const std::set<TypeID> OPAQUE = {SYMENGINE_FUNCTIONSYMBOL, SYMENGINE_ABS,   SYMENGINE_SIGN,     SYMENGINE_FLOOR,
                                                SYMENGINE_CEILING,        SYMENGINE_TRUNCATE, SYMENGINE_CONJUGATE, SYMENGINE_MAX,
                                                SYMENGINE_MIN,            SYMENGINE_ZETA,  SYMENGINE_DIRICHLET_ETA, SYMENGINE_KRONECKERDELTA,
                                                SYMENGINE_POLYGAMMA,      SYMENGINE_LOWERGAMMA, SYMENGINE_UPPERGAMMA, SYMENGINE_UNEVALUATED_EXPR,
                                                SYMENGINE_DERIVATIVE,     SYMENGINE_SUBS};
        static const std::set<TypeID> FS = {SYMENGINE_FUNCTIONSYMBOL};
        for (int i = 0; i < n2; i++) {
            const State &S = BD.SS.S[i];
            if (!contains_type(*S.e, i < n1 ? OPAQUE : FS))
                continue;
            // g(s1, s0) / g(s0, s1) states of the thorough S2 layer are checked themselves but not differentiated twice
            if (i >= n1 && is_a<FunctionSymbol>(*S.e) && down_cast<const FunctionSymbol &>(*S.e).get_name() == "g")
                continue;
            for (int vi = 0; vi < 2; vi++) {
                try {
                    B d = S.e->diff(VARS[vi]);
                    if (contains_type(*d, DERIVSUBS) && !has_nonfinite(*d))
                        BD.SS.add(d, "diff(" + S.recipe + ", " + VARS[vi]->get_name() + ")", S.depth + 1);
                } catch (std::exception &) {
                }
            }
        }
        int nd1 = BD.SS.size();
        R.counters["states_D(Derivative/Subs objects)"] = nd1 - nd0;
        run_states("diff:D", nd0, nd1);
        bound += ", D = Derivative/Subs-containing results of diff on those states (" + std::to_string(nd1 - nd0) + " states)";
        // arithmetic and functions on the first-level Derivative/Subs objects
        if (!past_deadline()) {
            std::vector<int> d1;
            for (int i = nd0; i < nd1; i++)
                if (BD.SS.S[i].depth <= 2)
                    d1.push_back(i);
            std::vector<Trans> t3;
            std::vector<int> few_un;
            for (int op = 0; op < NUN; op++)
                if (BD.un[op].name == "sin" || BD.un[op].name == "exp" || BD.un[op].name == "f" || BD.un[op].name == "abs"
                    || BD.un[op].name == "sqrt")
                    few_un.push_back(op);
            for (int a : d1) {
                for (int b = 0; b < n0; b++)
                    for (int op = 0; op < NAR; op++) {
                        t3.push_back({1, op, a, b});
                        t3.push_back({1, op, b, a});
                    }
                for (int op : few_un)
                    t3.push_back({0, op, a, a});
            }
            BD.layer("opD", t3, 3);
            int nd2 = BD.SS.size();
            R.counters["states_op(D1,S0)"] = nd2 - nd1;
            run_states("diff:op(D1,S0)", nd1, nd2);
            bound += ", arithmetic/functions on first-level D objects (" + std::to_string(nd2 - nd1) + " states)";
        }
    }

    // ---- subsD: substitution into first-level Derivative objects.  This creates Subs nodes whose *bound* variable is
    //      x or y themselves (diff only ever binds fresh _xi_N dummies), so diff by a variable that is bound in the
    //      state -- and free only in the substituted point -- is exercised (added after seeded change C10 escaped).
    if (!past_deadline()) {
        int ns0 = BD.SS.size();
        std::vector<int> d1;
        for (int i = nd0; i < ns0; i++)
            if (BD.SS.S[i].depth <= 2 && contains_type(*BD.SS.S[i].e, DERIVSUBS))
                d1.push_back(i);
        const int un0 = BD.un.size();
        auto addsub = [&](const std::string &name, const RCP<const Basic> &from, const RCP<const Basic> &to) {
            BD.un.push_back({"subs[" + name + "]", [from, to](const B &a) -> B {
                                 map_basic_basic m;
                                 m[from] = to;
                                 return a->subs(m);
                             }});
        };
        addsub("x->x^2", x, pow(x, integer(2)));
        addsub("x->y", x, y);
        addsub("x->2x+1", x, add(mul(integer(2), x), one));
        addsub("y->x", y, x);
        addsub("x->x*y", x, mul(x, y));
        std::vector<Trans> t4;
        for (int a : d1)
            for (int op = un0; op < (int)BD.un.size(); op++)
                t4.push_back({0, op, a, a});
        BD.layer("subsD", t4, 3);
        int ns1 = BD.SS.size();
        R.counters["states_subs(D1)(Subs binding x or y)"] = ns1 - ns0;
        run_states("diff:subs(D1)", ns0, ns1);
        bound += ", substitution of x/y into first-level D objects (" + std::to_string(ns1 - ns0) + " states with Subs binding x or y)";
    }

    // ---- Piecewise states: (a, x<1), (b, True)
    if (!past_deadline()) {
        int np0 = BD.SS.size();
        RCP<const Boolean> c1 = Lt(x, integer(1));
        std::vector<B> tails = {y, mul(x, y)};
        for (int a = 0; a < n1; a++)
            for (auto &tl : tails) {
                if (contains_type(*BD.SS.S[a].e, {SYMENGINE_PIECEWISE}))
                    continue;
                try {
                    B p = piecewise({{BD.SS.S[a].e, c1}, {tl, boolTrue}});
                    BD.SS.add(p, "piecewise((" + BD.SS.S[a].recipe + ", x<1), (" + sstr(tl) + ", True))", 2);
                } catch (std::exception &) {
                }
            }
        int np1 = BD.SS.size();
        R.counters["states_Piecewise"] = np1 - np0;
        run_states("diff:Piecewise", np0, np1);
        bound += ", Piecewise((s,x<1),(t,True)) for s in S1 (" + std::to_string(np1 - np0) + " states)";
    }

    // ---- polynomial types, Dummy
    build_poly_cases(thorough);
    R.counters["states_polynomial_types"] = PC.size();
    run_polys();
    run_dummy();
    bound += ", " + std::to_string(PC.size()) + " polynomial objects (UIntPoly/URatPoly/GaloisField/UExprPoly/MIntPoly/MExprPoly), 7 Dummy cases";

    R.counters["states_dropped_nonfinite(zoo/oo/nan inside)"] = BD.dropped_nonfinite;
    R.counters["duplicate_arrivals_merged"] = BD.SS.duplicate_arrivals;
    {
        struct rusage ru, rs;
        getrusage(RUSAGE_CHILDREN, &ru);
        getrusage(RUSAGE_SELF, &rs);
        R.counters["cpu_seconds(parent+workers)"] = (uint64_t)(ru.ru_utime.tv_sec + ru.ru_stime.tv_sec + rs.ru_utime.tv_sec + rs.ru_stime.tv_sec);
    }
    R.states = BD.SS.size() + PC.size();
    R.transitions = R.evaluations;
    R.bound_completed = bound;
    R.rule = "E1: states de-duplicated by structural key; each case differentiates one state with respect to x, y and z (z never occurs), cache on "
             "and off. Oracles: own free-symbol walk => exact 0; key/eq equality of cached vs uncached; RefEval(diff) vs 8th-order central "
             "difference (h=2^-12(1+|x|), 113-bit) of RefEval(state) at 4 fixed points (2 complex, 2 real), tolerance 1e-18*nodes relative to the "
             "largest intermediate (1e-9 with float leaves), on-cut points two-sided, a mismatch only counts when the stencil with 2h agrees with "
             "h; non-holomorphic nodes only at real arguments away from kinks; polynomial types by an exact term-by-term dictionary. "
             "distinct_nontrivial = (state,variable) pairs in which the variable occurs free";
    R.assumptions = {"libquadmath/MPFR elementary and special functions", "RefEval recursion incl. fixed analytic meaning of undefined f,g",
                     "Derivative nodes are read as real-direction derivatives", "points where RefEval cannot decide are skipped and counted",
                     "complex-argument special functions and derivative order > 2 are not value-checked"};
    return R.finish();
}
