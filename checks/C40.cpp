// C40  API workloads are memory-safe and leak-free -- E2 programs under ASan/UBSan + allocation balance (DESIGN 5 C40)
#include "common.h"
#include "key.h"
#include <symengine/simplify.h>
#include <symengine/expression.h>
using namespace verif;

// ------------------------------------------------------------------ allocation accounting (operator new/delete replaced;
// they forward to malloc/free, which AddressSanitizer still intercepts)
static long long g_live = 0;
void *operator new(size_t n)
{
    void *p = malloc(n ? n : 1);
    if (!p)
        throw std::bad_alloc();
    g_live++;
    return p;
}
void *operator new[](size_t n)
{
    return operator new(n);
}
void operator delete(void *p) noexcept
{
    if (p) {
        g_live--;
        free(p);
    }
}
void operator delete[](void *p) noexcept
{
    operator delete(p);
}
void operator delete(void *p, size_t) noexcept
{
    operator delete(p);
}
void operator delete[](void *p, size_t) noexcept
{
    operator delete(p);
}

// ------------------------------------------------------------------ op menu: (a, b) -> result (null = keep register)
typedef RCP<const Basic> B;
struct Op {
    std::string name;
    std::function<B(const B &, const B &)> f;
};
static std::vector<Op> OPS;
static RCP<const Symbol> X, Y;

static void build_ops()
{
    X = symbol("x");
    Y = symbol("y");
#define OP(n, ...) OPS.push_back({n, [](const B &a, const B &b) -> B { __VA_ARGS__ }})
    OP("add", return add(a, b););
    OP("sub", return sub(a, b););
    OP("mul", return mul(a, b););
    OP("div", return div(a, b););
    OP("pow", return pow(a, b););
    OP("neg", return neg(a););
    OP("sin", return sin(a););
    OP("cos", return cos(a););
    OP("exp", return exp(a););
    OP("log", return log(a););
    OP("sqrt", return sqrt(a););
    OP("abs", return abs(a););
    OP("gamma", return gamma(a););
    OP("atan2", return atan2(a, b););
    OP("max", return max({a, b}););
    OP("f(a,b)", return function_symbol("f", {a, b}););
    OP("conjugate", return conjugate(a););
    OP("expand", return expand(a););
    OP("diff_x", return a->diff(X););
    OP("diff2", return a->diff(X)->diff(Y););
    OP("subs_x->b", map_basic_basic m; m[X] = b; return a->subs(m););
    OP("xreplace_y->b", map_basic_basic m; m[Y] = b; return a->xreplace(m););
    OP("parse(str)", return parse(a->__str__()););
    OP("loads(dumps)", return Basic::loads(a->dumps()););
    OP("printers", std::string s = latex(*a) + mathml(*a) + unicode(*a) + julia_str(*a) + ccode(*a); return s.size() > 1000000 ? B() : B(););
    OP("uintpoly", auto p = from_basic<UIntPoly>(expand(a), X); auto q = mul_upoly(*p, *p); return q->as_symbolic(););
    OP("uexprpoly", auto p = from_basic<UExprPoly>(a, X); auto q = add_upoly(*p, *mul_upoly(*p, *p)); return q->as_symbolic(););
    OP("mintpoly", auto p = from_basic<MIntPoly>(expand(a)); auto q = from_basic<MIntPoly>(expand(b)); return mul_mpoly(*p, *q)->as_symbolic(););
    OP("det2x2", DenseMatrix M(2, 2, {a, b, b, a}); return M.det(););
    OP("inv2x2", DenseMatrix M(2, 2, {a, b, one, a}); DenseMatrix R(2, 2); M.inv(R); return R.get(0, 1););
    OP("matmul_trace", DenseMatrix M(2, 2, {a, b, b, one}); DenseMatrix R(2, 2); M.mul_matrix(M, R); return R.trace(););
    OP("lu_solve", DenseMatrix M(2, 2, {a, one, one, b}); DenseMatrix r(2, 1, {one, a}); DenseMatrix s(2, 1); LU_solve(M, r, s); return s.get(1, 0););
    OP("csr", DenseMatrix M(2, 3, {a, zero, b, zero, one, zero}); CSRMatrix C = CSRMatrix::from_coo(2, 3, {0, 0, 1}, {0, 2, 1}, {a, b, one});
       C.set(1, 2, b); C.set(0, 0, zero); CSRMatrix T = C.transpose(); return T.get(2, 1););
    OP("finiteset_union", RCP<const Set> s = finiteset({a, b}); RCP<const Set> u = s->set_union(interval(integer(0), integer(1)));
       return u->contains(a););
    OP("interval_ops", if (!is_a_Number(*a) || !is_a_Number(*b)) return B(); RCP<const Set> i1 = interval(rcp_static_cast<const Number>(a), integer(5));
       RCP<const Set> c = i1->set_complement(reals()); return sup(*set_intersection({i1, interval(integer(-1), integer(3))})););
    OP("solve_x", RCP<const Set> s = solve(a, X); return s;);
    OP("solve_poly_reals", RCP<const Set> s = solve(add(a, pow(X, integer(3))), X, reals()); return s;);
    OP("series4", return series(a, X, 4)->as_basic(););
    OP("eval_double", double d = eval_double(*a); return real_double(d););
    OP("evalf_complex", return evalf(*a, 53, EvalfDomain::Complex););
    OP("free_symbols+atoms", set_basic s = free_symbols(*a); set_basic f = atoms<FunctionSymbol, Symbol>(*b); bool h = has_symbol(*a, *Y);
       return integer((long)(s.size() + f.size() + h)););
    OP("coeff", return coeff(*a, *X, *integer(1)););
    OP("numer_denom", B n; B d; as_numer_denom(a, outArg(n), outArg(d)); return mul(n, d););
    OP("real_imag", B r; B i; as_real_imag(a, outArg(r), outArg(i)); return add(r, i););
    OP("rewrite_as_exp", return rewrite_as_exp(a););
    OP("simplify", return simplify(a););
    OP("cse", vec_pair subs; vec_basic red; cse(subs, red, {a, b, add(a, b)}); return red.empty() ? B() : red.back(););
    OP("hash_cmp", hash_t h = a->hash() ^ b->hash(); int c = a->__cmp__(*b); bool e = eq(*a, *b); return integer((long)((h & 1) + c + e)););
    OP("lambda", LambdaRealDoubleVisitor v; v.init({X, Y}, {a, b}); double in[2] = {0.7, 1.3}; double out[2]; v.call(out, in); return real_double(out[0] + out[1]););
    OP("piecewise", RCP<const Boolean> c = Lt(a, b); return piecewise({{a, c}, {b, boolTrue}}););
    OP("logic", RCP<const Boolean> p = Lt(a, zero); RCP<const Boolean> q = Eq(b, a); return logical_xor({logical_and({p, q}), logical_not(q)}););
    OP("is_queries", tribool t = is_positive(*a); tribool u = is_real(*b); tribool w = is_zero(*a); return integer((long)t + (long)u + (long)w););
    OP("ntheory", if (!is_a<Integer>(*a)) return B(); const Integer &i = down_cast<const Integer &>(*a); if (i.is_negative() || i.as_int() > 30) return B();
       RCP<const Integer> f = factorial(i.as_int()); map_integer_uint pf; prime_factor_multiplicities(pf, *f->addint(*integer(1))); return integer((long)pf.size()););
    OP("expression_wrapper", Expression e1(a); Expression e2(b); Expression r = (e1 + e2) * e1 - e2 / (e1 + Expression(3)); return r.get_basic(););
    OP("tuple_vec", vec_basic v = {a, b, a}; B t = tuple(v); return t->get_args()[1];);
    // exponent-merging chains (from reading Mul::dict_add_term_new / Add::dict_add_term): three powers of ONE composite base whose
    // exponents sum first to a fraction (power_num creates a fresh key that only the working dictionary owns) and then to an
    // integer (that key is erased and re-expanded); and the same through substitution without the visitor cache
    OP("mulchain", B base = mul(integer(3), a); B half = Rational::from_two_ints(1, 2);
       return mul({pow(base, b), pow(base, sub(half, b)), sqrt(a)}););
    OP("mulchain2", B base = mul(integer(3), a); B third = Rational::from_two_ints(1, 3);
       return mul({pow(base, third), b, pow(base, Rational::from_two_ints(2, 3)), pow(a, minus_one)}););
    OP("addchain", return add({b, mul(integer(2), add(a, one)), neg(add(a, one)), neg(add(a, one))}););
    OP("subs_nocache", B p = symbol("p"); B q = symbol("q"); B e = mul(sqrt(p), sqrt(q)); map_basic_basic m; m[p] = mul(integer(3), a); m[q] = mul(integer(3), a);
       B r = SymEngine::subs(e, m, false); map_basic_basic m2; m2[X] = b; return SymEngine::subs(r, m2, false););
#undef OP
}

struct Prog {
    int seed_a, seed_b, op1, dst1, op2, dst2;
};
static std::vector<std::pair<std::string, B>> POOL;

static void run_prog(const Prog &p, std::string &outcome)
{
    B r[2] = {POOL[p.seed_a].second, POOL[p.seed_b].second};
    for (int step = 0; step < 2; step++) {
        int op = step ? p.op2 : p.op1, dst = step ? p.dst2 : p.dst1;
        if (op < 0)
            break;
        try {
            B res = OPS[op].f(r[0], r[1]);
            if (!res.is_null())
                r[dst] = res;
            outcome += "ok,";
        } catch (SymEngineException &x) {
            outcome += "lib-exc,";
        } catch (std::exception &x) {
            outcome += "std-exc,";
        }
    }
}

int main(int argc, char **argv)
{
    init(argc, argv, "C40");
    bool thorough = opts().thorough();
    build_ops();
    X = symbol("x");
    POOL = {{"x", X},
            {"2", integer(2)},
            {"0", integer(0)},
            {"-1/2", Rational::from_two_ints(-1, 2)},
            {"1+I", add(one, I)},
            {"0.5", real_double(0.5)},
            {"x+y", add(X, Y)},
            {"x*y", mul(X, Y)},
            {"y", Y},
            {"x^2+1", add(pow(X, integer(2)), one)},
            {"sin(x)", sin(X)},
            {"sqrt(x)", sqrt(X)},
            {"(x+1)^3", pow(add(X, one), integer(3))},
            {"1/x", div(one, X)},
            {"pi", pi},
            {"oo", Inf},
            {"f(x)", function_symbol("f", X)}};
    const long long NP = thorough ? 14 : 9, NO = OPS.size();
    // programs: (seed pair) x (op1,dst1) x (op2,dst2 | none)
    // quick: both instructions write r0 (dst fixed); thorough: every destination choice
    const long long ND = thorough ? 2 : 1;
    const long long n1 = NO * ND, n2 = NO * ND + 1;
    CaseSet cs;
    cs.name = "programs";
    cs.n = NP * NP * n1 * n2;
    cs.hang_s = 30;
    cs.counter_names = {"programs_run", "programs_with_exception(refusal)", "allocation_balance_checked"};
    auto dec = [&](long long i) {
        Prog p;
        long long s2 = i % n2;
        i /= n2;
        long long s1 = i % n1;
        i /= n1;
        p.seed_b = i % NP;
        p.seed_a = i / NP;
        p.op1 = s1 / ND;
        p.dst1 = s1 % ND;
        p.op2 = s2 == n2 - 1 ? -1 : s2 / ND;
        p.dst2 = s2 == n2 - 1 ? 0 : s2 % ND;
        return p;
    };
    cs.desc = [&](long long i) {
        Prog p = dec(i);
        std::string d = "r0=" + POOL[p.seed_a].first + " r1=" + POOL[p.seed_b].first + "; r" + std::to_string(p.dst1) + "=" + OPS[p.op1].name + "(r0,r1)";
        if (p.op2 >= 0)
            d += "; r" + std::to_string(p.dst2) + "=" + OPS[p.op2].name + "(r0,r1)";
        return d;
    };
    cs.crash_sig = [&](long long i, const std::string &oc) {
        Prog p = dec(i);
        size_t b = oc.find('[');
        if (b != std::string::npos) // sanitizer call-site class
            return "sanitizer:" + oc.substr(b);
        return "crash:" + oc + ":" + OPS[p.op1].name + (p.op2 >= 0 ? ";" + OPS[p.op2].name : "");
    };
    cs.body = [&](long long i, Ctx &c) {
        Prog p = dec(i);
        c.eval();
        c.count(0);
        std::string o1, o2;
        o1.reserve(64); // the harness's own strings must not move the allocation count between the two measurements
        o2.reserve(64);
        run_prog(p, o1); // first run warms every lazily built global (tables, caches)
        long long l1 = g_live;
        run_prog(p, o2);
        long long l2 = g_live;
        c.count(2);
        if (o1.find("exc") != std::string::npos)
            c.count(1);
        else
            c.nontrivial();
        c.outcome(OPS[p.op1].name + ":" + o1);
        if (l2 != l1)
            c.violation("leak:" + OPS[p.op1].name + (p.op2 >= 0 ? ";" + OPS[p.op2].name : "") + (o2.find("exc") != std::string::npos ? ":on-exception-path" : ""),
                        "program {" + cs.desc(i) + "} leaves " + std::to_string(l2 - l1) + " allocation(s) alive after its registers are dropped (second "
                            "run, caches warm); outcomes " + o2);
        if (o1 != o2)
            c.violation("nondeterministic:" + OPS[p.op1].name, "program {" + cs.desc(i) + "} gives " + o1 + " then " + o2);
        if (i % 200003 == 0)
            c.sample("{\"program\":" + jstr(cs.desc(i)) + ",\"outcome\":" + jstr(o1) + ",\"live_delta\":" + std::to_string(l2 - l1) + "}");
    };
    run_cases(cs);
    Run &R = run();
    R.states = NP * NP;
    R.transitions = R.evaluations;
    R.bound_completed = "all programs of <= 2 operations from a " + std::to_string(NO) + "-operation menu on 2 registers seeded with every ordered "
                        "pair of a " + std::to_string(NP) + "-expression pool";
    R.rule = "program = seed pair (r0,r1) + up to two instructions r_dst = op(r0,r1); the menu covers construction, arithmetic, functions, "
             "substitution, differentiation, expansion, printing, parsing, serialization, uni-/multivariate polynomials, dense/sparse matrices, "
             "sets, solving, series, evaluation, lambda visitors, logic, queries, number theory, Expression wrapper. Every program runs twice in "
             "an ASan+UBSan build; operator new/delete are counted: the live-allocation count after the second run must equal that after the "
             "first (caches warm) => every node freed exactly once. distinct_nontrivial = programs that completed without a library exception";
    R.assumptions = {"uninitialised reads are not covered (no MemorySanitizer runtime for libstdc++/GMP in this image)",
                     "UBSan in non-recovering mode: any undefined behaviour aborts the worker and is reported with its call site"};
    return R.finish();
}
