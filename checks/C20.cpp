// C20  Deserializing untrusted bytes is memory-safe -- E4 byte-deviation enumeration (DESIGN 5 C20).  Author a6.
//
// Seeds: dumps (produced in-process by the real serializer through a recording stream, so that the field
// boundaries of every primitive write are known) of the smallest state per load_basic overload (quick) / per class
// and per (class, child classes) (thorough), plus DenseMatrix dumps.  Deviations of every seed:
//   A  every truncation, every single-byte deletion, insertion of {00,01,ff} before every position, and at every
//      position the probe substitutions {orig^01, orig^80, 00, 01, 02, ff, orig+1, orig-1};
//   B  at every position every remaining byte value (positions whose probes already violated twice are
//      short-circuited -- counted, exhaustive=false -- except type-code positions, which are always exhaustive);
//   C  (thorough) pairs of deviations at structural positions (type code, first_seen flag, low length byte, bool)
//      of the 20 smallest seeds.
// Oracle: loads throws a SymEngineException, or returns a non-null value on which str, hash, eq/cmp with itself,
// free_symbols, get_args, dumps and evalf (in try/catch) all return; no sanitizer report, signal, hang, foreign
// exception, or single allocation request > 64 KB (allocation driven by an unvalidated length; the seeds are < 1 KB).
#include "checks/ser_states.h"
#include <dirent.h>
#include <cxxabi.h>
using namespace serst;

// symbolize=0: reports are resolved off-line (addr2line, cached) instead of starting a symbolizer per crash.
// small quarantine: freed blocks are reused after 4 MB instead of 256 MB, otherwise every allocation of every case
// touches fresh pages (first touch costs ~250 us/page in this sandbox and dominated the run time); a use-after-free
// inside one load is still caught.
extern "C" const char *__asan_default_options()
{
    return "symbolize=0:quarantine_size_mb=4:thread_local_quarantine_size_kb=256";
}
extern "C" const char *__ubsan_default_options()
{
    return "symbolize=0";
}
// Allocation model.  The driver replaces the global allocation functions (a documented customisation point; the
// library itself is unchanged): while a load is being judged, a single request above ALLOC_CAP is recorded and
// refused with std::bad_alloc, which is what a memory-limited process observes.  This makes "an untrusted length
// field drives an allocation" a deterministic, cheap observation instead of a multi-second zero-fill (first touch of
// memory costs ~60 ns/byte in this sandbox) or an ASan abort.  malloc/free underneath are still ASan's.
static const size_t ALLOC_CAP = 64u << 10; // 64 KB for inputs < 1 KB (the unmodified seeds never request more than a few hundred bytes)
static volatile size_t g_max_alloc = 0;
static volatile bool g_cap_active = false;
static inline void *cap_alloc(size_t n, size_t align)
{
    if (n > g_max_alloc)
        g_max_alloc = n;
    if (g_cap_active && n > ALLOC_CAP)
        return nullptr;
    if (align > alignof(std::max_align_t)) {
        void *p = nullptr;
        if (posix_memalign(&p, align, n ? n : 1) != 0)
            return nullptr;
        return p;
    }
    return malloc(n ? n : 1);
}
void *operator new(size_t n)
{
    void *p = cap_alloc(n, 0);
    if (!p)
        throw std::bad_alloc();
    return p;
}
void *operator new[](size_t n)
{
    void *p = cap_alloc(n, 0);
    if (!p)
        throw std::bad_alloc();
    return p;
}
void *operator new(size_t n, const std::nothrow_t &) noexcept
{
    return cap_alloc(n, 0);
}
void *operator new[](size_t n, const std::nothrow_t &) noexcept
{
    return cap_alloc(n, 0);
}
void *operator new(size_t n, std::align_val_t a)
{
    void *p = cap_alloc(n, (size_t)a);
    if (!p)
        throw std::bad_alloc();
    return p;
}
void *operator new[](size_t n, std::align_val_t a)
{
    void *p = cap_alloc(n, (size_t)a);
    if (!p)
        throw std::bad_alloc();
    return p;
}
void operator delete(void *p) noexcept
{
    free(p);
}
void operator delete[](void *p) noexcept
{
    free(p);
}
void operator delete(void *p, size_t) noexcept
{
    free(p);
}
void operator delete[](void *p, size_t) noexcept
{
    free(p);
}
void operator delete(void *p, const std::nothrow_t &) noexcept
{
    free(p);
}
void operator delete[](void *p, const std::nothrow_t &) noexcept
{
    free(p);
}
void operator delete(void *p, std::align_val_t) noexcept
{
    free(p);
}
void operator delete[](void *p, std::align_val_t) noexcept
{
    free(p);
}
void operator delete(void *p, size_t, std::align_val_t) noexcept
{
    free(p);
}
void operator delete[](void *p, size_t, std::align_val_t) noexcept
{
    free(p);
}
// malloc-level requests (GMP) are observed through the ASan allocator hook
extern "C" void __sanitizer_malloc_hook(const volatile void *, size_t size)
{
    if (size > g_max_alloc)
        g_max_alloc = size;
}

struct Seed {
    std::string recipe, cls, key;
    TypeID tc = SYMENGINE_INTEGER;
    bool matrix = false;
    Dump d;
};
static std::vector<Seed> SEEDS;

enum DevType { SUB, TRUNC, DEL, INS, SUB2 };
struct Dev {
    int seed;
    uint8_t type;
    uint16_t pos;
    uint8_t val;
    uint16_t pos2;
    uint8_t val2;
};

static std::string kind_base(const std::string &k)
{
    size_t p = k.find('[');
    return p == std::string::npos ? k : k.substr(0, p);
}
static std::string kind_at(const Seed &s, size_t pos)
{
    return pos < s.d.kind.size() ? s.d.kind[pos] : "end";
}

static std::string apply_dev(const Dev &v)
{
    std::string m = SEEDS[v.seed].d.bytes;
    switch (v.type) {
        case SUB:
            m[v.pos] = (char)v.val;
            break;
        case SUB2:
            m[v.pos] = (char)v.val;
            m[v.pos2] = (char)v.val2;
            break;
        case TRUNC:
            m.resize(v.pos);
            break;
        case DEL:
            m.erase(v.pos, 1);
            break;
        case INS:
            m.insert(m.begin() + v.pos, (char)v.val);
            break;
    }
    return m;
}

static std::string dev_field(const Dev &v)
{
    const Seed &s = SEEDS[v.seed];
    switch (v.type) {
        case SUB:
            return kind_base(kind_at(s, v.pos));
        case SUB2:
            return kind_base(kind_at(s, v.pos)) + "+" + kind_base(kind_at(s, v.pos2));
        case TRUNC:
            return "truncate-in-" + kind_base(kind_at(s, v.pos));
        case DEL:
            return "delete-in-" + kind_base(kind_at(s, v.pos));
        default:
            return "insert-before-" + kind_base(kind_at(s, v.pos));
    }
}

static std::string dev_desc(const Dev &v)
{
    const Seed &s = SEEDS[v.seed];
    char b[200];
    std::string what;
    switch (v.type) {
        case SUB:
            snprintf(b, sizeof b, "byte %u (%s) %02x -> %02x", v.pos, kind_at(s, v.pos).c_str(), (unsigned char)s.d.bytes[v.pos], v.val);
            break;
        case SUB2:
            snprintf(b, sizeof b, "byte %u (%s) %02x -> %02x and byte %u (%s) %02x -> %02x", v.pos, kind_at(s, v.pos).c_str(),
                     (unsigned char)s.d.bytes[v.pos], v.val, v.pos2, kind_at(s, v.pos2).c_str(), (unsigned char)s.d.bytes[v.pos2], v.val2);
            break;
        case TRUNC:
            snprintf(b, sizeof b, "truncated to %u bytes (cut in %s)", v.pos, kind_at(s, v.pos).c_str());
            break;
        case DEL:
            snprintf(b, sizeof b, "byte %u (%s) deleted", v.pos, kind_at(s, v.pos).c_str());
            break;
        default:
            snprintf(b, sizeof b, "byte %02x inserted before byte %u (%s)", v.val, v.pos, kind_at(s, v.pos).c_str());
    }
    return std::string(s.matrix ? "DenseMatrix::loads" : "Basic::loads") + "(dump of " + s.recipe + " [" + std::to_string(s.d.bytes.size())
           + " bytes " + hexbytes(s.d.bytes, 160) + "] with " + b + ")";
}

// ------------------------------------------------------------------ stderr capture (sanitizer reports)
static std::string ERRDIR;
static pid_t err_pid = 0;
static void begin_case(const std::string &layer, long long i)
{
    if (err_pid != getpid()) {
        err_pid = getpid();
        std::string p = ERRDIR + "/err." + std::to_string((long)err_pid);
        int fd = open(p.c_str(), O_WRONLY | O_CREAT | O_APPEND, 0644);
        if (fd >= 0) {
            dup2(fd, 2);
            close(fd);
        }
    }
    char b[96];
    int n = snprintf(b, sizeof b, "\n@@CASE %s %lld\n", layer.c_str(), i);
    if (write(2, b, n) < 0) {
    }
}
static std::map<std::string, std::string> REPORTS; // "layer i" -> report text
static void scan_reports()
{
    DIR *d = opendir(ERRDIR.c_str());
    if (!d)
        return;
    while (struct dirent *de = readdir(d)) {
        if (strncmp(de->d_name, "err.", 4) != 0)
            continue;
        static std::map<std::string, off_t> parsed;
        struct stat stt;
        if (stat((ERRDIR + "/" + de->d_name).c_str(), &stt) != 0 || (parsed.count(de->d_name) && parsed[de->d_name] == stt.st_size))
            continue;
        parsed[de->d_name] = stt.st_size;
        std::ifstream f(ERRDIR + "/" + de->d_name);
        std::stringstream ss;
        ss << f.rdbuf();
        std::string doc = ss.str();
        size_t p = 0;
        while ((p = doc.find("\n@@CASE ", p)) != std::string::npos) {
            size_t e = doc.find('\n', p + 1);
            if (e == std::string::npos)
                break;
            std::string id = doc.substr(p + 8, e - p - 8);
            size_t nx = doc.find("\n@@CASE ", e);
            std::string body = doc.substr(e + 1, (nx == std::string::npos ? doc.size() : nx) - e - 1);
            if (body.find_first_not_of(" \n\t") != std::string::npos)
                REPORTS[id] = body;
            p = e;
        }
    }
    closedir(d);
}
static void cleanup_reports()
{
    DIR *d = opendir(ERRDIR.c_str());
    if (!d)
        return;
    std::vector<std::string> fs;
    while (struct dirent *de = readdir(d))
        if (strncmp(de->d_name, "err.", 4) == 0)
            fs.push_back(ERRDIR + "/" + de->d_name);
    closedir(d);
    for (auto &f : fs)
        unlink(f.c_str());
    rmdir(ERRDIR.c_str());
}

static std::map<std::string, std::string> A2L; // module offset -> function
static std::string report_class_fwd(const std::string &rep);
static std::string exe_path()
{
    char b[4096];
    ssize_t n = readlink("/proc/self/exe", b, sizeof b - 1);
    return n > 0 ? std::string(b, n) : "";
}
static std::string strip_fn(std::string f)
{
    // drop template arguments and parameter lists: keep qualified name
    std::string o;
    int depth = 0;
    for (char ch : f) {
        if (ch == '<')
            depth++;
        else if (ch == '>')
            depth--;
        else if (ch == '(' && depth == 0)
            break;
        else if (depth == 0)
            o += ch;
    }
    size_t sp = o.rfind(' ');
    if (sp != std::string::npos && sp + 1 < o.size())
        o = o.substr(sp + 1);
    return o;
}
// first library frame of a sanitizer report: resolved off-line with addr2line (reports are written unsymbolized)
static std::vector<std::string> frame_offsets(const std::string &rep, const std::string &exe, size_t max_frames)
{
    std::vector<std::string> offs;
    static const std::regex re("#[0-9]+ 0x[0-9a-f]+ +\\(([^()+ ]+)\\+0x([0-9a-f]+)\\)");
    for (auto it = std::sregex_iterator(rep.begin(), rep.end(), re); it != std::sregex_iterator(); ++it) {
        if ((*it)[1].str() == exe)
            offs.push_back("0x" + (*it)[2].str());
        if (offs.size() >= max_frames)
            break;
    }
    return offs;
}
static std::string top_frame(const std::string &rep)
{
    static const std::string exe = exe_path();
    std::vector<std::string> offs = frame_offsets(rep, exe, 12);
    bool missing = false;
    for (auto &o : offs)
        if (!A2L.count(o))
            missing = true;
    if (missing) {
        // one addr2line run (several seconds on this binary) for the frames of *all* captured reports
        std::set<std::string> needset;
        for (auto &o : offs)
            if (!A2L.count(o))
                needset.insert(o);
        for (auto &kv : REPORTS)
            if (report_class_fwd(kv.second) != "alloc-bomb")
                for (auto &o : frame_offsets(kv.second, exe, 12))
                    if (!A2L.count(o))
                        needset.insert(o);
        std::string need;
        for (auto &o : needset)
            need += " " + o;
        std::string cmd = "addr2line -f -C -s -e " + exe + need + " 2>/dev/null";
        FILE *p = popen(cmd.c_str(), "r");
        if (p) {
            char line[8192];
            std::vector<std::string> lines;
            while (fgets(line, sizeof line, p))
                lines.push_back(std::string(line).substr(0, strcspn(line, "\n")));
            pclose(p);
            size_t k = 0;
            for (auto &o : needset) {
                A2L[o] = k < lines.size() ? lines[k] : "?";
                k += 2;
            }
        }
    }
    std::string first;
    for (auto &o : offs) {
        std::string fn = A2L.count(o) ? A2L[o] : "?";
        std::string st = strip_fn(fn);
        if (st.rfind("SymEngine::", 0) == 0 && st.find("RCPBasicAware") == std::string::npos && st.find("RCP::") == std::string::npos
            && st != "SymEngine::rcp_static_cast" && st != "SymEngine::make_rcp")
            return st;
        if (first.empty() && fn != "?" && fn != "??" && fn.find("__interceptor") == std::string::npos
            && fn.find("__sanitizer") == std::string::npos && fn.find("__asan") == std::string::npos
            && fn.find("__ubsan") == std::string::npos)
            first = strip_fn(fn);
    }
    return first.empty() ? "?" : first;
}
static std::string report_class(const std::string &rep);
static std::string report_class_fwd(const std::string &rep)
{
    return report_class(rep);
}

static std::string squash_digits(const std::string &s)
{
    std::string o;
    bool in = false;
    for (char ch : s) {
        if (isdigit((unsigned char)ch)) {
            if (!in)
                o += 'N';
            in = true;
        } else {
            in = false;
            o += ch;
        }
    }
    return o;
}

// coarse class of a captured report
static std::string report_class(const std::string &rep)
{
    size_t p;
    if ((p = rep.find("exceeds maximum supported size")) != std::string::npos || rep.find("allocation-size-too-big") != std::string::npos
        || rep.find("out-of-memory") != std::string::npos || rep.find("GNU MP: Cannot allocate") != std::string::npos)
        return "alloc-bomb";
    if ((p = rep.find("runtime error: ")) != std::string::npos) {
        size_t e = rep.find('\n', p);
        std::string msg = rep.substr(p + 15, e == std::string::npos ? std::string::npos : e - p - 15);
        // keep the kind of UB, drop values / addresses
        size_t q = msg.find(" 0x");
        if (q != std::string::npos)
            msg = msg.substr(0, q);
        msg = squash_digits(msg);
        if (msg.size() > 90)
            msg = msg.substr(0, 90);
        return "ubsan[" + msg + "]";
    }
    if ((p = rep.find("AddressSanitizer: ")) != std::string::npos) {
        size_t e = rep.find_first_of(" :\n", p + 18);
        std::string kind = rep.substr(p + 18, e - p - 18);
        if (kind == "SEGV") {
            // distinguish null-ish dereference from wild pointer
            if (rep.find("address points to the zero page") != std::string::npos)
                kind = "SEGV(null-deref)";
        }
        return "asan[" + kind + "]";
    }
    if ((p = rep.find("terminate called after throwing an instance of '")) != std::string::npos) {
        size_t e = rep.find('\'', p + 48);
        return "terminate[" + rep.substr(p + 48, e - p - 48) + "]";
    }
    if (rep.find("terminate called") != std::string::npos)
        return "terminate";
    return "no-report";
}

// ------------------------------------------------------------------ the oracle
enum {
    K_LOADS,
    K_LIBEXC,
    K_VALUE,
    K_VALUE_SAME,
    K_VALUE_OTHER,
    K_POSTOP_LIBEXC,
    K_EVALF_OK,
    K_ALLOC_16MB,
    K_SLOW,
    K_MATRIX_VALUE,
    K_US_TOTAL,
    K_US_LOADS
};
static std::vector<std::string> CN = {"loads_executed",
                                      "loads_threw_library_exception",
                                      "loads_returned_value",
                                      "returned_value_prints_like_seed(value-level post-ops skipped)",
                                      "returned_value_different_from_seed",
                                      "post_ops_threw_library_exception(str/evalf/... refused)",
                                      "evalf_returned",
                                      "cases_with_single_allocation_over_64KB",
                                      "cases_over_250ms_cpu",
                                      "matrix_loads_returned_value",
                                      "cpu_us_total_in_oracle",
                                      "cpu_us_in_loads"};

static std::string demangle(const char *n)
{
    int st = 0;
    char *d = abi::__cxa_demangle(n, nullptr, nullptr, &st);
    std::string o = st == 0 && d ? d : n;
    free(d);
    return o;
}
static double cpu_now();
static double cpu_now()
{
    struct timespec ts;
    clock_gettime(CLOCK_PROCESS_CPUTIME_ID, &ts);
    return ts.tv_sec + 1e-9 * ts.tv_nsec;
}

static const size_t BOMB = ALLOC_CAP;

static void oracle(const Dev &v, const std::string &layer, Ctx &c)
{
    const Seed &s = SEEDS[v.seed];
    std::string m = apply_dev(v);
    std::string field = dev_field(v);
    begin_case(layer, c.index);
    c.eval();
    c.count(K_LOADS);
    g_max_alloc = 0;
    g_cap_active = true;
    double t0 = cpu_now();
    std::string outcome;
    auto viol = [&](const std::string &cls, const std::string &detail) {
        c.violation("loads:" + cls + ":" + field, dev_desc(v) + ": " + detail);
        outcome = cls;
    };
    auto post_exc = [&](const char *op, std::exception &x) {
        if (dynamic_cast<SymEngineException *>(&x))
            c.count(K_POSTOP_LIBEXC);
        else
            viol(std::string("post-op-foreign-exception[") + op + ":" + demangle(typeid(x).name()) + "]", std::string(op) + " on the returned value threw " + x.what());
    };
    if (s.matrix) {
        try {
            DenseMatrix L = DenseMatrix::loads(m);
            c.count(K_MATRIX_VALUE);
            outcome = "matrix-value";
            // the returned matrix must be usable: shape consistent with its storage, printable, entries readable
            unsigned long long cells = (unsigned long long)L.nrows() * L.ncols();
            if (cells != L.m_.size())
                viol("matrix-shape-storage-mismatch", "returned DenseMatrix has nrows=" + std::to_string(L.nrows()) + " ncols="
                                                          + std::to_string(L.ncols()) + " but " + std::to_string(L.m_.size())
                                                          + " stored entries (any element access is out of bounds)");
            else {
                bool null_entry = false;
                for (auto &e : L.m_)
                    if (e.is_null())
                        null_entry = true;
                if (null_entry)
                    viol("matrix-null-entry", "returned DenseMatrix contains a null entry");
                else {
                    try {
                        std::string st = L.__str__();
                        (void)st;
                        for (unsigned i = 0; i < L.nrows(); i++)
                            for (unsigned j = 0; j < L.ncols(); j++)
                                (void)L.get(i, j)->hash();
                    } catch (std::exception &x) {
                        post_exc("matrix-str", x);
                    }
                }
            }
        } catch (SymEngineException &x) {
            c.count(K_LIBEXC);
            outcome = "library-exception";
        } catch (std::bad_alloc &x) {
            viol("alloc-bomb", "loads threw std::bad_alloc: a single allocation of " + std::to_string((size_t)g_max_alloc) + " bytes was requested while loading " + std::to_string(m.size()) + " untrusted bytes");
        } catch (std::length_error &x) {
            viol("alloc-bomb", std::string("loads threw std::length_error: ") + x.what());
        } catch (std::exception &x) {
            viol("foreign-exception[" + demangle(typeid(x).name()) + "]", std::string("loads threw a non-library exception: ") + x.what());
        }
    } else {
        B r;
        bool have = false;
        try {
            double tl0 = cpu_now();
            try {
                r = Basic::loads(m);
            } catch (...) {
                c.count(K_US_LOADS, (uint64_t)((cpu_now() - tl0) * 1e6));
                throw;
            }
            c.count(K_US_LOADS, (uint64_t)((cpu_now() - tl0) * 1e6));
            have = true;
        } catch (SymEngineException &x) {
            c.count(K_LIBEXC);
            outcome = std::string("library-exception");
            c.outcome("exception:" + squash_digits(std::string(x.what()).substr(0, 40)));
        } catch (std::bad_alloc &x) {
            viol("alloc-bomb", "loads threw std::bad_alloc: a single allocation of " + std::to_string((size_t)g_max_alloc) + " bytes was requested while loading " + std::to_string(m.size()) + " untrusted bytes");
        } catch (std::length_error &x) {
            viol("alloc-bomb", std::string("loads threw std::length_error: ") + x.what());
        } catch (std::exception &x) {
            viol("foreign-exception[" + demangle(typeid(x).name()) + "]", std::string("loads threw a non-library exception: ") + x.what());
        }
        if (have) {
            c.count(K_VALUE);
            if (r.is_null())
                viol("null-result", "loads returned a null RCP");
            else {
                outcome = std::string("value:") + type_code_name(r->get_type_code());
                std::string st;
                try {
                    st = r->__str__();
                } catch (std::exception &x) {
                    post_exc("str", x);
                }
                try {
                    (void)r->hash();
                    (void)eq(*r, *r);
                    (void)r->__cmp__(*r);
                    (void)r->get_args();
                } catch (std::exception &x) {
                    post_exc("hash/eq/cmp/get_args", x);
                }
                // a value that prints exactly like the seed's value (e.g. only node ids changed) is structurally the
                // seed value again: the remaining operations were already exercised on it by the unmodified seed
                bool same = !st.empty() && st == s.cls && r->get_type_code() == s.tc;
                if (same)
                    c.count(K_VALUE_SAME);
                else {
                    c.count(K_VALUE_OTHER);
                    try {
                        (void)free_symbols(*r);
                    } catch (std::exception &x) {
                        post_exc("free_symbols", x);
                    }
                    try {
                        std::string d2 = r->dumps();
                        (void)d2;
                    } catch (std::exception &x) {
                        post_exc("dumps", x);
                    }
                    try {
                        B ev = evalf(*r, 53, EvalfDomain::Symbolic);
                        if (!ev.is_null())
                            c.count(K_EVALF_OK);
                    } catch (std::exception &x) {
                        post_exc("evalf", x);
                    }
                }
            }
        }
    }
    g_cap_active = false;
    double dt = cpu_now() - t0;
    c.count(K_US_TOTAL, (uint64_t)(dt * 1e6));
    size_t ma = g_max_alloc;
    if (ma > (64u << 10))
        c.count(K_ALLOC_16MB);
    if (dt > 0.25)
        c.count(K_SLOW);
    if (ma > BOMB && outcome.find("alloc-bomb") == std::string::npos)
        viol("alloc-bomb", "a single allocation of " + std::to_string(ma) + " bytes was requested while loading "
                               + std::to_string(m.size()) + " untrusted bytes (outcome otherwise: " + outcome + ")");
    // (CPU time per case is only counted, not judged: with allocations capped no load should be slow, and on a
    // heavily shared machine page-fault time makes any threshold flaky; genuine non-termination is caught by hang_s)
    c.outcome(outcome + "|" + field);
    if (outcome.rfind("value", 0) == 0 || outcome == "matrix-value")
        c.nontrivial();
    if (c.index % 40009 == 11)
        c.sample("{\"case\":" + jstr(dev_desc(v).substr(0, 300)) + ",\"outcome\":" + jstr(outcome) + "}");
}

static void run_devs(const std::string &name, const std::vector<Dev> &D, CaseSet &cs, const std::vector<char> *skip = nullptr)
{
    cs.name = name;
    cs.n = D.size();
    cs.counter_names = CN;
    cs.hang_s = 30;
    cs.desc = [&D, name](long long i) {
        std::string d = dev_desc(D[i]);
        if (REPORTS.empty())
            scan_reports();
        auto it = REPORTS.find(name + " " + std::to_string(i));
        if (it == REPORTS.end()) {
            scan_reports();
            it = REPORTS.find(name + " " + std::to_string(i));
        }
        if (it != REPORTS.end()) {
            std::string rep = it->second;
            size_t p = rep.find("ERROR: ");
            size_t q = rep.find("runtime error: ");
            size_t from = std::min(p, q);
            if (from != std::string::npos) {
                size_t ls = rep.rfind('\n', from);
                size_t le = rep.find('\n', from);
                d += " :: " + rep.substr(ls == std::string::npos ? 0 : ls + 1, le - (ls == std::string::npos ? 0 : ls + 1));
            }
            if (report_class(rep) != "alloc-bomb")
                d += " :: in " + top_frame(rep);
        }
        return d;
    };
    cs.crash_sig = [&D, name](long long i, const std::string &oc) {
        auto it = REPORTS.find(name + " " + std::to_string(i));
        if (it == REPORTS.end() || replaying()) {
            scan_reports();
            it = REPORTS.find(name + " " + std::to_string(i));
        }
        // the core may append " [sanitizer summary]" to the outcome; the class used here comes from the report
        // captured by this driver (also available for crashes that are not re-run alone)
        std::string cls = oc.substr(0, oc.find(" [")), fn;
        if (cls.find("hang") == std::string::npos && it != REPORTS.end()) {
            std::string rc = report_class(it->second);
            if (rc == "alloc-bomb")
                return "loads:alloc-bomb:" + dev_field(D[i]);
            if (rc != "no-report") {
                cls = rc;
                fn = top_frame(it->second);
            }
            if (replaying())
                printf("---- captured sanitizer report ----\n%s\n-----------------------------------\n", it->second.substr(0, 6000).c_str());
        }
        return "loads:" + cls + (fn.empty() ? "" : "@" + fn) + ":" + dev_field(D[i]);
    };
    cs.body = [&D, name, skip](long long i, Ctx &c) {
        if (skip && (*skip)[i])
            return; // short-circuited (counted by the parent)
        oracle(D[i], name, c);
    };
    double t0 = now();
    run_cases(cs);
    run().counters["wall_ms:" + name] = (uint64_t)((now() - t0) * 1000);
}

// Node ids in a dump are the addresses the objects had in the dumping process; the loader only uses them as map keys.
// Renumbering them consistently gives an equally valid dump whose bytes do not depend on the heap layout, so that the
// enumeration (probe values, outcomes of id collisions) is identical in every run and in replays.
static void normalise_ids(Dump &d)
{
    std::map<uint64_t, uint64_t> m;
    for (size_t p = 0; p + 8 <= d.bytes.size(); p++)
        if (d.kind[p] == "node-id[0]") {
            uint64_t v;
            memcpy(&v, &d.bytes[p], 8);
            auto it = m.find(v);
            if (it == m.end())
                it = m.insert({v, 0x0000602000000010ULL + 0x20 * m.size()}).first;
            memcpy(&d.bytes[p], &it->second, 8);
        }
}

static std::vector<uint8_t> probe_values(uint8_t o)
{
    std::vector<uint8_t> cand = {(uint8_t)(o ^ 1), (uint8_t)(o ^ 0x80), 0x00, 0x01, 0x02, 0xff, (uint8_t)(o + 1), (uint8_t)(o - 1)};
    std::vector<uint8_t> out;
    for (auto v : cand)
        if (v != o && std::find(out.begin(), out.end(), v) == out.end())
            out.push_back(v);
    return out;
}

// load_basic overload group of a class (one seed per group in the quick tier)
static std::string overload_group(const Basic &e)
{
    if (dynamic_cast<const OneArgFunction *>(&e))
        return "OneArgFunction";
    if (dynamic_cast<const TwoArgFunction *>(&e))
        return "TwoArgFunction";
    if (is_a<FunctionSymbol>(e))
        return "FunctionSymbol";
    if (dynamic_cast<const MultiArgFunction *>(&e))
        return "MultiArgFunction";
    if (is_a_Relational(e))
        return "Relational";
    return type_code_name(e.get_type_code());
}

int main(int argc, char **argv)
{
    init(argc, argv, "C20");
    bool thorough = opts().thorough();
    Run &R = run();
    R.level = "fault_enumeration";
    ERRDIR = opts().root + "/build/run/C20err." + std::to_string((long)getpid());
    mkdir((opts().root + "/build").c_str(), 0755);
    mkdir((opts().root + "/build/run").c_str(), 0755);
    mkdir(ERRDIR.c_str(), 0755);

    // ---- candidate states: tame leaves, every constructor on every admissible tuple of tame leaves, shared-subtree
    // states; all validated by C19 (plain build).  Built in the parent: none of them is risky.
    std::vector<Leaf> LV = make_leaves(true);
    std::vector<Ctor> CT = make_ctors();
    struct Cand {
        B e;
        std::string recipe;
        Dump d;
    };
    std::vector<Cand> cands;
    std::set<std::string> seen;
    auto consider = [&](const B &e, const std::string &recipe) {
        std::string k = key(*e);
        if (!seen.insert(k).second)
            return;
        Cand c;
        c.e = e;
        c.recipe = recipe;
        try {
            c.d = recorded_dump(e);
        } catch (std::exception &) {
            return;
        }
        cands.push_back(c);
    };
    for (auto &l : LV)
        consider(l.e, l.name);
    B x = symbol("x"), y = symbol("y");
    // explicit shared-reference seeds (first_seen = 0 fields)
    consider(function_symbol("g", {x, x}), "g(x, x)");
    consider(add(sin(x), pow(y, sin(x))), "add(sin(x), pow(y, sin(x)))");
    // unary constructors on every tame leaf; binary constructors on pairs of a small sub-alphabet (one leaf per kind)
    // plus a relational, an interval and a finite set as operands, so that And/Or/Xor/Not/Piecewise/ConditionSet/Union/
    // Complement/Contains seeds with real children exist
    LV.push_back({"Lt(x, y)", Lt(x, y)});
    LV.push_back({"Eq(y, 2)", Eq(y, integer(2))});
    LV.push_back({"interval[](0, 1)", interval(integer(0), integer(1), false, false)});
    LV.push_back({"finiteset1(y)", finiteset({y})});
    LV.push_back({"contains(x, interval[](0, 1))", contains(x, interval(integer(0), integer(1), false, false))});
    std::set<std::string> small = {"x", "y", "1", "2", "1/2", "1.5", "I", "True", "False", "EmptySet", "Reals", "Integers", "dummy()",
                                   "Lt(x, y)", "Eq(y, 2)", "interval[](0, 1)", "finiteset1(y)", "contains(x, interval[](0, 1))"};
    double tc0 = now();
    for (size_t ia = 0; ia < LV.size(); ia++)
        for (size_t ci = 0; ci < CT.size(); ci++) {
            const Ctor &c = CT[ci];
            if (c.arity == 2 && !small.count(LV[ia].name))
                continue;
            for (size_t ib = 0; ib < (c.arity == 2 ? LV.size() : 1); ib++) {
                if (c.arity == 2 && !small.count(LV[ib].name))
                    continue;
                if (!admissible(c, *LV[ia].e, *LV[c.arity == 2 ? ib : ia].e))
                    continue;
                try {
                    B r = c.f(LV[ia].e, LV[c.arity == 2 ? ib : ia].e);
                    consider(r, c.name + "(" + LV[ia].name + (c.arity == 2 ? ", " + LV[ib].name : "") + ")");
                } catch (std::exception &) {
                }
            }
        }
    R.counters["wall_ms:candidates"] = (uint64_t)((now() - tc0) * 1000);
    R.counters["candidate_states"] = cands.size();
    std::stable_sort(cands.begin(), cands.end(), [](const Cand &a, const Cand &b) { return a.d.bytes.size() < b.d.bytes.size(); });
    // quick: smallest dump per load_basic overload group; thorough: per type code, then per (type code, child classes)
    size_t want = thorough ? 80 : 1000;
    std::set<std::string> groups;
    std::vector<int> chosen;
    std::vector<char> used(cands.size(), 0);
    auto child_cls = [&](const B &e) {
        std::set<std::string> cs;
        for (auto &c : children(e))
            cs.insert(type_code_name(c->get_type_code()));
        std::string o;
        for (auto &c : cs)
            o += c + ",";
        return o;
    };
    for (int pass = 0; pass < (thorough ? 3 : 1); pass++)
        for (size_t i = 0; i < cands.size() && chosen.size() < want; i++) {
            if (used[i])
                continue;
            std::string g = pass == 0   ? "G:" + overload_group(*cands[i].e)
                            : pass == 1 ? "T:" + type_code_name(cands[i].e->get_type_code())
                                        : "C:" + type_code_name(cands[i].e->get_type_code()) + "(" + child_cls(cands[i].e) + ")";
            if (!groups.insert(g).second)
                continue;
            used[i] = 1;
            chosen.push_back(i);
        }
    std::sort(chosen.begin(), chosen.end());
    for (int i : chosen) {
        Seed s;
        s.recipe = cands[i].recipe;
        s.cls = sstr(cands[i].e);
        s.key = key(*cands[i].e);
        s.tc = cands[i].e->get_type_code();
        s.d = cands[i].d;
        normalise_ids(s.d);
        // the recorded dump must be what Basic::dumps produces (same length and field structure) and must load back
        std::string ref = cands[i].e->dumps();
        g_max_alloc = 0;
        g_cap_active = true;
        B back = Basic::loads(s.d.bytes);
        g_cap_active = false;
        try { // the value-level operations of the oracle, once on the unmodified value
            (void)back->__str__();
            (void)back->hash();
            (void)free_symbols(*back);
            (void)back->dumps();
            (void)evalf(*back, 53, EvalfDomain::Symbolic);
        } catch (SymEngineException &) {
        }
        R.counters["largest_allocation_while_loading_an_unmodified_seed"]
            = std::max<uint64_t>(R.counters["largest_allocation_while_loading_an_unmodified_seed"], (uint64_t)g_max_alloc);
        if (ref.size() != s.d.bytes.size() || key(*back) != key(*cands[i].e) || g_max_alloc > ALLOC_CAP / 8) {
            printf("seed %s: recorded dump differs from Basic::dumps\n", s.recipe.c_str());
            return 2;
        }
        SEEDS.push_back(s);
    }
    cands.clear();
    cands.shrink_to_fit();
    // ---- DenseMatrix seeds
    {
        std::vector<std::pair<std::string, DenseMatrix>> ms = {{"DenseMatrix 1x1 [x]", DenseMatrix(1, 1, {x})},
                                                                {"DenseMatrix 2x2 [1, x; x, 2]", DenseMatrix(2, 2, {integer(1), x, x, integer(2)})}};
        if (thorough)
            ms.push_back({"DenseMatrix 2x3 [x,y,1;2,x,y]", DenseMatrix(2, 3, {x, y, integer(1), integer(2), x, y})});
        for (auto &m : ms) {
            Seed s;
            s.recipe = m.first;
            s.matrix = true;
            s.d = recorded_dump(m.second);
            bool same_as_api = s.d.bytes == m.second.dumps();
            normalise_ids(s.d);
            if (!same_as_api || !(DenseMatrix::loads(s.d.bytes) == m.second)) {
                printf("matrix seed: recorded dump differs from DenseMatrix::dumps\n");
                return 2;
            }
            SEEDS.push_back(s);
        }
    }
    size_t total_bytes = 0;
    std::map<std::string, uint64_t> kinds;
    for (auto &s : SEEDS) {
        total_bytes += s.d.bytes.size();
        for (auto &k : s.d.kind)
            kinds[kind_base(k)]++;
    }
    {
        std::string sj = "\"seeds\":[";
        for (size_t i = 0; i < SEEDS.size(); i++)
            sj += std::string(i ? "," : "") + "{\"recipe\":" + jstr(SEEDS[i].recipe) + ",\"bytes\":" + std::to_string(SEEDS[i].d.bytes.size())
                  + ",\"value\":" + jstr(SEEDS[i].cls) + "}";
        R.extra_json = sj + "]";
    }
    R.counters["seeds"] = SEEDS.size();
    R.counters["seed_bytes_total"] = total_bytes;
    for (auto &kv : kinds)
        R.counters["seed_bytes_of_kind:" + kv.first] = kv.second;

    // ---- layer A: truncations, deletions, insertions, probe substitutions
    std::vector<Dev> DA;
    for (size_t si = 0; si < SEEDS.size(); si++) {
        size_t n = SEEDS[si].d.bytes.size();
        for (size_t p = 0; p < n; p++)
            for (uint8_t v : probe_values((uint8_t)SEEDS[si].d.bytes[p]))
                DA.push_back({(int)si, SUB, (uint16_t)p, v, 0, 0});
        for (size_t p = 0; p < n; p++)
            DA.push_back({(int)si, TRUNC, (uint16_t)p, 0, 0, 0});
        for (size_t p = 0; p < n; p++)
            DA.push_back({(int)si, DEL, (uint16_t)p, 0, 0, 0});
        for (size_t p = 0; p <= n; p++)
            for (uint8_t v : {0x00, 0x01, 0xff})
                DA.push_back({(int)si, INS, (uint16_t)p, v, 0, 0});
    }
    CaseSet la;
    run_devs("A:probe+trunc+del+ins", DA, la);

    // ---- layer B: all remaining byte values; positions with >= 2 violating probes are short-circuited unless type codes
    std::map<std::pair<int, int>, int> badprobes;
    for (long long i : la.bad)
        if (DA[i].type == SUB)
            badprobes[{DA[i].seed, DA[i].pos}]++;
    std::vector<Dev> DB;
    static std::vector<char> skipB; // saturated positions (never set when replaying: layer A was not run then)
    uint64_t short_circuited = 0, saturated_positions = 0;
    for (size_t si = 0; si < SEEDS.size(); si++) {
        size_t n = SEEDS[si].d.bytes.size();
        for (size_t p = 0; p < n; p++) {
            uint8_t o = (uint8_t)SEEDS[si].d.bytes[p];
            std::vector<uint8_t> pv = probe_values(o);
            bool sat = badprobes[{(int)si, (int)p}] >= 2 && kind_base(SEEDS[si].d.kind[p]) != "type-code";
            if (sat)
                saturated_positions++;
            for (int v = 0; v < 256; v++) {
                if (v == o || std::find(pv.begin(), pv.end(), (uint8_t)v) != pv.end())
                    continue;
                if (sat)
                    short_circuited++;
                DB.push_back({(int)si, SUB, (uint16_t)p, (uint8_t)v, 0, 0});
                skipB.push_back(sat ? 1 : 0);
            }
        }
    }
    R.counters["short_circuited_cases(position already violated by >= 2 probe values)"] = short_circuited;
    R.counters["saturated_positions"] = saturated_positions;
    CaseSet lb;
    if (!past_deadline())
        run_devs("B:all-values", DB, lb, &skipB);
    else
        R.exhaustive = false;
    if (short_circuited)
        R.exhaustive = false;

    std::string bound = std::to_string(SEEDS.size()) + " seeds (" + std::to_string(total_bytes)
                        + " bytes): every truncation, single deletion, insertion of {00,01,ff}, and every position x every other byte value"
                        + (short_circuited ? " (minus " + std::to_string(short_circuited) + " short-circuited values at "
                                                 + std::to_string(saturated_positions) + " positions whose probe values already violated)"
                                           : "");

    // ---- layer C (thorough): pairs of deviations at structural positions of the 20 smallest seeds
    if (thorough && !past_deadline()) {
        std::vector<Dev> DC;
        std::vector<uint8_t> tcs = {SYMENGINE_INTEGER, SYMENGINE_SYMBOL, SYMENGINE_ADD, SYMENGINE_POW, SYMENGINE_FUNCTIONSYMBOL,
                                    SYMENGINE_INTERVAL, SYMENGINE_PIECEWISE, SYMENGINE_NOT};
        size_t nseed = std::min<size_t>(20, SEEDS.size());
        for (size_t si = 0; si < nseed; si++) {
            const Seed &s = SEEDS[si];
            std::vector<int> sp;
            for (size_t p = 0; p < s.d.bytes.size(); p++) {
                const std::string &k = s.d.kind[p];
                if (k == "type-code" || k == "first-seen" || k == "length[0]" || k == "bool" || k == "matrix-rows[0]" || k == "matrix-cols[0]")
                    sp.push_back(p);
            }
            auto vals = [&](int p) {
                std::vector<uint8_t> v = probe_values((uint8_t)s.d.bytes[p]);
                if (s.d.kind[p] == "type-code")
                    for (auto t : tcs)
                        if (t != (uint8_t)s.d.bytes[p] && std::find(v.begin(), v.end(), t) == v.end())
                            v.push_back(t);
                return v;
            };
            for (size_t a = 0; a < sp.size(); a++)
                for (size_t b = a + 1; b < sp.size(); b++)
                    for (uint8_t va : vals(sp[a]))
                        for (uint8_t vb : vals(sp[b]))
                            DC.push_back({(int)si, SUB2, (uint16_t)sp[a], va, (uint16_t)sp[b], vb});
        }
        CaseSet lc;
        run_devs("C:pairs-at-structural-positions", DC, lc);
        bound += "; all pairs of deviations (probe values + 8 type codes) at structural positions of the " + std::to_string(nseed)
                 + " smallest seeds (" + std::to_string(DC.size()) + " cases)";
    }
    cleanup_reports();
    R.bound_completed = bound;
    R.rule = "case = (seed, deviation); the deviated bytes are handed to Basic::loads / DenseMatrix::loads of the ASan+UBSan build inside "
             "crash-isolated workers; non-trivial = loads returned a value (then str, hash, eq, cmp, get_args, free_symbols, dumps, "
             "evalf are run on it)";
    R.assumptions = {"seeds are dumps of states already round-tripped by C19; field kinds come from the recorded write boundaries of the "
                     "real archive (used for signatures and short-circuiting only, never for the verdict)",
                     "a single allocation request > 64 KB while loading < 1 KB of input is an allocation bomb (length field not validated against the input); the driver's operator new refuses it with bad_alloc instead of performing it",
                     "library exceptions thrown by str/evalf/... on a returned value are counted as refusals, not failures"};
    return R.finish();
}
