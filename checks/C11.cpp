// C11  Substitution preserves value and is cache-independent -- E1 states x map menu (DESIGN 5 C11)
//
// States: n <= 2 operations over {x,y,2,-1,1/2,pi,I} with arithmetic, sin/cos/exp/log/sqrt/abs, undefined f(.),
// g(.,.), plus the Derivative/Subs objects diff returns on them.  Maps: the 14 maps of the design + 4 more.
// Oracles per (state, map):
//   symbol keys      RefEval(F(e,M))(env) == RefEval(e)(env o M)            (simultaneous substitution)
//   expression keys  RefEval(F(e,{K:t}))(env, t:=RefEval(K)(env)) == RefEval(e)(env)      (t fresh)
//   key symbol absent / identity map  =>  result has the same structural key and is eq
//   cache=true and cache=false give the same key and are eq
// F in {subs} for all states and {xreplace, msubs, ssubs} on derivative-free states.
#include "checks/a9_terms.h"
using namespace verif;
using namespace a9;

static std::vector<Env> G;
static Builder BD;

struct MapDef {
    std::string name;
    map_basic_basic m;
    bool expr_key = false;   // {K: t}
    bool identity = false;   // result must be unchanged
    bool absent_key = false; // key symbol never occurs
    bool pole = false;
    RCP<const Basic> K;      // for expression keys
};
static std::vector<MapDef> MAPS;

enum {
    K_CASES,
    K_CALLS,
    K_THROW,
    K_UNCHANGED_OK,
    K_VALUE_JUDGED_CALLS,
    K_POINTS,
    K_PT_SKIP_RHS,
    K_PT_SKIP_LHS,
    K_PT_SKIP_KEYVALUE,
    K_RESULT_CHANGED,
    K_CACHE_PAIRS,
    K_EXPRKEY_SKIPPED_DERIV,
    K_DISTINCT_RESULTS_VALUE_CHECKED,
    K_NESTED_TOL,
    K_POLE_SKIP,
    K_PT_SKIP_ILLCOND
};
static const std::vector<std::string> CN = {"(state,map)_cases",
                                            "substitution_calls",
                                            "calls_refused(exception)",
                                            "identity/absent-key_calls_confirmed_unchanged",
                                            "calls_value_judged(>=1 point)",
                                            "points_value_compared",
                                            "points_skipped_expected_undefined(pole/cut/unsupported)",
                                            "points_skipped_result_undefined",
                                            "points_skipped_key_value_undefined",
                                            "calls_whose_result_differs_from_input",
                                            "cache_on/off_pairs_compared",
                                            "expression-key_cases_skipped_on_Derivative/Subs_states",
                                            "distinct_results_value_checked",
                                            "points_compared_with_nested_stencil_tolerance",
                                            "points_skipped_pole-producing_map_expected_nonfinite",
                                            "points_skipped_ill-conditioned(input at a branch point/pole after substitution)"};

static const std::set<TypeID> DERIVSUBS = {SYMENGINE_DERIVATIVE, SYMENGINE_SUBS};

typedef std::function<RCP<const Basic>(const RCP<const Basic> &, const map_basic_basic &, bool)> SubsFn;
struct FnDef {
    std::string name;
    SubsFn f;
    bool deriv_ok;
};
static std::vector<FnDef> FNS;

// Sensitivity of the expected value to a 2^-90 relative perturbation of every symbol value: near branch points
// (asin(1), sqrt(0)) and poles the 113-bit evaluation of the *input* is itself inaccurate; such points are skipped.
static rq sensitivity(const Basic &e, const Env &env, cq v0)
{
    Env p = env;
    for (auto &kv : p.sym)
        kv.second = kv.second * mkc(1 + 0x1p-90Q, 0) + mkc(0x1p-90Q, 0x1p-91Q);
    Value v = refeval(e, p);
    if (!v.ok)
        return 1e300Q;
    return absq(v.v - v0);
}

// value judgement of result r of substituting map M in e: 1 ok, 0 bad (msg), -1 nothing judged
static int judge(const Basic &e, const Basic &r, const MapDef &M, std::string &msg, Ctx *c)
{
    auto cnt = [&](int k) {
        if (c)
            c->count(k);
    };
    bool nested = contains_type(e, {SYMENGINE_DERIVATIVE}) || contains_type(r, {SYMENGINE_DERIVATIVE});
    int judged = 0;
    for (size_t g = 0; g < G.size(); g++) {
        Env lhs_env = G[g], rhs_env = G[g];
        if (M.expr_key) {
            Value kv = refeval(*M.K, G[g]);
            if (!kv.ok) {
                cnt(K_PT_SKIP_KEYVALUE);
                continue;
            }
            lhs_env.sym["t"] = kv.v;
        } else {
            bool ok = true;
            for (auto &p : M.m) {
                Value v = refeval(*p.second, G[g]);
                if (!v.ok) {
                    ok = false;
                    break;
                }
                rhs_env.sym[down_cast<const Symbol &>(*p.first).get_name()] = v.v;
            }
            if (!ok) {
                cnt(K_PT_SKIP_KEYVALUE);
                continue;
            }
        }
        CmpResult cr = cmp_values(r, lhs_env, e, rhs_env, nested ? 1e-15Q : 1e-25Q);
        if (cr.res < 0) {
            if (cr.why.rfind("rhs:", 0) == 0)
                cnt(M.pole ? K_POLE_SKIP : K_PT_SKIP_RHS);
            else if (cr.why == "lhs:nonfinite-leaf") {
                // the library returned zoo/nan/oo although the substituted expression has a finite value here
                Value rv = refeval(e, rhs_env);
                if (rv.ok && sensitivity(e, rhs_env, rv.v) > 1e-12Q * absq(rv.v)) {
                    cnt(K_PT_SKIP_ILLCOND); // numerically finite only by rounding: a pole of the input
                    continue;
                }
                if (rv.ok) {
                    msg = "at grid point " + std::to_string(g) + " the input evaluates (after substitution) to " + cstr(rv.v)
                          + " but the result contains zoo/nan";
                    return 0;
                }
                cnt(M.pole ? K_POLE_SKIP : K_PT_SKIP_RHS);
            } else
                cnt(K_PT_SKIP_LHS);
            continue;
        }
        if (cr.res == 0) {
            Value rv = refeval(e, rhs_env);
            rq sc = fmaxq(rv.scale, absq(rv.v));
            if (rv.ok && 64 * sensitivity(e, rhs_env, rv.v) >= cr.relerr * sc) {
                cnt(K_PT_SKIP_ILLCOND);
                continue;
            }
            msg = "at grid point " + std::to_string(g) + " result vs expected: " + cr.why + " (relative error " + qstr(cr.relerr, 6) + ")";
            return 0;
        }
        if (nested)
            cnt(K_NESTED_TOL);
        cnt(K_POINTS);
        judged++;
    }
    return judged ? 1 : -1;
}

// innermost sub-expression of e on which F with map M already changes the value
static std::string culprit(const Basic &e, const MapDef &M, const FnDef &F, int depth = 0)
{
    if (depth < 6)
        for (auto &a : e.get_args()) {
            try {
                RCP<const Basic> r = F.f(a, M.m, true);
                std::string msg;
                if (judge(*a, *r, M, msg, nullptr) == 0)
                    return culprit(*a, M, F, depth + 1);
            } catch (std::exception &) {
            }
        }
    return cls(e, 1);
}

// shape of a node for cache/changed signatures: a Mul lists the classes of its base^exponent pairs
static std::string shape(const Basic &e)
{
    if (is_a<Mul>(e)) {
        std::set<std::string> ps;
        for (auto &p : down_cast<const Mul &>(e).get_dict())
            ps.insert(cls(*p.first, 0) + "^" + cls(*p.second, 0));
        std::string o = "Mul(";
        for (auto &x : ps)
            o += x + ",";
        return o + ")";
    }
    return cls(e, 1);
}
// innermost sub-expression whose result depends on the cache flag (or changes although it must not)
static std::string culprit_structural(const Basic &e, const MapDef &M, const FnDef &F, bool cache_dep, int depth = 0)
{
    if (depth < 6)
        for (auto &a : e.get_args()) {
            try {
                RCP<const Basic> r1 = F.f(a, M.m, true);
                bool bad = cache_dep ? key(*r1) != key(*F.f(a, M.m, false)) : key(*r1) != key(*a);
                if (bad)
                    return culprit_structural(*a, M, F, cache_dep, depth + 1);
            } catch (std::exception &) {
            }
        }
    return shape(e);
}

static void check_case(const State &S, const MapDef &M, Ctx &c)
{
    c.count(K_CASES);
    const Basic &e = *S.e;
    bool has_deriv = contains_type(e, DERIVSUBS);
    if (M.expr_key && has_deriv) {
        c.count(K_EXPRKEY_SKIPPED_DERIV);
        return;
    }
    std::string ke = S.key;
    std::map<std::string, int> verdict; // result key -> judged verdict (value check once per distinct result)
    bool any_changed = false;
    for (auto &F : FNS) {
        if (has_deriv && !F.deriv_ok)
            continue;
        RCP<const Basic> r1, r0;
        c.eval();
        c.count(K_CALLS, 2);
        std::string what = F.name + "(" + S.recipe + " = " + sstr(S.e) + ", " + M.name + ")";
        try {
            r1 = F.f(S.e, M.m, true);
            r0 = F.f(S.e, M.m, false);
        } catch (SymEngineException &x) {
            c.count(K_THROW);
            c.outcome(F.name + ":throw:" + x.what());
            continue;
        }
        std::string k1 = key(*r1), k0 = key(*r0);
        c.count(K_CACHE_PAIRS);
        if (k1 != k0 || !eq(*r1, *r0) || !eq(*r0, *r1)) {
            c.violation("cache:" + culprit_structural(e, M, F, true), what + ": cache=true gives " + sstr(r1) + " [" + k1
                                                                             + "] but cache=false gives " + sstr(r0) + " [" + k0 + "]");
            continue;
        }
        bool unchanged = (k1 == ke);
        if (!unchanged)
            any_changed = true, c.count(K_RESULT_CHANGED);
        bool must_be_unchanged = M.identity;
        if (M.absent_key)
            must_be_unchanged = true;
        if (must_be_unchanged) {
            if (!unchanged || !eq(*r1, e) || !eq(e, *r1)) {
                c.violation("changed:" + culprit_structural(e, M, F, false),
                            what + " must return the expression unchanged but returned " + sstr(r1) + " [" + k1 + "]");
                continue;
            }
            c.count(K_UNCHANGED_OK);
        }
        c.outcome(F.name + ":" + M.name + ":" + (unchanged ? "unchanged" : cls(*r1, 0)));
        auto it = verdict.find(k1);
        int v;
        std::string msg;
        if (it != verdict.end())
            v = it->second;
        else {
            c.count(K_DISTINCT_RESULTS_VALUE_CHECKED);
            v = judge(e, *r1, M, msg, &c);
            verdict[k1] = v == 0 ? 2 : v; // report the same wrong result only once per case
        }
        if (v == 1)
            c.count(K_VALUE_JUDGED_CALLS);
        if (v == 0)
            c.violation("value:" + F.name + ":" + M.name + ":" + culprit(e, M, F), what + " returned " + sstr(r1) + " [" + k1 + "]; " + msg);
    }
    if (any_changed)
        c.nontrivial();
    if (c.index % 40009 == 0 && !any_changed == false)
        c.sample("{\"state\":" + jstr(sstr(S.e)) + ",\"map\":" + jstr(M.name) + ",\"subs\":" + jstr(sstr(S.e->subs(M.m))) + "}");
}

int main(int argc, char **argv)
{
    init(argc, argv, "C11");
    bool thorough = opts().thorough();
    Run &R = run();
    G = complex_grid();
    RCP<const Symbol> x = symbol("x"), y = symbol("y"), t = symbol("t"), w = symbol("w");
    auto Rt = [](long a, long b) { return Rational::from_two_ints(a, b); };
    B fx = function_symbol("f", x);

    auto sym_map = [&](const std::string &name, map_basic_basic m) {
        MapDef d;
        d.name = name;
        d.m = m;
        MAPS.push_back(d);
        return &MAPS.back();
    };
    auto expr_map = [&](const std::string &name, const B &K) {
        MapDef d;
        d.name = name;
        d.m = {{K, t}};
        d.expr_key = true;
        d.K = K;
        MAPS.push_back(d);
    };
    MAPS.reserve(32);
    sym_map("{x:2}", {{x, integer(2)}});
    sym_map("{x:1/2}", {{x, Rt(1, 2)}});
    sym_map("{x:y}", {{x, y}});
    sym_map("{x:x}", {{x, x}})->identity = true;
    sym_map("{x:y+1}", {{x, add(y, integer(1))}});
    sym_map("{x:x+y}", {{x, add(x, y)}});
    sym_map("{w:1}", {{w, integer(1)}})->absent_key = true;
    sym_map("{x:y,y:x}", {{x, y}, {y, x}});
    sym_map("{x:0}", {{x, integer(0)}})->pole = true;
    sym_map("{x:y,y:2}", {{x, y}, {y, integer(2)}});
    sym_map("{x:x,y:y}", {{x, x}, {y, y}})->identity = true;
    expr_map("{sin(x):t}", sin(x));
    expr_map("{x**2:t}", pow(x, integer(2)));
    expr_map("{x+y:t}", add(x, y));
    expr_map("{x*y:t}", mul(x, y));
    expr_map("{2*x:t}", mul(integer(2), x));
    expr_map("{I:t}", I);
    expr_map("{2:t}", integer(2));
    expr_map("{f(x):t}", fx);
    if (thorough) {
        expr_map("{sqrt(x):t}", sqrt(x));
        expr_map("{x**y:t}", pow(x, y));
        expr_map("{1/x:t}", pow(x, integer(-1)));
        expr_map("{exp(x):t}", exp(x));
        sym_map("{x:I}", {{x, I}});
        sym_map("{y:x**2}", {{y, pow(x, integer(2))}});
        sym_map("{x:-1}", {{x, integer(-1)}})->pole = true;
    }

    FNS = {{"subs", [](const B &e, const map_basic_basic &m, bool c) { return subs(e, m, c); }, true},
           {"xreplace", [](const B &e, const map_basic_basic &m, bool c) { return xreplace(e, m, c); }, false},
           {"msubs", [](const B &e, const map_basic_basic &m, bool c) { return msubs(e, m, c); }, false},
           {"ssubs", [](const B &e, const map_basic_basic &m, bool c) { return ssubs(e, m, c); }, false}};

    std::vector<std::pair<std::string, B>> leaves = {{"x", x},         {"y", y},   {"2", integer(2)}, {"-1", integer(-1)},
                                                     {"1/2", Rt(1, 2)}, {"pi", pi}, {"I", I}};
    if (thorough) {
        leaves.push_back({"3", integer(3)});
        leaves.push_back({"-1/2", Rt(-1, 2)});
    }
    for (auto &l : leaves)
        BD.SS.add(l.second, l.first, 0);
    const int n0 = BD.SS.size();
    BD.bin = arith_ops();
    BD.bin.push_back({"g", [](const B &a, const B &b) { return function_symbol("g", {a, b}); }});
    for (auto &u : all_unary())
        if (u.name == "sin" || u.name == "cos" || u.name == "exp" || u.name == "log" || u.name == "sqrt" || u.name == "abs"
            || u.name == "f" || (thorough && (u.name == "atan" || u.name == "asin" || u.name == "tan" || u.name == "conjugate")))
            BD.un.push_back(u);
    const int NBIN = BD.bin.size(), NUN = BD.un.size();

    std::vector<Trans> t1;
    for (int a = 0; a < n0; a++)
        for (int b = 0; b < n0; b++)
            for (int op = 0; op < NBIN; op++)
                t1.push_back({1, op, a, b});
    for (int a = 0; a < n0; a++)
        for (int op = 0; op < NUN; op++)
            t1.push_back({0, op, a, a});
    BD.layer("S1", t1, 1);
    const int n1 = BD.SS.size();
    std::vector<Trans> t2;
    for (int a = n0; a < n1; a++) {
        for (int b = 0; b < n0; b++)
            for (int op = 0; op < NBIN; op++) {
                t2.push_back({1, op, a, b});
                t2.push_back({1, op, b, a});
            }
        for (int op = 0; op < NUN; op++)
            t2.push_back({0, op, a, a});
    }
    BD.layer("S2", t2, 2);
    const int n2 = BD.SS.size();
    // Derivative / Subs objects: what diff returns on states with undefined functions or abs (constructor pass isolated)
    {
        CaseSet cs;
        cs.name = "construct:D";
        cs.n = (long long)n2 * 2;
        cs.counter_names = {"constructor_calls", "constructor_refused(exception)"};
        cs.desc = [&](long long i) { return "diff(" + BD.SS.S[i / 2].recipe + (i % 2 ? ", y)" : ", x)"); };
        cs.body = [&](long long i, Ctx &c) {
            c.count(0);
            try {
                BD.SS.S[i / 2].e->diff(i % 2 ? y : x);
            } catch (std::exception &) {
                c.count(1);
            }
        };
        run_cases(cs);
        for (long long i = 0; i < cs.n; i++) {
            if (cs.bad.count(i))
                continue;
            const State &S = BD.SS.S[i / 2];
            if (!contains_type(*S.e, {SYMENGINE_FUNCTIONSYMBOL, SYMENGINE_ABS}))
                continue;
            try {
                B d = S.e->diff(i % 2 ? y : x);
                if (contains_type(*d, DERIVSUBS) && !has_nonfinite(*d))
                    BD.SS.add(d, cs.desc(i), S.depth + 1);
            } catch (std::exception &) {
            }
        }
    }
    const int n3 = BD.SS.size();
    R.counters["states_S0"] = n0;
    R.counters["states_S1"] = n1 - n0;
    R.counters["states_S2"] = n2 - n1;
    R.counters["states_D(Derivative/Subs objects)"] = n3 - n2;
    R.counters["maps"] = MAPS.size();

    const long long NM = MAPS.size();
    CaseSet cs;
    cs.name = "subs";
    cs.n = (long long)n3 * NM;
    cs.counter_names = CN;
    cs.hang_s = 30;
    cs.desc = [&](long long i) { return "substitute " + MAPS[i % NM].name + " in " + BD.SS.S[i / NM].recipe; };
    cs.crash_sig = [&](long long i, const std::string &oc) { return "subs:" + oc + ":" + MAPS[i % NM].name + ":" + cls(*BD.SS.S[i / NM].e, 0); };
    cs.body = [&](long long i, Ctx &c) { check_case(BD.SS.S[i / NM], MAPS[i % NM], c); };
    run_cases(cs);

    {
        struct rusage ru, rs;
        getrusage(RUSAGE_CHILDREN, &ru);
        getrusage(RUSAGE_SELF, &rs);
        R.counters["cpu_seconds(parent+workers)"] = (uint64_t)(ru.ru_utime.tv_sec + ru.ru_stime.tv_sec + rs.ru_utime.tv_sec + rs.ru_stime.tv_sec);
    }
    R.counters["states_dropped_nonfinite(zoo/oo/nan inside)"] = BD.dropped_nonfinite;
    R.counters["duplicate_arrivals_merged"] = BD.SS.duplicate_arrivals;
    R.states = n3;
    R.transitions = R.evaluations;
    std::string mapnames;
    for (auto &m : MAPS)
        mapnames += m.name + " ";
    R.bound_completed = "all states with <= 2 operations (" + std::to_string(n0) + " leaves, " + std::to_string(NBIN) + " binary, " + std::to_string(NUN)
                        + " unary operators; |S1|=" + std::to_string(n1 - n0) + ", |S2|=" + std::to_string(n2 - n1) + ") + " + std::to_string(n3 - n2)
                        + " Derivative/Subs objects, x " + std::to_string(NM) + " maps x {subs,xreplace,msubs,ssubs} x cache on/off";
    R.rule = "E1 states de-duplicated by structural key, crossed with the map menu [" + mapnames
             + "]; every call is executed with cache=true and cache=false (key and eq must agree); value oracle in 113-bit arithmetic at 4 fixed "
               "complex points: symbol keys by evaluating the input under the composed environment (simultaneous), expression keys {K:t} by "
               "binding the fresh t to the value of K; identity and absent-key maps must return the same structural key. xreplace/msubs/ssubs "
               "and expression keys only on derivative-free states. distinct_nontrivial = cases in which some call changed the expression";
    R.assumptions = {"libquadmath elementary functions, RefEval recursion incl. Derivative/Subs by numeric differentiation",
                     "principal branches; on-cut points two-sided", "pole-producing maps are judged only where the substituted value is finite"};
    return R.finish();
}
