// C03  Every expression the API returns is in canonical form -- E1 in the `assert` build (DESIGN 5 C03)
// Oracle 1: no canonical-form assertion fires (SYMENGINE_ASSERT is re-defined to throw verif::AssertFailure).
// Oracle 2: an independent validator walks every returned tree (covers paths without asserts).
#include "common.h"
#include "explore.h"
#include <symengine/simplify.h>
using namespace verif;

// ------------------------------------------------------------------ validator (oracle 2)
static bool validate(const Basic &e, std::string &why, int depth = 0)
{
    if (depth > 40)
        return true;
    try {
        if (is_a<Add>(e)) {
            const Add &a = down_cast<const Add &>(e);
            if (!a.is_canonical(a.get_coef(), a.get_dict())) {
                why = "Add::is_canonical false";
                return false;
            }
            for (auto &p : a.get_dict()) {
                // k*(a+b) with k != 1 is a legitimate unexpanded term; with k == 1 the inner sum must have been flattened
                if (is_a<Add>(*p.first) && is_a<Integer>(*p.second) && down_cast<const Integer &>(*p.second).is_one()) {
                    why = "an Add with coefficient 1 is stored as a term (key) of an Add (nested sum not flattened)";
                    return false;
                }
                if (is_a_Number(*p.first)) {
                    why = "a Number is stored as a term (key) of an Add";
                    return false;
                }
            }
        } else if (is_a<Mul>(e)) {
            const Mul &m = down_cast<const Mul &>(e);
            if (!m.is_canonical(m.get_coef(), m.get_dict())) {
                why = "Mul::is_canonical false";
                return false;
            }
            for (auto &p : m.get_dict())
                if (is_a<Mul>(*p.first) && is_a<Integer>(*p.second)) {
                    why = "an integer power of a Mul is stored in a Mul";
                    return false;
                }
        } else if (is_a<Pow>(e)) {
            const Pow &p = down_cast<const Pow &>(e);
            if (!p.is_canonical(*p.get_base(), *p.get_exp())) {
                why = "Pow::is_canonical false";
                return false;
            }
        } else if (is_a<Rational>(e)) {
            const Rational &q = down_cast<const Rational &>(e);
            if (!q.is_canonical(q.as_rational_class())) {
                why = "Rational::is_canonical false";
                return false;
            }
            if (get_den(q.as_rational_class()) <= 0) {
                why = "Rational with non-positive denominator";
                return false;
            }
        } else if (is_a<Complex>(e)) {
            const Complex &c = down_cast<const Complex &>(e);
            if (!c.is_canonical(c.real_, c.imaginary_)) {
                why = "Complex::is_canonical false";
                return false;
            }
        }
    } catch (std::exception &x) {
        why = std::string("validator threw: ") + x.what();
        return false;
    }
    for (auto &a : e.get_args())
        if (!validate(*a, why, depth + 1))
            return false;
    return true;
}

// ------------------------------------------------------------------ operation menu
typedef RCP<const Basic> (*F1)(const RCP<const Basic> &);
struct UOp {
    std::string name;
    std::function<RCP<const Basic>(const RCP<const Basic> &)> f;
};
struct BOp {
    std::string name;
    std::function<RCP<const Basic>(const RCP<const Basic> &, const RCP<const Basic> &)> f;
};
static std::vector<UOp> UO;
static std::vector<BOp> BO;
static RCP<const Symbol> X, Y;

static void build_ops()
{
    X = symbol("x");
    Y = symbol("y");
    std::vector<std::pair<std::string, F1>> f1 = {
        {"sin", sin},     {"cos", cos},     {"tan", tan},     {"cot", cot},     {"csc", csc},         {"sec", sec},
        {"asin", asin},   {"acos", acos},   {"asec", asec},   {"acsc", acsc},   {"atan", atan},       {"acot", acot},
        {"sinh", sinh},   {"csch", csch},   {"cosh", cosh},   {"sech", sech},   {"tanh", tanh},       {"coth", coth},
        {"asinh", asinh}, {"acsch", acsch}, {"acosh", acosh}, {"atanh", atanh}, {"acoth", acoth},     {"asech", asech},
        {"log", log},     {"exp", exp},     {"lambertw", lambertw}, {"zeta", zeta}, {"dirichlet_eta", dirichlet_eta},
        {"erf", erf},     {"erfc", erfc},   {"gamma", gamma}, {"loggamma", loggamma}, {"digamma", digamma}, {"trigamma", trigamma},
        {"abs", abs},     {"sign", sign},   {"floor", floor}, {"ceiling", ceiling}, {"truncate", truncate},
        {"conjugate", conjugate}, {"sqrt", sqrt}, {"cbrt", cbrt}, {"neg", neg}, {"primepi", primepi}, {"primorial", primorial}};
    for (auto &p : f1) {
        F1 fn = p.second;
        UO.push_back({p.first, [fn](const RCP<const Basic> &a) { return fn(a); }});
    }
    UO.push_back({"expand", [](const RCP<const Basic> &a) { return expand(a); }});
    UO.push_back({"diff_x", [](const RCP<const Basic> &a) { return a->diff(X); }});
    UO.push_back({"diff_y", [](const RCP<const Basic> &a) { return a->diff(Y); }});
    UO.push_back({"numer", [](const RCP<const Basic> &a) {
                      RCP<const Basic> n, d;
                      as_numer_denom(a, outArg(n), outArg(d));
                      return n;
                  }});
    UO.push_back({"denom", [](const RCP<const Basic> &a) {
                      RCP<const Basic> n, d;
                      as_numer_denom(a, outArg(n), outArg(d));
                      return d;
                  }});
    UO.push_back({"real_part", [](const RCP<const Basic> &a) {
                      RCP<const Basic> r, i;
                      as_real_imag(a, outArg(r), outArg(i));
                      return r;
                  }});
    UO.push_back({"imag_part", [](const RCP<const Basic> &a) {
                      RCP<const Basic> r, i;
                      as_real_imag(a, outArg(r), outArg(i));
                      return i;
                  }});
    UO.push_back({"rewrite_as_exp", [](const RCP<const Basic> &a) { return rewrite_as_exp(a); }});
    UO.push_back({"rewrite_as_sin", [](const RCP<const Basic> &a) { return rewrite_as_sin(a); }});
    UO.push_back({"rewrite_as_cos", [](const RCP<const Basic> &a) { return rewrite_as_cos(a); }});
    UO.push_back({"expand_as_exp", [](const RCP<const Basic> &a) { return a->expand_as_exp(); }});
    UO.push_back({"trig_to_sqrt", [](const RCP<const Basic> &a) { return trig_to_sqrt(a); }});
    UO.push_back({"simplify", [](const RCP<const Basic> &a) { return simplify(a); }});
    UO.push_back({"refine_x_real", [](const RCP<const Basic> &a) {
                      Assumptions as({contains(X, reals()), contains(Y, reals())});
                      return refine(a, &as);
                  }});
    UO.push_back({"refine_x_pos", [](const RCP<const Basic> &a) {
                      Assumptions as({Gt(X, zero), contains(Y, integers())});
                      return refine(a, &as);
                  }});
    UO.push_back({"evalf53_real", [](const RCP<const Basic> &a) { return evalf(*a, 53, EvalfDomain::Real); }});
    UO.push_back({"evalf53_complex", [](const RCP<const Basic> &a) { return evalf(*a, 53, EvalfDomain::Complex); }});
    UO.push_back({"parse(str)", [](const RCP<const Basic> &a) { return parse(a->__str__()); }});
    UO.push_back({"loads(dumps)", [](const RCP<const Basic> &a) { return Basic::loads(a->dumps()); }});
    UO.push_back({"series3", [](const RCP<const Basic> &a) { return series(a, X, 3)->as_basic(); }});
    UO.push_back({"f(.)", [](const RCP<const Basic> &a) { return function_symbol("f", a); }});
    UO.push_back({"max(.,x)", [](const RCP<const Basic> &a) { return max({a, X}); }});
    UO.push_back({"min(.,1)", [](const RCP<const Basic> &a) { return min({a, one}); }});
    struct SM {
        const char *n;
        RCP<const Basic> v;
    };
    std::vector<SM> sm = {{"x->0", zero},          {"x->1", one},  {"x->-1", minus_one},      {"x->1/2", Rational::from_two_ints(1, 2)},
                          {"x->I", I},             {"x->y", Y},    {"x->oo", Inf},            {"x->0.5", real_double(0.5)},
                          {"x->pi", pi},           {"x->zoo", ComplexInf}, {"x->2y", mul(integer(2), Y)}, {"x->nan", Nan}};
    for (auto &s : sm) {
        RCP<const Basic> v = s.v;
        UO.push_back({std::string("subs[") + s.n + "]", [v](const RCP<const Basic> &a) {
                          map_basic_basic m;
                          m[X] = v;
                          return a->subs(m);
                      }});
    }
    BO.push_back({"add", [](const RCP<const Basic> &a, const RCP<const Basic> &b) { return add(a, b); }});
    BO.push_back({"sub", [](const RCP<const Basic> &a, const RCP<const Basic> &b) { return sub(a, b); }});
    BO.push_back({"mul", [](const RCP<const Basic> &a, const RCP<const Basic> &b) { return mul(a, b); }});
    BO.push_back({"div", [](const RCP<const Basic> &a, const RCP<const Basic> &b) { return div(a, b); }});
    BO.push_back({"pow", [](const RCP<const Basic> &a, const RCP<const Basic> &b) { return pow(a, b); }});
    BO.push_back({"atan2", [](const RCP<const Basic> &a, const RCP<const Basic> &b) { return atan2(a, b); }});
    BO.push_back({"log_b", [](const RCP<const Basic> &a, const RCP<const Basic> &b) { return log(a, b); }});
    BO.push_back({"beta", [](const RCP<const Basic> &a, const RCP<const Basic> &b) { return beta(a, b); }});
    BO.push_back({"polygamma", [](const RCP<const Basic> &a, const RCP<const Basic> &b) { return polygamma(a, b); }});
    BO.push_back({"zeta2", [](const RCP<const Basic> &a, const RCP<const Basic> &b) { return zeta(a, b); }});
    BO.push_back({"lowergamma", [](const RCP<const Basic> &a, const RCP<const Basic> &b) { return lowergamma(a, b); }});
    BO.push_back({"uppergamma", [](const RCP<const Basic> &a, const RCP<const Basic> &b) { return uppergamma(a, b); }});
    BO.push_back({"kronecker_delta", [](const RCP<const Basic> &a, const RCP<const Basic> &b) { return kronecker_delta(a, b); }});
    BO.push_back({"max", [](const RCP<const Basic> &a, const RCP<const Basic> &b) { return max({a, b}); }});
    BO.push_back({"min", [](const RCP<const Basic> &a, const RCP<const Basic> &b) { return min({a, b}); }});
}
static const int NARITH = 5; // add sub mul div pow

static StateSet SS;
enum { K_OK, K_LIBEXC, K_ASSERT, K_VALID_FAIL, K_OTHEREXC, K_PRECOND };

// classify an assertion: canonical-form (C03) vs caller precondition
static bool is_canonical_assert(const verif::AssertFailure &a)
{
    return a.cond.find("is_canonical") != std::string::npos || a.cond.find("!= null") != std::string::npos
           || a.cond.find("is_null") != std::string::npos;
}

// a Pow with an exact zero base somewhere in the tree (known defect class: pow(0, I), 0**pi are built but rejected by
// Pow/Mul::is_canonical); used to keep that class apart from every other failure of the same assertion site
static bool has_zero_base_pow(const Basic &e, int depth = 0)
{
    if (depth > 30)
        return false;
    if (is_a<Pow>(e)) {
        const Basic &b = *down_cast<const Pow &>(e).get_base();
        if (is_a_Number(b) && down_cast<const Number &>(b).is_zero())
            return true;
    }
    for (auto &a : e.get_args())
        if (has_zero_base_pow(*a, depth + 1))
            return true;
    return false;
}
static std::string g_opclass; // "<op>(<operand types>)[|zero-base-pow]" of the transition being executed
// does the tree contain a negative integer raised to a non-integer rational (e.g. (-1)**(2/3))?
static bool has_neg_int_surd(const Basic &e)
{
    if (is_a<Pow>(e)) {
        const Pow &p = down_cast<const Pow &>(e);
        if (is_a<Integer>(*p.get_base()) && down_cast<const Integer &>(*p.get_base()).is_negative() && is_a<Rational>(*p.get_exp()))
            return true;
    }
    for (auto &a : e.get_args())
        if (has_neg_int_surd(*a))
            return true;
    return false;
}
static void set_opclass(const std::string &op, const RCP<const Basic> &a, const RCP<const Basic> *b)
{
    g_opclass = op + "(" + type_code_name(a->get_type_code()) + (b ? "," + type_code_name((*b)->get_type_code()) : "") + ")";
    if (has_zero_base_pow(*a) || (b && has_zero_base_pow(**b)))
        g_opclass += "|zero-base-pow";
    // (only for expand: the marker separates the surd-coefficient class of pow_expand from other expand defects; the
    // signatures of the other operations stay as recorded in known_findings.txt)
    if (op == "expand" && has_neg_int_surd(*a))
        g_opclass += "|neg-int-surd";
}

static void run_op(const std::string &opname, const std::string &recipe, const std::function<RCP<const Basic>()> &f, Ctx &c)
{
    c.eval();
    try {
        RCP<const Basic> r = f();
        std::string why;
        if (r.is_null()) {
            c.violation("null-result:" + opname, recipe + " returned a null RCP");
            return;
        }
        c.outcome(opname + "->" + type_code_name(r->get_type_code()));
        if (!validate(*r, why)) {
            c.count(K_VALID_FAIL);
            c.violation("validator:" + opname + ":" + why, recipe + " returned " + sstr(r) + " [" + key(*r).substr(0, 300) + "]: " + why);
            return;
        }
        c.count(K_OK);
        c.nontrivial();
    } catch (verif::AssertFailure &a) {
        c.count(K_ASSERT);
        // signature = assertion site + the class of the call that reached it: one site can fail for unrelated reasons
        if (is_canonical_assert(a))
            c.violation("assert:" + a.file + ":" + a.func + ":" + a.cond + "|" + g_opclass, recipe + " trips " + a.what());
        else {
            c.count(K_PRECOND);
            c.violation("assert-other:" + a.file + ":" + a.func + ":" + a.cond + "|" + g_opclass, recipe + " trips " + a.what());
        }
    } catch (SymEngineException &x) {
        c.count(K_LIBEXC);
        c.outcome(opname + "->refused");
    } catch (std::exception &x) {
        c.count(K_OTHEREXC);
        c.outcome(opname + "->std::exception");
    }
}

int main(int argc, char **argv)
{
    init(argc, argv, "C03");
    bool thorough = opts().thorough();
    build_ops();
    auto Rq = [](long a, long b) { return Rational::from_two_ints(a, b); };
    std::vector<std::pair<std::string, RCP<const Basic>>> leaves = {
        {"0", integer(0)},    {"1", integer(1)},       {"-1", integer(-1)},     {"2", integer(2)},     {"-3", integer(-3)},
        {"1/2", Rq(1, 2)},    {"-3/2", Rq(-3, 2)},     {"I", I},                {"1+I", add(one, I)},  {"1/2-I", sub(Rq(1, 2), I)},
        {"0.5", real_double(0.5)}, {"-2.0", real_double(-2.0)}, {"0.0", real_double(0.0)},
        {"cd(1,2)", complex_double(std::complex<double>(1, 2))},
        {"pi", pi},           {"E", E},                {"oo", Inf},             {"-oo", NegInf},       {"zoo", ComplexInf},
        {"nan", Nan},         {"x", X},                {"y", Y}};
    for (auto &l : leaves)
        SS.add(l.second, l.first, 0);
    const long long n0 = SS.size(), NU = UO.size(), NB = BO.size();
    std::vector<std::string> cn = {"ok_and_validated", "library_exception(refusal)", "assertion_failures", "validator_failures",
                                   "non-library std::exception", "non-canonical-form assertion (triaged separately)"};
    Run &R = run();

    // layer 1: every op on leaves
    CaseSet l1;
    l1.name = "L1";
    l1.n = n0 * NU + n0 * n0 * NB;
    l1.counter_names = cn;
    l1.hang_s = 5;
    auto dec = [&](long long i, long long ns, long long nb_first, bool &unary, int &op, int &a, int &b) {
        // layout: [unary: ns*NU][binary over (ns x nb_first)]
        if (i < ns * NU) {
            unary = true;
            op = i % NU;
            a = i / NU;
            b = a;
        } else {
            unary = false;
            long long j = i - ns * NU;
            op = j % NB;
            j /= NB;
            b = j % nb_first;
            a = j / nb_first;
        }
    };
    auto recipe_of = [&](bool unary, int op, int a, int b) {
        return unary ? UO[op].name + "(" + SS.S[a].recipe + ")" : BO[op].name + "(" + SS.S[a].recipe + ", " + SS.S[b].recipe + ")";
    };
    l1.desc = [&](long long i) {
        bool u;
        int op, a, b;
        dec(i, n0, n0, u, op, a, b);
        return recipe_of(u, op, a, b);
    };
    l1.crash_sig = [&](long long i, const std::string &oc) {
        bool u;
        int op, a, b;
        dec(i, n0, n0, u, op, a, b);
        return "crash:" + (u ? UO[op].name : BO[op].name) + ":" + oc + ":(" + type_code_name(SS.S[a].e->get_type_code())
               + (u ? "" : "," + type_code_name(SS.S[b].e->get_type_code())) + ")";
    };
    l1.body = [&](long long i, Ctx &c) {
        bool u;
        int op, a, b;
        dec(i, n0, n0, u, op, a, b);
        RCP<const Basic> A = SS.S[a].e, B = SS.S[b].e;
        set_opclass(u ? UO[op].name : BO[op].name, A, u ? nullptr : &B);
        if (u)
            run_op(UO[op].name, recipe_of(u, op, a, b), [&] { return UO[op].f(A); }, c);
        else
            run_op(BO[op].name, recipe_of(u, op, a, b), [&] { return BO[op].f(A, B); }, c);
    };
    run_cases(l1);
    // S1 := results of non-violating layer-1 transitions
    for (long long i = 0; i < l1.n; i++) {
        if (l1.bad.count(i))
            continue;
        bool u;
        int op, a, b;
        dec(i, n0, n0, u, op, a, b);
        if (u && (UO[op].name == "parse(str)" || UO[op].name == "loads(dumps)" || UO[op].name.rfind("evalf", 0) == 0))
            continue; // identity-like / float-only: do not grow the state space
        try {
            RCP<const Basic> r = u ? UO[op].f(SS.S[a].e) : BO[op].f(SS.S[a].e, SS.S[b].e);
            if (!r.is_null())
                SS.add(r, recipe_of(u, op, a, b), 1);
        } catch (...) {
        }
    }
    const long long n1 = SS.size();
    R.counters["states_S0"] = n0;
    R.counters["states_S1"] = n1;

    // layer 2: every unary op on S1; every binary op on S1 x S0 and S0 x S1; (thorough) arithmetic on S1 x S1
    CaseSet l2;
    l2.name = "L2";
    const long long nA = n1 * NU, nBfwd = n1 * n0 * NB, nBrev = n0 * n1 * NB;
    const long long nS11 = thorough ? n1 * n1 * NARITH : 0;
    l2.n = nA + nBfwd + nBrev + nS11;
    l2.counter_names = cn;
    auto dec2 = [&](long long i, bool &u, int &op, int &a, int &b) {
        if (i < nA) {
            u = true;
            op = i % NU;
            a = b = i / NU;
        } else if (i < nA + nBfwd) {
            long long j = i - nA;
            u = false;
            op = j % NB;
            j /= NB;
            b = j % n0;
            a = j / n0;
        } else if (i < nA + nBfwd + nBrev) {
            long long j = i - nA - nBfwd;
            u = false;
            op = j % NB;
            j /= NB;
            b = j % n1;
            a = j / n1;
        } else {
            long long j = i - nA - nBfwd - nBrev;
            u = false;
            op = j % NARITH;
            j /= NARITH;
            b = j % n1;
            a = j / n1;
        }
    };
    l2.desc = [&](long long i) {
        bool u;
        int op, a, b;
        dec2(i, u, op, a, b);
        return recipe_of(u, op, a, b);
    };
    l2.crash_sig = [&](long long i, const std::string &oc) {
        bool u;
        int op, a, b;
        dec2(i, u, op, a, b);
        return "crash:" + (u ? UO[op].name : BO[op].name) + ":" + oc + ":(" + type_code_name(SS.S[a].e->get_type_code())
               + (u ? "" : "," + type_code_name(SS.S[b].e->get_type_code())) + ")";
    };
    l2.hang_s = 8;
    l2.body = [&](long long i, Ctx &c) {
        bool u;
        int op, a, b;
        dec2(i, u, op, a, b);
        if (a < n0 && b < n0)
            return; // layer 1
        RCP<const Basic> A = SS.S[a].e, B = SS.S[b].e;
        set_opclass(u ? UO[op].name : BO[op].name, A, u ? nullptr : &B);
        if (u)
            run_op(UO[op].name, recipe_of(u, op, a, b), [&] { return UO[op].f(A); }, c);
        else
            run_op(BO[op].name, recipe_of(u, op, a, b), [&] { return BO[op].f(A, B); }, c);
    };
    run_cases(l2);

    // ---- algebraic core from STRUCTURED leaves (products/sums/radicals of products as atoms): depth 2 here is depth 4-5
    //      from x and y, which is where Mul::power_num / dict_add_term_new / Pow rules for composite bases fire
    //      (added after seeded change C03 -- (3*sqrt(x*y))**4 kept as 81*(x*y)**2 -- escaped the atom-only alphabet)
    StateSet TS;
    {
        auto Rq2 = [](long a, long b) { return Rational::from_two_ints(a, b); };
        std::vector<std::pair<std::string, RCP<const Basic>>> tl = {
            {"x*y", mul(X, Y)},
            {"sqrt(x*y)", sqrt(mul(X, Y))},
            {"(x*y)^(1/3)", pow(mul(X, Y), Rq2(1, 3))},
            {"(x*y)^(-1/2)", pow(mul(X, Y), Rq2(-1, 2))},
            {"x+y", add(X, Y)},
            {"sqrt(x+1)", sqrt(add(X, one))},
            {"2*x", mul(integer(2), X)},
            {"x^2", pow(X, integer(2))},
            {"1/x", div(one, X)},
            {"sqrt(x)", sqrt(X)},
            {"x^y", pow(X, Y)},
            {"sqrt(2)", sqrt(integer(2))},
            {"(1+I)^(1/2)", sqrt(add(one, I))},
            {"sin(x)", sin(X)},
            {"x", X},
            {"2", integer(2)},
            {"3", integer(3)},
            {"4", integer(4)},
            {"6", integer(6)},
            {"-2", integer(-2)},
            {"-1", integer(-1)},
            {"1/2", Rq2(1, 2)},
            {"-1/2", Rq2(-1, 2)},
            {"2/3", Rq2(2, 3)},
            {"I", I},
            // sums whose terms carry surd coefficients: in a product of two such sums the cross terms' surds multiply
            // to a NUMBER of either sign (sqrt2*sqrt2 = 2, (-1)^(1/3)*(-1)^(2/3) = -1), which is the tidy-up branch of
            // ExpandVisitor::mul_expand_two and the coefficient extraction in Add/Mul (added after seeded change C03b)
            {"1+(-1)^(1/3)*x", add(one, mul(pow(integer(-1), Rq2(1, 3)), X))},
            {"1+(-1)^(2/3)*y", add(one, mul(pow(integer(-1), Rq2(2, 3)), Y))},
            {"1+sqrt(2)*x", add(one, mul(sqrt(integer(2)), X))},
            {"1-sqrt(2)*y", sub(one, mul(sqrt(integer(2)), Y))}};
        for (auto &l : tl)
            TS.add(l.second, l.first, 0);
    }
    std::vector<int> tun; // unary subset
    for (int i = 0; i < (int)NU; i++)
        for (const char *nm : {"sqrt", "cbrt", "neg", "expand", "conjugate", "abs", "numer", "denom", "diff_x", "simplify", "parse(str)"})
            if (UO[i].name == nm)
                tun.push_back(i);
    const long long t0 = TS.size(), TNU = tun.size();
    auto trecipe = [&](bool u, int op, int a, int b) {
        return u ? UO[tun[op]].name + "(" + TS.S[a].recipe + ")" : BO[op].name + "(" + TS.S[a].recipe + ", " + TS.S[b].recipe + ")";
    };
    auto run_t = [&](const std::string &name, long long ns, long long nlo, bool both_orders, std::set<long long> *bad_out,
                     const std::function<void(bool, int, int, int)> &collect) {
        // cases: [unary on states nlo..ns) x tun] + [binary arithmetic: states nlo..ns x leaves 0..t0 (and reversed)]
        CaseSet c;
        c.name = name;
        const long long nu = (ns - nlo) * TNU, nb = (ns - nlo) * t0 * NARITH;
        c.n = nu + nb * (both_orders ? 2 : 1);
        c.counter_names = cn;
        c.hang_s = 8;
        auto d = [&, nu, nb, nlo](long long i, bool &u, int &op, int &a, int &b) {
            if (i < nu) {
                u = true;
                op = i % TNU;
                a = b = nlo + i / TNU;
            } else {
                long long j = i - nu;
                bool rev = j >= nb;
                if (rev)
                    j -= nb;
                u = false;
                op = j % NARITH;
                j /= NARITH;
                int leaf = j % t0, st = nlo + j / t0;
                a = rev ? leaf : st;
                b = rev ? st : leaf;
            }
        };
        c.desc = [&, d](long long i) {
            bool u;
            int op, a, b;
            d(i, u, op, a, b);
            return trecipe(u, op, a, b);
        };
        c.crash_sig = [&, d](long long i, const std::string &oc) {
            bool u;
            int op, a, b;
            d(i, u, op, a, b);
            return "crash:" + (u ? UO[tun[op]].name : BO[op].name) + ":" + oc + ":(" + type_code_name(TS.S[a].e->get_type_code())
                   + (u ? "" : "," + type_code_name(TS.S[b].e->get_type_code())) + ")";
        };
        c.body = [&, d](long long i, Ctx &cx) {
            bool u;
            int op, a, b;
            d(i, u, op, a, b);
            RCP<const Basic> A = TS.S[a].e, B = TS.S[b].e;
            set_opclass(u ? UO[tun[op]].name : BO[op].name, A, u ? nullptr : &B);
            if (u)
                run_op(UO[tun[op]].name, trecipe(u, op, a, b), [&] { return UO[tun[op]].f(A); }, cx);
            else
                run_op(BO[op].name, trecipe(u, op, a, b), [&] { return BO[op].f(A, B); }, cx);
        };
        run_cases(c);
        if (collect)
            for (long long i = 0; i < c.n; i++) {
                if (c.bad.count(i))
                    continue;
                bool u;
                int op, a, b;
                d(i, u, op, a, b);
                collect(u, op, a, b);
            }
        (void)bad_out;
    };
    if (!past_deadline()) {
        run_t("T1", t0, 0, true, nullptr, [&](bool u, int op, int a, int b) {
            if (u && UO[tun[op]].name == "parse(str)")
                return;
            try {
                RCP<const Basic> r = u ? UO[tun[op]].f(TS.S[a].e) : BO[op].f(TS.S[a].e, TS.S[b].e);
                if (!r.is_null())
                    TS.add(r, trecipe(u, op, a, b), 1);
            } catch (...) {
            }
        });
        const long long t1 = TS.size();
        R.counters["states_T0(structured leaves)"] = t0;
        R.counters["states_T1"] = t1;
        if (!past_deadline())
            run_t("T2", t1, t0, true, nullptr, nullptr);
    }

    R.states = n1 + TS.size();
    R.transitions = R.evaluations;
    R.bound_completed = "all " + std::to_string(NU) + " unary and " + std::to_string(NB) + " binary public operations on S0 (" + std::to_string(n0)
                        + " leaves) and on S1 (" + std::to_string(n1) + " states; unary on S1, binary on S1xS0 and S0xS1"
                        + (thorough ? ", arithmetic on S1xS1" : "") + "); plus the algebraic core over 29 structured leaves (products, "
                          "radicals of products/sums, small exponents): 11 unary + 5 arithmetic operations on T0 and on T1 x T0 in both orders";
    R.rule = "E1 in the assertion build: SYMENGINE_ASSERT is re-defined (forced include, no source change) to throw; leaves = numbers of every "
             "kind, constants, infinities, nan, x, y; operations = arithmetic, ~46 function constructors, two-argument functions, expand, diff, "
             "as_numer_denom, as_real_imag, rewrite_as_*, simplify, refine, evalf, parse(str(.)), loads(dumps(.)), series, subs with 12 maps. "
             "Violation = a canonical-form assertion fires, or the independent validator (is_canonical of Add/Mul/Pow/Rational/Complex on "
             "every node + 'no Add with coefficient 1 as a term of an Add', 'no integer power of a Mul inside a Mul') rejects the returned tree. distinct_nontrivial = "
             "transitions that returned a validated tree";
    R.assumptions = {"library exceptions (NotImplementedError, DomainError, ...) are refusals, not violations",
                     "operation sequences longer than 2 (3 for arithmetic in thorough) are not covered"};
    return R.finish();
}
