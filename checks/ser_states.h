// ser_states.h -- state generator shared by C19 (round trip) and C20 (untrusted bytes).  Author a6.
// Leaves + one constructor per save_basic overload of /repo/symengine/serialize-cereal.h, all applied
// through the public constructor functions of the library (never make_rcp of non-canonical objects).
#ifndef VERIF_SER_STATES_H
#define VERIF_SER_STATES_H
#include "common.h"
#include "key.h"
#include "explore.h"
#include <symengine/serialize-cereal.h>

namespace serst
{
using namespace verif;

enum Kind { KNUM = 1, KEXPR = 2, KBOOL = 4, KSET = 8, KOTHER = 16 };
enum { NE = KNUM | KEXPR, ANY = 31 };

inline int kind_of(const Basic &b)
{
    if (is_a_Number(b))
        return KNUM;
    if (is_a_Set(b))
        return KSET;
    if (is_a_Boolean(b))
        return KBOOL;
    TypeID t = b.get_type_code();
    if ((t >= SYMENGINE_UINTPOLY && t <= SYMENGINE_UNIVARIATESERIES) || t == SYMENGINE_TUPLE
        || (t >= SYMENGINE_IDENTITYMATRIX && t <= SYMENGINE_TRANSPOSE))
        return KOTHER;
    return KEXPR;
}

inline double mkd(uint64_t bits)
{
    double d;
    memcpy(&d, &bits, 8);
    return d;
}

inline std::string dclass(double d)
{
    uint64_t u;
    memcpy(&u, &d, 8);
    if (std::isnan(d))
        return u == 0x7ff8000000000000ULL ? "nan" : "nan*"; // nan* = sign bit / payload / signalling
    if (std::isinf(d))
        return d > 0 ? "inf" : "-inf";
    if (d == 0)
        return std::signbit(d) ? "-0.0" : "0.0";
    if (std::fpclassify(d) == FP_SUBNORMAL)
        return "denormal";
    return "finite";
}

// class of a node for signatures: type name + leaf detail for floats
inline std::string node_class(const Basic &e)
{
    std::string t = type_code_name(e.get_type_code());
    if (is_a<RealDouble>(e))
        return t + "[" + dclass(down_cast<const RealDouble &>(e).i) + "]";
    if (is_a<ComplexDouble>(e)) {
        std::complex<double> z = down_cast<const ComplexDouble &>(e).i;
        if (!std::isfinite(z.real()) || !std::isfinite(z.imag()))
            return t + "[non-finite part]";
        if (z.real() == 0 && std::signbit(z.real()))
            return t + "[re=-0.0]";
        if (z.imag() == 0 && std::signbit(z.imag()))
            return t + "[im=-0.0]";
        return t + "[finite]";
    }
    return t;
}

// numbers on which eagerly evaluating number-theoretic / gamma-like functions may take unbounded time or memory
inline bool is_wild_number(const Basic &b)
{
    if (is_a<Integer>(b))
        return mp_abs(down_cast<const Integer &>(b).as_integer_class()) > 100;
    if (is_a<Rational>(b)) {
        const rational_class &q = down_cast<const Rational &>(b).as_rational_class();
        return mp_abs(get_num(q)) > 100 || mp_abs(get_den(q)) > 100;
    }
    if (is_a<Complex>(b)) {
        const Complex &c = down_cast<const Complex &>(b);
        return mp_abs(get_num(c.real_)) > 100 || mp_abs(get_den(c.real_)) > 100 || mp_abs(get_num(c.imaginary_)) > 100
               || mp_abs(get_den(c.imaginary_)) > 100;
    }
    if (is_a<RealDouble>(b)) {
        double d = down_cast<const RealDouble &>(b).i;
        return !std::isfinite(d) || std::fabs(d) > 100;
    }
    if (is_a<ComplexDouble>(b)) {
        std::complex<double> z = down_cast<const ComplexDouble &>(b).i;
        return !std::isfinite(z.real()) || !std::isfinite(z.imag()) || std::abs(z) > 100;
    }
    if (is_a<Infty>(b) || is_a<NaN>(b))
        return true;
    return false;
}

typedef RCP<const Basic> B;
struct Leaf {
    std::string name;
    B e;
};

struct Ctor {
    std::string name;
    int arity;
    int k0, k1;
    bool eager; // evaluates numbers eagerly: wild numeric operands are not admissible
    std::function<B(const B &, const B &)> f;
};

inline RCP<const Boolean> asb(const B &a)
{
    return rcp_static_cast<const Boolean>(a);
}
inline RCP<const Set> ass(const B &a)
{
    return rcp_static_cast<const Set>(a);
}
inline RCP<const Number> asn(const B &a)
{
    return rcp_static_cast<const Number>(a);
}

inline std::vector<Leaf> make_leaves(bool tame)
{
    std::vector<Leaf> L;
    auto add_ = [&](const std::string &n, const B &e) { L.push_back({n, e}); };
    B x = symbol("x"), y = symbol("y");
    integer_class big = (integer_class(1) << 64) + 1;
    integer_class big2;
    mp_pow_ui(big2, integer_class(10), 30);
    // --- symbols / constants first (simplest)
    add_("x", x);
    add_("y", y);
    add_("1", integer(1));
    add_("0", integer(0));
    add_("-1", integer(-1));
    add_("2", integer(2));
    add_("-7", integer(-7));
    add_("1/2", Rational::from_two_ints(1, 2));
    add_("-3/2", Rational::from_two_ints(-3, 2));
    add_("I", I);
    add_("1+I", Complex::from_two_nums(*integer(1), *integer(1)));
    add_("1/2-3/4*I", Complex::from_two_nums(*Rational::from_two_ints(1, 2), *Rational::from_two_ints(-3, 4)));
    add_("1.5", real_double(1.5));
    add_("-2.25", real_double(-2.25));
    add_("0.1", real_double(0.1));
    add_("0.0", real_double(0.0));
    add_("1.5+2.5j", complex_double(1.5, 2.5));
    add_("pi", pi);
    add_("E", E);
    add_("oo", Inf);
    add_("-oo", NegInf);
    add_("zoo", ComplexInf);
    add_("nan", Nan);
    add_("True", boolTrue);
    add_("False", boolFalse);
    add_("EmptySet", emptyset());
    add_("UniversalSet", universalset());
    add_("Reals", reals());
    add_("Rationals", rationals());
    add_("Integers", integers());
    add_("dummy()", dummy());
    add_("dummy('x')#a", dummy("x"));
    if (!tame) {
        add_("dummy('x')#b", dummy("x"));
        add_("dummy('k',SIZE_MAX)", dummy("k", (size_t)-1));
        add_("symbol('')", symbol(""));
        add_("symbol('a b')", symbol("a b"));
        add_("symbol(utf8 alpha)", symbol("\xce\xb1"));
        add_("symbol('n\\0m\\n')", symbol(std::string("n\0m\n", 4)));
        add_("symbol(z*300)", symbol(std::string(300, 'z')));
        add_("EulerGamma", EulerGamma);
        add_("Catalan", Catalan);
        add_("GoldenRatio", GoldenRatio);
        add_("constant('myconst')", constant("myconst"));
        add_("2^64+1", integer(big));
        add_("-10^30", integer(-big2));
        add_("12345678901234567890123", integer(integer_class("12345678901234567890123")));
        add_("(2^64+1)/3", Rational::from_mpq(rational_class(big, integer_class(3))));
        add_("-1/10^30", Rational::from_mpq(rational_class(integer_class(-1), big2)));
        add_("-I", Complex::from_two_nums(*integer(0), *integer(-1)));
        add_("(2^64+1)+I/10^30",
             Complex::from_two_nums(*integer(big), *Rational::from_mpq(rational_class(integer_class(1), big2))));
        // doubles: every special class, compared bit for bit
        add_("-0.0", real_double(-0.0));
        add_("denormal_min", real_double(mkd(1)));
        add_("-denormal_min", real_double(mkd(0x8000000000000001ULL)));
        add_("denormal_max", real_double(mkd(0x000fffffffffffffULL)));
        add_("DBL_MIN", real_double(mkd(0x0010000000000000ULL)));
        add_("DBL_MAX", real_double(mkd(0x7fefffffffffffffULL)));
        add_("-DBL_MAX", real_double(mkd(0xffefffffffffffffULL)));
        add_("inf(double)", real_double(mkd(0x7ff0000000000000ULL)));
        add_("-inf(double)", real_double(mkd(0xfff0000000000000ULL)));
        add_("nan(double)", real_double(mkd(0x7ff8000000000000ULL)));
        add_("-nan(double)", real_double(mkd(0xfff8000000000000ULL)));
        add_("nan(payload 0x123)", real_double(mkd(0x7ff8000000000123ULL)));
        add_("snan(double)", real_double(mkd(0x7ff0000000000001ULL)));
        add_("1+ulp", real_double(mkd(0x3ff0000000000001ULL)));
        add_("0.0+1.0j", complex_double(0.0, 1.0));
        add_("-0.0+1.0j", complex_double(-0.0, 1.0));
        add_("1.0-0.0j", complex_double(1.0, -0.0));
        add_("0.0+0.0j", complex_double(0.0, 0.0));
        add_("nan+1.0j", complex_double(mkd(0x7ff8000000000000ULL), 1.0));
        add_("1.0+nanj", complex_double(1.0, mkd(0x7ff8000000000000ULL)));
        add_("inf+1.0j", complex_double(mkd(0x7ff0000000000000ULL), 1.0));
        add_("1.0+infj", complex_double(1.0, mkd(0x7ff0000000000000ULL)));
        add_("1.0-infj", complex_double(1.0, mkd(0xfff0000000000000ULL)));
        add_("denormal+denormalj", complex_double(mkd(1), mkd(0x8000000000000001ULL)));
        add_("DBL_MAX+DBL_MAXj", complex_double(mkd(0x7fefffffffffffffULL), mkd(0x7fefffffffffffffULL)));
        add_("0.1+0.2j", complex_double(0.1, 0.2));
        // classes without (working) serialisation support: dumps must refuse cleanly
        add_("Complexes", complexes());
        add_("Naturals", naturals());
        add_("Naturals0", naturals0());
        add_("UIntPoly", UIntPoly::from_dict(x, {{0, integer_class(1)}, {2, integer_class(3)}}));
        add_("URatPoly", URatPoly::from_dict(x, {{0, rational_class(1, 2)}, {1, rational_class(2, 3)}}));
        add_("UExprPoly", UExprPoly::from_dict(x, {{0, Expression(y)}, {1, Expression(2)}}));
        add_("MIntPoly", MIntPoly::from_dict({x, y}, {{{1, 0}, integer_class(2)}, {{0, 1}, integer_class(3)}}));
        add_("MExprPoly", MExprPoly::from_dict({x, y}, {{{1, 0}, Expression(symbol("a"))}}));
        add_("GaloisField", GaloisField::from_vec(x, {integer_class(1), integer_class(2)}, integer_class(5)));
        add_("UnivariateSeries", UnivariateSeries::series(sin(x), "x", 4));
        add_("Tuple", tuple({x, y}));
        add_("IdentityMatrix", identity_matrix(integer(2)));
        add_("ZeroMatrix", zero_matrix(integer(2), integer(3)));
        add_("MatrixSymbol", matrix_symbol("A"));
        add_("DiagonalMatrix", diagonal_matrix({x, y}));
        add_("ImmutableDenseMatrix", immutable_dense_matrix(1, 2, {x, y}));
        add_("MatrixAdd", matrix_add({matrix_symbol("A"), matrix_symbol("B")}));
        add_("Trace", trace(matrix_symbol("A")));
    }
    return L;
}

inline std::vector<Ctor> make_ctors()
{
    std::vector<Ctor> C;
    B x = symbol("x"), y = symbol("y");
    auto U = [&](const std::string &n, B (*fn)(const B &), bool eager = false) {
        C.push_back({n, 1, NE, 0, eager, [fn](const B &a, const B &) { return fn(a); }});
    };
    auto Bn = [&](const std::string &n, int k0, int k1, bool eager, std::function<B(const B &, const B &)> f) {
        C.push_back({n, 2, k0, k1, eager, f});
    };
    auto Un = [&](const std::string &n, int k0, bool eager, std::function<B(const B &)> f) {
        C.push_back({n, 1, k0, 0, eager, [f](const B &a, const B &) { return f(a); }});
    };
    // ---- OneArgFunction overload (one transition per class)
    U("log", log);
    U("conjugate", conjugate);
    U("sign", sign, true);
    U("floor", floor, true);
    U("ceiling", ceiling, true);
    U("truncate", truncate, true);
    U("sin", sin);
    U("cos", cos);
    U("tan", tan);
    U("cot", cot);
    U("csc", csc);
    U("sec", sec);
    U("asin", asin);
    U("acos", acos);
    U("asec", asec);
    U("acsc", acsc);
    U("atan", atan);
    U("acot", acot);
    U("sinh", sinh);
    U("csch", csch);
    U("cosh", cosh);
    U("sech", sech);
    U("tanh", tanh);
    U("coth", coth);
    U("asinh", asinh);
    U("acsch", acsch);
    U("acosh", acosh);
    U("atanh", atanh);
    U("acoth", acoth);
    U("asech", asech);
    U("lambertw", lambertw, true);
    U("dirichlet_eta", dirichlet_eta, true);
    U("erf", erf);
    U("erfc", erfc);
    U("gamma", gamma, true);
    U("loggamma", loggamma, true);
    U("abs", abs);
    U("primepi", primepi, true);
    U("primorial", primorial, true);
    U("unevaluated_expr", unevaluated_expr);
    // ---- FunctionSymbol / Derivative / Subs
    Un("f", ANY, false, [](const B &a) { return function_symbol("f", a); });
    Un("d/dx f", NE, false, [x](const B &a) { return function_symbol("f", a)->diff(rcp_static_cast<const Symbol>(x)); });
    Un("d2/dx2 f(.,x)", NE, false, [x](const B &a) {
        RCP<const Symbol> xs = rcp_static_cast<const Symbol>(x);
        return function_symbol("h", {a, x})->diff(xs)->diff(xs);
    });
    // ---- sets / booleans (unary)
    Un("finiteset1", NE, false, [](const B &a) { return finiteset({a}); });
    Un("not", KBOOL, false, [](const B &a) { return logical_not(asb(a)); });
    Un("conditionset(x,.)", KBOOL, false, [x](const B &a) { return conditionset(x, asb(a)); });
    // ---- Add / Mul / Pow
    Bn("add", NE, NE, false, [](const B &a, const B &b) { return add(a, b); });
    Bn("mul", NE, NE, false, [](const B &a, const B &b) { return mul(a, b); });
    Bn("pow", NE, NE, false, [](const B &a, const B &b) { return pow(a, b); });
    // ---- TwoArgFunction overload
    Bn("atan2", NE, NE, true, [](const B &a, const B &b) { return atan2(a, b); });
    Bn("zeta", NE, NE, true, [](const B &a, const B &b) { return zeta(a, b); });
    Bn("kronecker_delta", NE, NE, false, [](const B &a, const B &b) { return kronecker_delta(a, b); });
    Bn("polygamma", NE, NE, true, [](const B &a, const B &b) { return polygamma(a, b); });
    Bn("lowergamma", NE, NE, true, [](const B &a, const B &b) { return lowergamma(a, b); });
    Bn("uppergamma", NE, NE, true, [](const B &a, const B &b) { return uppergamma(a, b); });
    Bn("beta", NE, NE, true, [](const B &a, const B &b) { return beta(a, b); });
    // ---- MultiArgFunction overload
    Bn("levi_civita", NE, NE, true, [](const B &a, const B &b) { return levi_civita({a, b}); });
    Bn("max", NE, NE, false, [](const B &a, const B &b) { return max({a, b}); });
    Bn("min", NE, NE, false, [](const B &a, const B &b) { return min({a, b}); });
    Bn("g", ANY, ANY, false, [](const B &a, const B &b) { return function_symbol("g", {a, b}); });
    // ---- Relational overload
    Bn("Eq", NE, NE, false, [](const B &a, const B &b) { return Eq(a, b); });
    Bn("Ne", NE, NE, false, [](const B &a, const B &b) { return Ne(a, b); });
    Bn("Le", NE, NE, false, [](const B &a, const B &b) { return Le(a, b); });
    Bn("Lt", NE, NE, false, [](const B &a, const B &b) { return Lt(a, b); });
    // ---- boolean containers, Piecewise, Contains
    Bn("and", KBOOL, KBOOL, false, [](const B &a, const B &b) { return logical_and({asb(a), asb(b)}); });
    Bn("or", KBOOL, KBOOL, false, [](const B &a, const B &b) { return logical_or({asb(a), asb(b)}); });
    Bn("xor", KBOOL, KBOOL, false, [](const B &a, const B &b) { return logical_xor({asb(a), asb(b)}); });
    Bn("piecewise((a,c),(y,True))", NE, KBOOL, false,
       [y](const B &a, const B &c) { return piecewise({{a, asb(c)}, {y, boolTrue}}); });
    Bn("contains", NE, KSET, false, [](const B &a, const B &s) { return contains(a, ass(s)); });
    // ---- sets
    Bn("finiteset2", NE, NE, false, [](const B &a, const B &b) { return finiteset({a, b}); });
    Bn("interval[]", KNUM, KNUM, false, [](const B &a, const B &b) { return interval(asn(a), asn(b), false, false); });
    Bn("interval(]", KNUM, KNUM, false, [](const B &a, const B &b) { return interval(asn(a), asn(b), true, false); });
    Bn("interval[)", KNUM, KNUM, false, [](const B &a, const B &b) { return interval(asn(a), asn(b), false, true); });
    Bn("interval()", KNUM, KNUM, false, [](const B &a, const B &b) { return interval(asn(a), asn(b), true, true); });
    Bn("union", KSET, KSET, false, [](const B &a, const B &b) { return set_union({ass(a), ass(b)}); });
    Bn("complement", KSET, KSET, false, [](const B &a, const B &b) { return set_complement(ass(a), ass(b)); });
    Bn("intersection", KSET, KSET, false, [](const B &a, const B &b) { return set_intersection({ass(a), ass(b)}); });
    Bn("imageset(x,.,S)", NE, KSET, false, [x](const B &a, const B &s) { return imageset(x, a, ass(s)); });
    return C;
}

// is (ctor, a, b) an admissible case?
inline bool admissible(const Ctor &c, const Basic &a, const Basic &b)
{
    if (!(kind_of(a) & c.k0))
        return false;
    if (c.arity == 2 && !(kind_of(b) & c.k1))
        return false;
    if (c.eager && (is_wild_number(a) || (c.arity == 2 && is_wild_number(b))))
        return false;
    // pure numeric evaluation by gamma-/zeta-like functions is not a serialisation state (and may hang or abort:
    // zeta(-1, 0), beta(1/2, -3/2)); numbers still reach these nodes next to a symbolic operand
    if (c.eager && is_a_Number(a) && (c.arity == 1 || is_a_Number(b)))
        return false;
    // --- operand classes on which the *constructor itself* (not the serializer) is known to crash or explode in
    // this tree; they are by-catch of this check (reported to the lead), excluded so that every layer is crash-free
    if (c.name == "pow" && (is_a<Integer>(b) || is_a<Rational>(b) || is_a<Complex>(b)) && is_wild_number(b))
        return false; // pow(., huge exact exponent): allocation bomb (pow(add(x,x), (2^64+1)/3) aborts in GMP)
    if (c.name == "union" || c.name == "intersection" || c.name == "complement") {
        // set_union / set_intersection / set_complement recurse without bound (SIGSEGV, cf. C27) when an operand is a
        // compound set (Union, Complement, ImageSet, ConditionSet, Intersection) and for Rationals x Interval.  The set
        // operations are therefore applied to atomic and simple sets only; compound sets still occur as children of
        // Contains, ImageSet, ConditionSet, Piecewise conditions, FunctionSymbol arguments, ...
        auto simple = [](const Basic &s) {
            return is_a<EmptySet>(s) || is_a<UniversalSet>(s) || is_a<FiniteSet>(s) || is_a<Interval>(s) || is_a<Complexes>(s)
                   || is_a<Reals>(s) || is_a<Rationals>(s) || is_a<Integers>(s) || is_a<Naturals>(s) || is_a<Naturals0>(s);
        };
        if (!simple(a) || !simple(b))
            return false;
        if ((is_a<Rationals>(a) && is_a<Interval>(b)) || (is_a<Interval>(a) && is_a<Rationals>(b)))
            return false;
    }
    if (c.name == "d2/dx2 f(.,x)" && !a.get_args().empty())
        return false; // second derivative of h(compound, x): SIGSEGV in diff for many argument classes (acot(I), beta(x,I), Piecewise, Max, ...)
    if (c.name.rfind("d", 0) == 0 && c.name.find("/dx") != std::string::npos) {
        // Derivative of f(max(..)) / f(unevaluated_expr(..)): SIGSEGV in diff
        std::function<bool(const Basic &)> bad = [&](const Basic &e) {
            if (is_a<Max>(e) || is_a<Min>(e) || is_a<UnevaluatedExpr>(e))
                return true;
            for (auto &ch : e.get_args())
                if (bad(*ch))
                    return true;
            return false;
        };
        if (kind_of(a) == KEXPR && bad(a))
            return false;
    }
    return true;
}

// ---------------------------------------------------------------------------------------------
// stored children of a node, as the object graph holds them (Add/Mul: coefficient + dictionary entries;
// everything else: get_args(), which returns the stored pointers for all serialisable classes)
inline std::vector<B> children(const B &e)
{
    std::vector<B> v;
    if (is_a<Add>(*e)) {
        const Add &a = down_cast<const Add &>(*e);
        v.push_back(a.get_coef());
        for (auto &p : a.get_dict()) {
            v.push_back(p.first);
            v.push_back(p.second);
        }
    } else if (is_a<Mul>(*e)) {
        const Mul &a = down_cast<const Mul &>(*e);
        v.push_back(a.get_coef());
        for (auto &p : a.get_dict()) {
            v.push_back(p.first);
            v.push_back(p.second);
        }
    } else if (kind_of(*e) != KOTHER) {
        for (auto &c : e->get_args())
            v.push_back(c);
    }
    return v;
}

// sharing profile: structural key -> number of distinct objects with that key reachable from e
struct Sharing {
    std::map<std::string, int> per_key;
    int nodes = 0, compound = 0;
};
inline void walk_nodes(const B &e, std::map<const Basic *, B> &seen)
{
    if (seen.count(e.get()))
        return;
    seen[e.get()] = e;
    for (auto &c : children(e))
        walk_nodes(c, seen);
}
inline Sharing sharing(const B &e)
{
    std::map<const Basic *, B> seen;
    walk_nodes(e, seen);
    Sharing s;
    for (auto &kv : seen) {
        s.per_key[key(*kv.second)]++;
        s.nodes++;
        if (!children(kv.second).empty())
            s.compound++;
    }
    return s;
}

// ---------------------------------------------------------------------------------------------
// Recording stream: the byte offsets of every primitive write of the cereal archive (= field boundaries)
struct RecBuf : public std::streambuf {
    std::string data;
    std::vector<std::pair<size_t, size_t>> fields; // (offset, size)
    std::streamsize xsputn(const char *s, std::streamsize n) override
    {
        fields.push_back({data.size(), (size_t)n});
        data.append(s, n);
        return n;
    }
    int overflow(int c) override
    {
        if (c != EOF) {
            fields.push_back({data.size(), 1});
            data.push_back((char)c);
        }
        return c;
    }
};

struct Dump {
    std::string bytes;
    std::vector<std::pair<size_t, size_t>> fields;
    std::vector<std::string> kind; // per byte: field kind
};

// classify the recorded fields.  Grammar-light: node header = 8-byte address + 1-byte first_seen (+ 1-byte type code);
// 8-byte fields that are not addresses are lengths/counts/indices unless they follow a RealDouble type code;
// other 1-byte fields are bools; variable-size fields are string data.
inline void classify(Dump &d, bool matrix)
{
    d.kind.assign(d.bytes.size(), "?");
    auto setk = [&](size_t fi, const std::string &k) {
        for (size_t j = 0; j < d.fields[fi].second; j++)
            d.kind[d.fields[fi].first + j] = k + (d.fields[fi].second > 1 && k != "string-data" ? "[" + std::to_string(j) + "]" : "");
    };
    size_t nf = d.fields.size();
    auto val = [&](size_t fi) {
        uint64_t v = 0;
        memcpy(&v, d.bytes.data() + d.fields[fi].first, std::min<size_t>(8, d.fields[fi].second));
        return v;
    };
    size_t fi = 0;
    // header: endianness flag, major, minor
    if (nf > 0 && d.fields[0].second == 1)
        setk(fi++, "endian-flag");
    if (fi < nf && d.fields[fi].second == 2)
        setk(fi++, "version-major");
    if (fi < nf && d.fields[fi].second == 2)
        setk(fi++, "version-minor");
    if (matrix) {
        if (fi < nf && d.fields[fi].second == 4)
            setk(fi++, "matrix-rows");
        if (fi < nf && d.fields[fi].second == 4)
            setk(fi++, "matrix-cols");
    }
    int last_type = -1;
    bool expect_double = false;
    size_t pending_string = 0;
    for (; fi < nf; fi++) {
        size_t sz = d.fields[fi].second;
        if (pending_string && sz == pending_string) {
            setk(fi, "string-data");
            pending_string = 0;
            continue;
        }
        pending_string = 0;
        if (sz == 8) {
            bool is_addr = fi + 1 < nf && d.fields[fi + 1].second == 1 && val(fi) >= (1ULL << 24) && val(fi + 1) <= 1
                           && !expect_double;
            if (expect_double) {
                setk(fi, "double");
                expect_double = false;
            } else if (is_addr) {
                setk(fi, "node-id");
                setk(fi + 1, "first-seen");
                if (val(fi + 1) == 1 && fi + 2 < nf && d.fields[fi + 2].second == 1) {
                    setk(fi + 2, "type-code");
                    last_type = (int)val(fi + 2);
                    expect_double = (last_type == SYMENGINE_REAL_DOUBLE);
                    fi += 2;
                } else
                    fi += 1;
            } else {
                setk(fi, "length");
                // a string of that many bytes may follow
                if (fi + 1 < nf && d.fields[fi + 1].second == val(fi) && val(fi) > 0)
                    pending_string = val(fi);
            }
        } else if (sz == 1)
            setk(fi, "bool");
        else if (sz == 4)
            setk(fi, "uint32");
        else
            setk(fi, "string-data");
    }
}

inline Dump recorded_dump(const B &e)
{
    RecBuf rb;
    std::ostream os(&rb);
    unsigned short major = SYMENGINE_MAJOR_VERSION, minor = SYMENGINE_MINOR_VERSION;
    RCPBasicAwareOutputArchive<cereal::PortableBinaryOutputArchive>{os}(major, minor, e);
    Dump d;
    d.bytes = rb.data;
    d.fields = rb.fields;
    classify(d, false);
    return d;
}
inline Dump recorded_dump(const DenseMatrix &m)
{
    RecBuf rb;
    std::ostream os(&rb);
    unsigned short major = SYMENGINE_MAJOR_VERSION, minor = SYMENGINE_MINOR_VERSION;
    unsigned row = m.nrows(), col = m.ncols();
    vec_basic v = m.as_vec_basic();
    RCPBasicAwareOutputArchive<cereal::PortableBinaryOutputArchive>{os}(major, minor, row, col, v);
    Dump d;
    d.bytes = rb.data;
    d.fields = rb.fields;
    classify(d, true);
    return d;
}

inline std::string hexbytes(const std::string &s, size_t max = 400)
{
    std::string o;
    char b[4];
    for (size_t i = 0; i < s.size() && i < max; i++) {
        snprintf(b, sizeof b, "%02x", (unsigned char)s[i]);
        o += b;
    }
    if (s.size() > max)
        o += "...";
    return o;
}

} // namespace serst
#endif
