// C04  Canonical form is unique: results ignore operand order and grouping -- E5 permutations x bracketings
// (DESIGN 5 C04).  For every multiset of <= k operands of a fixed exact alphabet, the operation is built in every
// distinct operand order x every binary bracketing (pairwise constructor) and with the n-ary constructor in every
// order; all results must be the same canonical object: identical independent structural key (key.h), eq() true,
// identical str().  Same for max/min and logical_and/logical_or.
#include "common.h"
#include "key.h"
using namespace verif;

enum OpKind { OP_ADD, OP_MUL, OP_MAX, OP_MIN, OP_AND, OP_OR };
static const char *OPN[] = {"add", "mul", "max", "min", "and", "or"};

struct Leaf {
    std::string name;
    RCP<const Basic> e;
};

static RCP<const Basic> op2(int op, const RCP<const Basic> &a, const RCP<const Basic> &b)
{
    switch (op) {
        case OP_ADD:
            return add(a, b);
        case OP_MUL:
            return mul(a, b);
        case OP_MAX:
            return max({a, b});
        case OP_MIN:
            return min({a, b});
        case OP_AND:
            return logical_and({rcp_static_cast<const Boolean>(a), rcp_static_cast<const Boolean>(b)});
        default:
            return logical_or({rcp_static_cast<const Boolean>(a), rcp_static_cast<const Boolean>(b)});
    }
}
static RCP<const Basic> opn(int op, const vec_basic &v)
{
    switch (op) {
        case OP_ADD:
            return add(v);
        case OP_MUL:
            return mul(v);
        case OP_MAX:
            return max(v);
        case OP_MIN:
            return min(v);
        default: {
            set_boolean s;
            for (auto &a : v)
                s.insert(rcp_static_cast<const Boolean>(a));
            return op == OP_AND ? logical_and(s) : logical_or(s);
        }
    }
}

// operand class for signatures: call-site argument kinds, not values
static std::string cls(const Basic &e, int lvl = 0)
{
    if (is_a<Integer>(e)) {
        const Integer &i = down_cast<const Integer &>(e);
        return i.is_zero() ? "0" : i.is_one() ? "1" : i.is_minus_one() ? "-1" : i.is_negative() ? "Int<0" : "Int>0";
    }
    if (is_a<Rational>(e))
        return down_cast<const Rational &>(e).is_negative() ? "Rat<0" : "Rat>0";
    if (is_a<Pow>(e) && lvl < 1) {
        const Pow &p = down_cast<const Pow &>(e);
        return "Pow(" + cls(*p.get_base(), lvl + 1) + "," + cls(*p.get_exp(), lvl + 1) + ")";
    }
    if (is_a<Mul>(e) && lvl < 1) {
        const Mul &m = down_cast<const Mul &>(e);
        std::vector<std::string> ks;
        for (auto &p : m.get_dict())
            ks.push_back(cls(*p.first, 1) + "^" + cls(*p.second, 1));
        std::sort(ks.begin(), ks.end());
        std::string o = "Mul[" + cls(*m.get_coef(), 1);
        for (auto &k : ks)
            o += ";" + k;
        return o + "]";
    }
    if (is_a<Contains>(e) && lvl < 1) {
        const Contains &c = down_cast<const Contains &>(e);
        return "Contains(" + cls(*c.get_expr(), 1) + "," + cls(*c.get_set(), 1) + ")";
    }
    return type_code_name(e.get_type_code());
}

struct Res {
    RCP<const Basic> r; // null when the construction threw
    std::string thrown; // exception text
    std::string recipe; // only filled when requested
};

struct Gen {
    int op;
    const std::vector<Leaf> *L;
    bool recipes;
    uint64_t calls = 0;
    // every binary bracketing of seq[lo,hi)
    void build(const std::vector<int> &seq, int lo, int hi, std::vector<Res> &out)
    {
        if (hi - lo == 1) {
            Res r;
            r.r = (*L)[seq[lo]].e;
            if (recipes)
                r.recipe = (*L)[seq[lo]].name;
            out.push_back(r);
            return;
        }
        for (int s = lo + 1; s < hi; s++) {
            std::vector<Res> l, r;
            build(seq, lo, s, l);
            build(seq, s, hi, r);
            for (auto &a : l)
                for (auto &b : r) {
                    Res x;
                    if (recipes)
                        x.recipe = std::string(OPN[op]) + "(" + a.recipe + ", " + b.recipe + ")";
                    if (a.r.is_null() || b.r.is_null()) {
                        x.thrown = a.r.is_null() ? a.thrown : b.thrown;
                    } else {
                        calls++;
                        try {
                            x.r = op2(op, a.r, b.r);
                        } catch (SymEngineException &ex) {
                            x.thrown = std::string("SymEngineException:") + ex.what();
                        }
                    }
                    out.push_back(x);
                }
        }
    }
    void nary(const std::vector<int> &seq, std::vector<Res> &out)
    {
        Res x;
        vec_basic v;
        std::string rc = std::string(OPN[op]) + "({";
        for (size_t i = 0; i < seq.size(); i++) {
            v.push_back((*L)[seq[i]].e);
            if (recipes)
                rc += (i ? ", " : "") + (*L)[seq[i]].name;
        }
        if (recipes)
            x.recipe = rc + "})";
        calls++;
        try {
            x.r = opn(op, v);
        } catch (SymEngineException &ex) {
            x.thrown = std::string("SymEngineException:") + ex.what();
        }
        out.push_back(x);
    }
    // mixed form: n-ary constructor over the sequence in which the adjacent pair (j, j+1) was first combined pairwise
    void nary_grouped(const std::vector<int> &seq, size_t j, std::vector<Res> &out)
    {
        Res x;
        vec_basic v;
        std::string rc = std::string(OPN[op]) + "({";
        try {
            for (size_t i = 0; i < seq.size(); i++) {
                if (i == j) {
                    calls++;
                    v.push_back(op2(op, (*L)[seq[i]].e, (*L)[seq[i + 1]].e));
                    if (recipes)
                        rc += std::string(i ? ", " : "") + OPN[op] + "(" + (*L)[seq[i]].name + ", " + (*L)[seq[i + 1]].name + ")";
                    i++;
                } else {
                    v.push_back((*L)[seq[i]].e);
                    if (recipes)
                        rc += (i ? ", " : "") + (*L)[seq[i]].name;
                }
            }
            if (recipes)
                x.recipe = rc + "})";
            calls++;
            x.r = opn(op, v);
        } catch (SymEngineException &ex) {
            if (recipes)
                x.recipe = rc + " ...})";
            x.thrown = std::string("SymEngineException:") + ex.what();
        }
        out.push_back(x);
    }
    // all forms of a multiset (sorted index vector): n-ary in every distinct order, then every distinct order x bracketing
    void all(std::vector<int> ms, std::vector<Res> &out)
    {
        std::sort(ms.begin(), ms.end());
        std::vector<int> p = ms;
        do {
            nary(p, out);
            if (ms.size() >= 3)
                for (size_t j = 0; j + 1 < p.size(); j++)
                    nary_grouped(p, j, out);
        } while (std::next_permutation(p.begin(), p.end()));
        if (ms.size() >= 2) {
            p = ms;
            do {
                build(p, 0, (int)p.size(), out);
            } while (std::next_permutation(p.begin(), p.end()));
        }
    }
};

struct Family {
    std::string name;
    std::vector<int> ops;
    std::vector<Leaf> leaves;
    int kmax;
    std::vector<std::vector<int>> multisets; // simplest first: by size, then lexicographic
    long long base = 0;                      // first case index
    long long ncases() const
    {
        return (long long)multisets.size() * (long long)ops.size();
    }
};

static void gen_multisets(int n, int kmax, std::vector<std::vector<int>> &out)
{
    for (int k = 1; k <= kmax; k++) {
        std::vector<int> c(k, 0);
        while (true) {
            out.push_back(c);
            int i = k - 1;
            while (i >= 0 && c[i] == n - 1)
                i--;
            if (i < 0)
                break;
            c[i]++;
            for (int j = i + 1; j < k; j++)
                c[j] = c[i];
        }
    }
}

enum { K_FORMS, K_THROWN_FORMS, K_CASES_ALL_THROW, K_STR_CMP, K_EQ_CMP, K_COLLAPSED };

int main(int argc, char **argv)
{
    init(argc, argv, "C04");
    const bool thorough = opts().thorough();
    RCP<const Basic> x = symbol("x"), y = symbol("y");
    auto R = [](long a, long b) { return Rational::from_two_ints(a, b); };
    auto C = [](long a, long b, long c, long d) {
        return Complex::from_two_nums(*Rational::from_two_ints(a, b), *Rational::from_two_ints(c, d));
    };

    std::vector<Family> F(4);
    // ---- arithmetic: the 27-leaf exact alphabet of the design
    F[0].name = "arith";
    F[0].ops = {OP_ADD, OP_MUL};
    F[0].kmax = thorough ? 4 : 3;
    F[0].leaves = {{"0", integer(0)},
                   {"1", integer(1)},
                   {"-1", integer(-1)},
                   {"2", integer(2)},
                   {"-3", integer(-3)},
                   {"1/2", R(1, 2)},
                   {"-2/3", R(-2, 3)},
                   {"I", I},
                   {"1+I", C(1, 1, 1, 1)},
                   {"1/2-I", C(1, 2, -1, 1)},
                   {"x", x},
                   {"y", y},
                   {"pi", pi},
                   {"E", E},
                   {"sqrt(2)", pow(integer(2), R(1, 2))},
                   {"2^(1/3)", pow(integer(2), R(1, 3))},
                   {"2^(2/3)", pow(integer(2), R(2, 3))},
                   {"(-2)^(1/2)", pow(integer(-2), R(1, 2))},
                   {"x^(1/2)", pow(x, R(1, 2))},
                   {"x^(3/2)", pow(x, R(3, 2))},
                   {"x^y", pow(x, y)},
                   {"x^-1", pow(x, integer(-1))},
                   {"2*x", mul(integer(2), x)},
                   {"x*y", mul(x, y)},
                   {"x+1", add(x, integer(1))},
                   {"sin(x)", sin(x)},
                   {"f(x)", function_symbol("f", x)}};
    // ---- extended arithmetic alphabet (always <= 3 operands): the 27 leaves plus operands that reach the
    // Mul-base, negative-rational-exponent, radical-of-sum, complex-coefficient and E-base branches of
    // Mul::dict_add_term_new / Mul::power_num / Add::as_coef_term
    F[3].name = "arith-ext";
    F[3].ops = {OP_ADD, OP_MUL};
    F[3].kmax = 3;
    F[3].leaves = F[0].leaves;
    {
        std::vector<Leaf> ext = {{"(x*y)^(1/2)", pow(mul(x, y), R(1, 2))},
                                 {"(x*y)^(-1/2)", pow(mul(x, y), R(-1, 2))},
                                 {"x^(-1/2)", pow(x, R(-1, 2))},
                                 {"x^2", pow(x, integer(2))},
                                 {"x^(2*y)", pow(x, mul(integer(2), y))},
                                 {"x^(-y)", pow(x, neg(y))},
                                 {"y^x", pow(y, x)},
                                 {"(x+1)^(1/2)", pow(add(x, integer(1)), R(1, 2))},
                                 {"(x+1)^-1", pow(add(x, integer(1)), integer(-1))},
                                 {"2*(x+1)", mul(integer(2), add(x, integer(1)))},
                                 {"-x", neg(x)},
                                 {"-x-1", neg(add(x, integer(1)))},
                                 {"I*x", mul(I, x)},
                                 {"(1+I)*x", mul(C(1, 1, 1, 1), x)},
                                 {"2^(-1/2)", pow(integer(2), R(-1, 2))},
                                 {"3^(1/2)", pow(integer(3), R(1, 2))},
                                 {"6^(1/2)", pow(integer(6), R(1, 2))},
                                 {"(1/2)^(1/3)", pow(R(1, 2), R(1, 3))},
                                 {"(-1)^(1/3)", pow(integer(-1), R(1, 3))},
                                 {"(1+I)^(1/2)", pow(C(1, 1, 1, 1), R(1, 2))},
                                 {"2^x", pow(integer(2), x)},
                                 {"exp(x)", exp(x)},
                                 {"exp(-x)", exp(neg(x))},
                                 {"E^2", pow(E, integer(2))},
                                 {"pi^-1", pow(pi, integer(-1))},
                                 {"log(x)", log(x)},
                                 {"sqrt(2)*x", mul(pow(integer(2), R(1, 2)), x)}};
        for (auto &l : ext)
            F[3].leaves.push_back(l);
    }
    // ---- max/min: numbers, symbols, non-number constants, nested Max/Min
    F[1].name = "maxmin";
    F[1].ops = {OP_MAX, OP_MIN};
    F[1].kmax = thorough ? 4 : 3;
    F[1].leaves = {{"0", integer(0)},
                   {"1", integer(1)},
                   {"-1", integer(-1)},
                   {"2", integer(2)},
                   {"1/2", R(1, 2)},
                   {"-2/3", R(-2, 3)},
                   {"x", x},
                   {"y", y},
                   {"pi", pi},
                   {"sqrt(2)", pow(integer(2), R(1, 2))},
                   {"x+1", add(x, integer(1))},
                   {"max(x,y)", max({x, y})},
                   {"max(x,1)", max({x, integer(1)})},
                   {"max(y,2,x+1)", max({y, integer(2), add(x, integer(1))})},
                   {"min(x,y)", min({x, y})},
                   {"min(x,1)", min({x, integer(1)})},
                   {"min(y,1/2,pi)", min({y, R(1, 2), pi})}};
    // ---- and/or: atoms, their negations, a finite-set membership, nested And/Or
    RCP<const Boolean> p = Lt(x, y), q = Lt(x, integer(2)), e1 = Eq(y, integer(1));
    RCP<const Boolean> cset = finiteset({integer(1), integer(2), integer(3)})->contains(x);
    RCP<const Boolean> cint = interval(integer(0), integer(2))->contains(y);
    F[2].name = "logic";
    F[2].ops = {OP_AND, OP_OR};
    F[2].kmax = thorough ? 4 : 3;
    F[2].leaves = {{"True", boolTrue},
                   {"False", boolFalse},
                   {"x<y", p},
                   {"!(x<y)", logical_not(p)},
                   {"x<2", q},
                   {"!(x<2)", logical_not(q)},
                   {"y==1", e1},
                   {"y!=1", logical_not(e1)},
                   {"x in {1,2,3}", cset},
                   {"!(x in {1,2,3})", logical_not(cset)},
                   {"y in [0,2]", cint},
                   {"And(x<y, x<2)", logical_and({p, q})},
                   {"Or(x<y, x<2)", logical_or({p, q})},
                   {"And(!(x<y), y==1)", logical_and({logical_not(p), e1})},
                   {"Or(!(x<2), x in {1,2,3})", logical_or({logical_not(q), cset})}};
    long long total = 0;
    for (auto &f : F) {
        gen_multisets((int)f.leaves.size(), f.kmax, f.multisets);
        if (f.name == "arith-ext") { // multisets made only of the 27 base leaves are already in family "arith"
            std::vector<std::vector<int>> keep;
            for (auto &m : f.multisets)
                if (m.back() >= (int)F[0].leaves.size())
                    keep.push_back(m);
            f.multisets.swap(keep);
        }
        f.base = total;
        total += f.ncases();
    }
    // case index -> (family, multiset, op); within a family: multiset-major so that small multisets come first
    auto decode = [&](long long i, int &fi, int &mi, int &op) {
        for (fi = 0; fi < (int)F.size(); fi++)
            if (i < F[fi].base + F[fi].ncases())
                break;
        long long j = i - F[fi].base;
        op = F[fi].ops[j % F[fi].ops.size()];
        mi = (int)(j / F[fi].ops.size());
    };
    auto msname = [&](const Family &f, const std::vector<int> &ms) {
        std::string s = "{";
        for (size_t k = 0; k < ms.size(); k++)
            s += (k ? ", " : "") + f.leaves[ms[k]].name;
        return s + "}";
    };

    // Interleave the three families so that every family's small multisets are done first if a deadline cuts the
    // run: cases are ordered by multiset size, then family.  Build an explicit order table.
    std::vector<long long> order;
    order.reserve(total);
    for (int k = 1; k <= 4; k++)
        for (auto &f : F)
            for (size_t m = 0; m < f.multisets.size(); m++)
                if ((int)f.multisets[m].size() == k)
                    for (size_t o = 0; o < f.ops.size(); o++)
                        order.push_back(f.base + (long long)m * f.ops.size() + o);

    CaseSet cs;
    cs.name = "multiset";
    cs.n = total;
    cs.hang_s = 30;
    cs.counter_names = {"forms_constructed(order x bracketing, pairwise and n-ary)",
                        "forms_refused(SymEngineException)",
                        "cases_every_form_refused",
                        "str_comparisons",
                        "eq_comparisons",
                        "cases_where_result_is_not_the_plain_k-ary_node"};
    cs.desc = [&](long long i) {
        int fi, mi, op;
        decode(order[i], fi, mi, op);
        return std::string(OPN[op]) + " over multiset " + msname(F[fi], F[fi].multisets[mi]);
    };
    cs.crash_sig = [&](long long i, const std::string &oc) {
        int fi, mi, op;
        decode(order[i], fi, mi, op);
        std::vector<std::string> cl;
        for (int l : F[fi].multisets[mi])
            cl.push_back(cls(*F[fi].leaves[l].e));
        std::sort(cl.begin(), cl.end());
        std::string s = oc + ":" + OPN[op] + "(";
        for (size_t k = 0; k < cl.size(); k++)
            s += (k ? "," : "") + cl[k];
        return s + ")";
    };
    cs.body = [&](long long i, Ctx &c) {
        int fi, mi, op;
        decode(order[i], fi, mi, op);
        const Family &f = F[fi];
        const std::vector<int> &ms = f.multisets[mi];
        Gen g;
        g.op = op;
        g.L = &f.leaves;
        g.recipes = false;
        std::vector<Res> rs;
        g.all(ms, rs);
        c.eval(g.calls);
        c.count(K_FORMS, rs.size());
        // reference: the first form that did not throw
        int ref = -1;
        size_t nthrown = 0;
        for (size_t k = 0; k < rs.size(); k++) {
            if (rs[k].r.is_null())
                nthrown++;
            else if (ref < 0)
                ref = (int)k;
        }
        c.count(K_THROWN_FORMS, nthrown);
        auto sig = [&]() {
            std::vector<std::string> cl;
            for (int l : ms)
                cl.push_back(cls(*f.leaves[l].e));
            std::sort(cl.begin(), cl.end());
            std::string s = std::string(OPN[op]) + "(";
            for (size_t k = 0; k < cl.size(); k++)
                s += (k ? "," : "") + cl[k];
            return s + ")";
        };
        auto recipe_of = [&](size_t k) {
            Gen g2;
            g2.op = op;
            g2.L = &f.leaves;
            g2.recipes = true;
            std::vector<Res> r2;
            g2.all(ms, r2);
            return r2[k].recipe;
        };
        if (ref < 0) {
            c.count(K_CASES_ALL_THROW);
            c.outcome(std::string(OPN[op]) + ":all-forms-refused:" + rs[0].thrown);
            return;
        }
        std::string kref = key(*rs[ref].r), sref = sstr(rs[ref].r);
        std::string bad;
        for (size_t k = 0; k < rs.size() && bad.empty(); k++) {
            if ((int)k == ref)
                continue;
            if (rs[k].r.is_null()) {
                bad = "form " + recipe_of(k) + " throws (" + rs[k].thrown + ") but form " + recipe_of(ref) + " returns " + sref;
                break;
            }
            std::string kk = key(*rs[k].r);
            bool e1 = eq(*rs[ref].r, *rs[k].r), e2 = eq(*rs[k].r, *rs[ref].r);
            c.count(K_EQ_CMP, 2);
            if (kk != kref || !e1 || !e2) {
                bad = recipe_of(ref) + " = " + sref + " [" + kref + "]  but  " + recipe_of(k) + " = " + sstr(rs[k].r) + " [" + kk
                      + "]; eq=" + (e1 ? "true" : "false") + "/" + (e2 ? "true" : "false");
                break;
            }
            std::string sk = sstr(rs[k].r);
            c.count(K_STR_CMP);
            if (sk != sref) {
                bad = "equal structure but different str: " + recipe_of(ref) + " prints " + sref + " but " + recipe_of(k) + " prints " + sk;
                break;
            }
        }
        // non-trivial: some simplification/merging/flattening fired (result is not the plain node with |ms| arguments)
        const Basic &rr = *rs[ref].r;
        TypeID want = op == OP_ADD   ? SYMENGINE_ADD
                      : op == OP_MUL ? SYMENGINE_MUL
                      : op == OP_MAX ? SYMENGINE_MAX
                      : op == OP_MIN ? SYMENGINE_MIN
                      : op == OP_AND ? SYMENGINE_AND
                                     : SYMENGINE_OR;
        bool plain = rr.get_type_code() == want && rr.get_args().size() == ms.size();
        if (!plain) {
            c.nontrivial();
            c.count(K_COLLAPSED);
        }
        c.outcome(std::string(OPN[op]) + "/" + std::to_string(ms.size()) + "->" + type_code_name(rr.get_type_code()) + "/"
                  + std::to_string(rr.get_args().size()) + (nthrown ? "+refusals" : ""));
        if (!bad.empty())
            c.violation(sig(), std::string(OPN[op]) + " over " + msname(f, ms) + ": " + bad);
        if (i % 4001 == 0)
            c.sample("{\"op\":" + jstr(OPN[op]) + ",\"multiset\":" + jstr(msname(f, ms)) + ",\"forms\":" + std::to_string(rs.size())
                     + ",\"result\":" + jstr(sref) + ",\"key\":" + jstr(kref) + "}");
    };
    run_cases(cs);

    Run &Rn = run();
    uint64_t nms = 0;
    for (auto &f : F) {
        Rn.counters["multisets_" + f.name] = f.multisets.size();
        Rn.counters["leaves_" + f.name] = f.leaves.size();
        nms += f.multisets.size();
    }
    Rn.states = nms;
    Rn.transitions = Rn.evaluations;
    Rn.bound_completed = "every multiset of <= " + std::to_string(F[0].kmax) + " operands: arithmetic 27 leaves x {add,mul}, max/min "
                         + std::to_string(F[1].leaves.size()) + " leaves, and/or " + std::to_string(F[2].leaves.size())
                         + " leaves; every multiset of <= 3 operands of the extended arithmetic alphabet (" + std::to_string(F[3].leaves.size())
                         + " leaves); every distinct order x every binary bracketing + n-ary constructor in every distinct order (also with "
                           "one adjacent pair pre-combined)";
    Rn.rule = "E5: for each multiset and operator all distinct permutations x all binary bracketings are built with the pairwise "
              "constructor and all distinct permutations with the n-ary constructor (vec_basic / set_boolean); every form is compared with "
              "the first form: independent structural key (key.h, does not use eq/hash/compare/str) identical, eq() true in both "
              "directions, str() identical; a form that throws while another returns is a violation; if every form throws the case is a "
              "counted refusal. distinct_nontrivial = multiset/operator cases whose result is not the plain k-ary node (a collapse, merge, "
              "flattening or evaluation fired). evaluations = constructor calls.";
    Rn.assumptions = {"key.h structural key is injective on the explored trees", "operands outside the alphabets are not covered",
                      "logical_and/logical_or n-ary take a set_boolean, so operand order of the n-ary form is fixed by the library's set order"};
    return Rn.finish();
}
