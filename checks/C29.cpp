// C29  Number comparisons agree with numeric order -- E5 full pair table (DESIGN 5 C29)
#include "common.h"
#include "key.h"
using namespace verif;

struct Val {
    std::string name;
    RCP<const Basic> e;
    ExtReal m;
};
static std::vector<Val> V;
static void addv(const std::string &n, RCP<const Basic> e)
{
    Val v;
    v.name = n;
    v.e = e;
    if (!to_extreal(*e, v.m)) {
        fprintf(stderr, "alphabet value %s is not real\n", n.c_str());
        exit(2);
    }
    V.push_back(v);
}

static const char *RELN[6] = {"Lt", "Le", "Gt", "Ge", "Eq", "Ne"};
static RCP<const Boolean> rel(int r, const RCP<const Basic> &a, const RCP<const Basic> &b)
{
    switch (r) {
        case 0:
            return Lt(a, b);
        case 1:
            return Le(a, b);
        case 2:
            return Gt(a, b);
        case 3:
            return Ge(a, b);
        case 4:
            return Eq(a, b);
        default:
            return Ne(a, b);
    }
}
static bool model(int r, const ExtReal &a, const ExtReal &b)
{
    int c = cmp(a, b);
    switch (r) {
        case 0:
            return c < 0;
        case 1:
            return c <= 0;
        case 2:
            return c > 0;
        case 3:
            return c >= 0;
        case 4:
            return c == 0;
        default:
            return c != 0;
    }
}
// 1 true, 0 false, -1 unevaluated, -2 threw
static int tv(const std::function<RCP<const Basic>()> &f, std::string &what)
{
    try {
        RCP<const Basic> r = f();
        if (is_a<BooleanAtom>(*r))
            return down_cast<const BooleanAtom &>(*r).get_val() ? 1 : 0;
        what = sstr(r);
        return -1;
    } catch (std::exception &x) {
        what = x.what();
        return -2;
    }
}
// an exact operand that lies strictly within one ulp of the (different) float operand: the
// library compares after rounding the exact number to double (known finding class "sub-ulp")
static bool subulp(const Val &a, const Val &b)
{
    if (a.m.is_float == b.m.is_float || a.m.inf || b.m.inf || cmp(a.m, b.m) == 0)
        return false;
    const Val &f = a.m.is_float ? a : b, &q = a.m.is_float ? b : a;
    double d = down_cast<const RealDouble &>(*f.e).i;
    ExtReal lo, hi;
    lo.v = mpq_from_double(std::nextafter(d, -INFINITY));
    hi.v = mpq_from_double(std::nextafter(d, INFINITY));
    return cmp(lo, q.m) < 0 && cmp(q.m, hi) < 0;
}
static std::string kindof(const Val &v)
{
    std::string k = type_code_name(v.e->get_type_code());
    return k;
}

int main(int argc, char **argv)
{
    init(argc, argv, "C29");
    auto I = [](const char *s) { return integer(integer_class(s)); };
    auto Q = [](const char *n, const char *d) { return Rational::from_two_ints(*integer(integer_class(n)), *integer(integer_class(d))); };
    addv("Integer:-2", I("-2"));
    addv("Integer:-1", I("-1"));
    addv("Integer:0", I("0"));
    addv("Integer:1", I("1"));
    addv("Integer:2", I("2"));
    addv("Integer:2^53", I("9007199254740992"));
    addv("Integer:2^53+1", I("9007199254740993"));
    addv("Integer:10^20", I("100000000000000000000"));
    addv("Rational:-3/2", Q("-3", "2"));
    addv("Rational:-1/2", Q("-1", "2"));
    addv("Rational:1/10", Q("1", "10"));
    addv("Rational:1/3", Q("1", "3"));
    addv("Rational:1/2", Q("1", "2"));
    addv("Rational:3/2", Q("3", "2"));
    addv("Rational:(2^54+1)/2", Q("18014398509481985", "2"));
    addv("RealDouble:-2.0", real_double(-2.0));
    addv("RealDouble:-1.5", real_double(-1.5));
    addv("RealDouble:-1.0", real_double(-1.0));
    addv("RealDouble:-0.5", real_double(-0.5));
    addv("RealDouble:-0.0", real_double(-0.0));
    addv("RealDouble:0.0", real_double(0.0));
    addv("RealDouble:0.1", real_double(0.1));
    addv("RealDouble:1/3", real_double(1.0 / 3.0));
    addv("RealDouble:0.5", real_double(0.5));
    addv("RealDouble:1.0", real_double(1.0));
    addv("RealDouble:1.5", real_double(1.5));
    addv("RealDouble:2.0", real_double(2.0));
    addv("RealDouble:2^53", real_double(9007199254740992.0));
    addv("RealDouble:1e20", real_double(1e20));
    addv("RealDouble:1e308", real_double(1e308));
    addv("RealDouble:-1e308", real_double(-1e308));
    addv("RealDouble:5e-324", real_double(5e-324));
    addv("Infty:+oo", Inf);
    addv("Infty:-oo", NegInf);
    if (opts().thorough()) {
        addv("Integer:-10^20", I("-100000000000000000000"));
        addv("Rational:-1/3", Q("-1", "3"));
        addv("Rational:10^20+1/2", Q("200000000000000000001", "2"));
        addv("RealDouble:-1e20", real_double(-1e20));
    }
    const long long n = V.size();
    RCP<const Symbol> x = symbol("x");

    CaseSet cs;
    cs.name = "pair";
    cs.n = n * n;
    cs.counter_names = {"relation_evaluations", "identity_checks", "subs_checks", "eq_mixed_exactness_not_judged",
                        "same_value_different_kind_pairs"};
    cs.desc = [&](long long i) { return "(" + V[i / n].name + ", " + V[i % n].name + ")"; };
    cs.body = [&](long long i, Ctx &c) {
        const Val &a = V[i / n], &b = V[i % n];
        bool diffkind = kindof(a) != kindof(b);
        bool samevalue = cmp(a.m, b.m) == 0;
        if (diffkind || !samevalue)
            c.nontrivial();
        if (diffkind && samevalue)
            c.count(4);
        int got[6];
        std::string what;
        for (int r = 0; r < 6; r++) {
            got[r] = tv([&] { return rel(r, a.e, b.e); }, what);
            c.eval();
            c.count(0);
            bool judge = true;
            if (r >= 4 && a.m.is_float != b.m.is_float) {
                judge = false; // Eq(1, 1.0): numeric vs structural reading left open (DESIGN C29)
                c.count(3);
            }
            bool want = model(r, a.m, b.m);
            c.outcome(std::string(RELN[r]) + "=" + std::to_string(got[r]));
            if (got[r] < 0) {
                c.violation(std::string(RELN[r]) + "(" + a.name + "," + b.name + ")=" + (got[r] == -2 ? "throws" : "unevaluated"),
                            std::string(RELN[r]) + "(" + a.name + ", " + b.name + ") -> " + what + "; model " + (want ? "True" : "False"));
            } else if (judge && got[r] != (int)want) {
                c.violation(std::string(subulp(a, b) ? "sub-ulp:" : "") + RELN[r] + "(" + a.name + "," + b.name + ")=" + (got[r] ? "True" : "False"),
                            std::string(RELN[r]) + "(" + a.name + ", " + b.name + ") = " + (got[r] ? "True" : "False") + "; exact model "
                                + (want ? "True" : "False"));
            }
            if (i % 97 == 0 && r == 1)
                c.sample("{\"op\":\"Le\",\"a\":" + jstr(a.name) + ",\"b\":" + jstr(b.name) + ",\"model\":" + (want ? "true" : "false")
                         + ",\"impl\":" + std::to_string(got[r]) + "}");
        }
        // identities between relations (evaluated on the swapped pair directly)
        int ltba = tv([&] { return Lt(b.e, a.e); }, what), leba = tv([&] { return Le(b.e, a.e); }, what);
        int eqba = tv([&] { return Eq(b.e, a.e); }, what), neba = tv([&] { return Ne(b.e, a.e); }, what);
        c.count(1, 4);
        c.eval(4);
        if (got[1] >= 0 && ltba >= 0 && got[1] == ltba)
            c.violation("identity:Le(a,b)==Lt(b,a):(" + a.name + "," + b.name + ")",
                        "Le(a,b) is not the negation of Lt(b,a) for a=" + a.name + " b=" + b.name);
        if (got[3] >= 0 && leba >= 0 && got[3] != leba)
            c.violation("identity:Ge(a,b)!=Le(b,a):(" + a.name + "," + b.name + ")", "Ge(a,b) != Le(b,a) for a=" + a.name + " b=" + b.name);
        if (got[4] != eqba || got[5] != neba)
            c.violation("identity:Eq/Ne-asymmetric:(" + a.name + "," + b.name + ")", "Eq or Ne not symmetric for a=" + a.name + " b=" + b.name);
        if (got[4] >= 0 && got[5] >= 0 && got[4] == got[5])
            c.violation("identity:Eq==Ne:(" + a.name + "," + b.name + ")", "Eq and Ne agree for a=" + a.name + " b=" + b.name);
        // symbolic relational, then substitute numbers
        for (int r = 0; r < 6; r++) {
            for (int side = 0; side < 2; side++) {
                std::string w2;
                int s = tv(
                    [&]() -> RCP<const Basic> {
                        RCP<const Basic> sym = side == 0 ? rel(r, x, b.e) : rel(r, a.e, x);
                        map_basic_basic m;
                        m[x] = side == 0 ? a.e : b.e;
                        return sym->subs(m);
                    },
                    w2);
                c.eval();
                c.count(2);
                if (s != got[r])
                    c.violation(std::string("subs:") + RELN[r] + "(" + a.name + "," + b.name + ")side" + std::to_string(side),
                                std::string(RELN[r]) + (side == 0 ? "(x, b).subs(x->a)" : "(a, x).subs(x->b)") + " gives " + std::to_string(s)
                                    + " (" + w2 + ") but direct evaluation gives " + std::to_string(got[r]) + " for a=" + a.name + " b=" + b.name);
            }
        }
    };
    run_cases(cs);
    Run &R = run();
    R.states = n;
    R.transitions = R.evaluations;
    R.bound_completed = "full table: " + std::to_string(n) + " real values, all ordered pairs";
    R.rule = "all ordered pairs of " + std::to_string(n)
             + " real values of every kind (Integer, Rational, RealDouble incl. signed zeros/denormal/huge, +-oo) x {Lt,Le,Gt,Ge,Eq,Ne} vs exact "
               "extended-rational comparison (doubles are exact rationals); identities Le=!Lt(swap), Ge=Le(swap), Eq/Ne symmetric negations; "
               "symbolic relational then subs on either side. distinct_nontrivial = ordered pairs with operands of different kind or different value";
    R.assumptions = {"exact.h extended-rational comparison (GMP mpq) is correct", "mpq_set_d converts a double exactly",
                     "Eq/Ne between an exact and a floating number of equal value is not judged against the numeric model (only symmetry/negation)"};
    return R.finish();
}
