// C46  homogeneous_lde returns exactly the Hilbert basis -- E5 finite table vs brute force (DESIGN 5 C46)
//
// Every integer matrix of a few small shapes over a small entry range is handed to the real
// homogeneous_lde().  Oracle: enumerate every non-negative integer vector x with |x|_1 <= Pottier's bound
// (1 + max_i sum_j |a_ij|)^p, keep the solutions of A x = 0, and keep those not dominated by another
// non-zero solution.  Soundness of the returned vectors (solution, non-zero, non-negative, pairwise
// different, minimal) is additionally decided without the bound, by enumerating the box below each vector.
#include "common.h"
#include "key.h"
using namespace verif;

struct MSet {
    int p, q, lo, hi; // shape and entry range [lo,hi]
    long long n;      // (hi-lo+1)^(p*q)
    long long base;   // first global index
};
static std::vector<MSet> SETS;
static void addset(int p, int q, int r)
{
    MSet s;
    s.p = p;
    s.q = q;
    s.lo = -r;
    s.hi = r;
    s.n = 1;
    for (int i = 0; i < p * q; i++)
        s.n *= (2 * r + 1);
    s.base = SETS.empty() ? 0 : SETS.back().base + SETS.back().n;
    SETS.push_back(s);
}
// digit d of a set with range r -> value, simplest first: 0,1,-1,2,-2,...
static int digit_value(int d)
{
    return d == 0 ? 0 : (d % 2 ? (d + 1) / 2 : -(d / 2));
}
struct Mat {
    int p, q;
    std::vector<long> a; // row major
};
static Mat decode(long long i)
{
    size_t k = 0;
    while (k + 1 < SETS.size() && i >= SETS[k + 1].base)
        k++;
    const MSet &s = SETS[k];
    long long j = i - s.base;
    int w = s.hi - s.lo + 1;
    Mat m;
    m.p = s.p;
    m.q = s.q;
    m.a.resize(s.p * s.q);
    // last entry varies fastest
    for (int e = s.p * s.q - 1; e >= 0; e--) {
        m.a[e] = digit_value(j % w);
        j /= w;
    }
    return m;
}
static std::string mstr(const Mat &m)
{
    std::string o = "[";
    for (int i = 0; i < m.p; i++) {
        o += (i ? ",[" : "[");
        for (int j = 0; j < m.q; j++)
            o += (j ? "," : "") + std::to_string(m.a[i * m.q + j]);
        o += "]";
    }
    return o + "]";
}
typedef std::vector<long> Vec;
static std::string vstr(const Vec &v)
{
    std::string o = "(";
    for (size_t i = 0; i < v.size(); i++)
        o += (i ? "," : "") + std::to_string(v[i]);
    return o + ")";
}
static bool leq(const Vec &a, const Vec &b)
{
    for (size_t i = 0; i < a.size(); i++)
        if (a[i] > b[i])
            return false;
    return true;
}
static bool is_solution(const Mat &m, const Vec &x)
{
    for (int i = 0; i < m.p; i++) {
        long s = 0;
        for (int j = 0; j < m.q; j++)
            s += m.a[i * m.q + j] * x[j];
        if (s != 0)
            return false;
    }
    return true;
}
static long pottier_bound(const Mat &m)
{
    long mx = 0;
    for (int i = 0; i < m.p; i++) {
        long s = 0;
        for (int j = 0; j < m.q; j++)
            s += std::labs(m.a[i * m.q + j]);
        mx = std::max(mx, s);
    }
    long b = 1;
    for (int i = 0; i < m.p; i++)
        b *= (1 + mx);
    return b;
}
// all non-negative solutions with 1-norm exactly s, appended to out (recursive over coordinates)
static void enum_norm(const Mat &m, int pos, long left, Vec &x, std::vector<long> &part, std::vector<Vec> &out)
{
    if (pos == m.q - 1) {
        x[pos] = left;
        bool ok = true;
        for (int i = 0; i < m.p && ok; i++)
            if (part[i] + m.a[i * m.q + pos] * left != 0)
                ok = false;
        if (ok)
            out.push_back(x);
        return;
    }
    for (long v = 0; v <= left; v++) {
        x[pos] = v;
        for (int i = 0; i < m.p; i++)
            part[i] += m.a[i * m.q + pos] * v;
        enum_norm(m, pos + 1, left - v, x, part, out);
        for (int i = 0; i < m.p; i++)
            part[i] -= m.a[i * m.q + pos] * v;
    }
}
static std::vector<Vec> hilbert_basis_bruteforce(const Mat &m, long bound, uint64_t &nsol)
{
    std::vector<Vec> mins;
    Vec x(m.q, 0);
    std::vector<long> part(m.p, 0);
    for (long s = 1; s <= bound; s++) {
        std::vector<Vec> sols;
        enum_norm(m, 0, s, x, part, sols);
        nsol += sols.size();
        size_t before = mins.size(); // solutions of equal norm never dominate each other unless equal
        for (auto &v : sols) {
            bool dominated = false;
            for (size_t k = 0; k < before && !dominated; k++)
                if (leq(mins[k], v))
                    dominated = true;
            if (!dominated)
                mins.push_back(v);
        }
    }
    return mins;
}
// is there a non-zero solution w <= v, w != v ?  (decides minimality of v without any bound)
static bool has_smaller_solution(const Mat &m, const Vec &v, Vec &wit)
{
    Vec w(m.q, 0);
    while (true) {
        int k = 0;
        while (k < m.q && w[k] == v[k]) {
            w[k] = 0;
            k++;
        }
        if (k == m.q)
            return false;
        w[k]++;
        if (w == v)
            continue;
        if (is_solution(m, w)) {
            wit = w;
            return true;
        }
    }
}

enum { K_MATRICES, K_BASIS_VECTORS, K_ORACLE_VECTORS, K_ORACLE_SOLUTIONS, K_BOX_MINIMALITY, K_BOX_SKIPPED, K_EMPTY_BASIS, K_THROWN };

int main(int argc, char **argv)
{
    init(argc, argv, "C46");
    bool thorough = opts().thorough();
    addset(1, 2, 3);
    addset(1, 3, 3);
    addset(2, 2, 2);
    addset(1, 4, 2);
    addset(2, 3, 1);
    if (thorough) {
        addset(1, 2, 6);
        addset(1, 3, 5);
        addset(1, 5, 1);
        addset(2, 4, 1);
        addset(3, 3, 1);
        addset(2, 3, 2);
        addset(1, 4, 3);
    }
    CaseSet cs;
    cs.name = "matrix";
    cs.n = SETS.back().base + SETS.back().n;
    cs.hang_s = 15;
    cs.counter_names = {"matrices", "basis_vectors_returned", "oracle_minimal_solutions", "oracle_solutions_enumerated",
                        "returned_vectors_minimality_decided_by_box_enumeration", "box_enumeration_skipped_too_large", "matrices_with_empty_basis",
                        "library_exceptions"};
    cs.desc = [&](long long i) {
        Mat m = decode(i);
        return "homogeneous_lde(A=" + mstr(m) + ")";
    };
    cs.crash_sig = [&](long long, const std::string &oc) { return "homogeneous_lde:" + oc; };
    cs.body = [&](long long i, Ctx &c) {
        Mat m = decode(i);
        c.count(K_MATRICES);
        vec_basic el;
        for (long v : m.a)
            el.push_back(integer(v));
        DenseMatrix A(m.p, m.q, el);
        std::vector<DenseMatrix> basis;
        std::string d = "homogeneous_lde(A=" + mstr(m) + ")";
        c.eval();
        try {
            homogeneous_lde(basis, A);
        } catch (std::exception &x) {
            c.count(K_THROWN);
            c.outcome("throw");
            c.violation("homogeneous_lde:throws", d + " threw " + x.what());
            return;
        }
        // ---- read the result back
        std::vector<Vec> got;
        bool shape_ok = true;
        for (auto &b : basis) {
            if (b.nrows() != 1 || b.ncols() != (unsigned)m.q) {
                shape_ok = false;
                break;
            }
            Vec v(m.q);
            for (int j = 0; j < m.q; j++) {
                RCP<const Basic> e = b.get(0, j);
                if (e.is_null() || !is_a<Integer>(*e) || !mp_fits_slong_p(down_cast<const Integer &>(*e).as_integer_class())) {
                    shape_ok = false;
                    break;
                }
                v[j] = mp_get_si(down_cast<const Integer &>(*e).as_integer_class());
            }
            if (!shape_ok)
                break;
            got.push_back(v);
        }
        if (!shape_ok) {
            c.violation("homogeneous_lde:malformed-basis-element", d + " returned an element that is not a 1xq row of machine-size Integers");
            return;
        }
        c.count(K_BASIS_VECTORS, got.size());
        // ---- oracle
        long bound = pottier_bound(m);
        uint64_t nsol = 0;
        std::vector<Vec> want = hilbert_basis_bruteforce(m, bound, nsol);
        c.count(K_ORACLE_SOLUTIONS, nsol);
        c.count(K_ORACLE_VECTORS, want.size());
        if (!want.empty())
            c.nontrivial();
        else
            c.count(K_EMPTY_BASIS);
        long maxnorm = 0;
        for (auto &v : want)
            maxnorm = std::max(maxnorm, std::accumulate(v.begin(), v.end(), 0L));
        c.outcome(std::to_string(m.p) + "x" + std::to_string(m.q) + ":|H|=" + std::to_string(want.size()) + ",maxnorm=" + std::to_string(maxnorm));
        std::string wants = "{";
        for (auto &v : want)
            wants += vstr(v);
        wants += "}";
        std::string gots = "{";
        for (auto &v : got)
            gots += vstr(v);
        gots += "}";
        std::string tail = "; returned " + gots + "; Hilbert basis (brute force, |x|_1<=" + std::to_string(bound) + ") " + wants;
        // ---- soundness of each returned vector (independent of the bound)
        std::set<Vec> seen;
        for (auto &v : got) {
            bool neg = false, zero = true;
            for (long x : v) {
                if (x < 0)
                    neg = true;
                if (x != 0)
                    zero = false;
            }
            if (neg) {
                c.violation("homogeneous_lde:negative-component", d + " returned " + vstr(v) + tail);
                continue;
            }
            if (zero) {
                c.violation("homogeneous_lde:zero-vector-in-basis", d + " returned the zero vector" + tail);
                continue;
            }
            if (!is_solution(m, v)) {
                c.violation("homogeneous_lde:non-solution", d + " returned " + vstr(v) + " which does not satisfy A x = 0" + tail);
                continue;
            }
            if (!seen.insert(v).second) {
                c.violation("homogeneous_lde:duplicate", d + " returned " + vstr(v) + " more than once" + tail);
                continue;
            }
            double box = 1;
            for (long x : v)
                box *= (double)(x + 1);
            if (box <= 2e6) {
                Vec wit;
                c.count(K_BOX_MINIMALITY);
                if (has_smaller_solution(m, v, wit))
                    c.violation("homogeneous_lde:non-minimal", d + " returned " + vstr(v) + " which is not minimal: " + vstr(wit)
                                                                   + " is a smaller non-zero solution" + tail);
            } else
                c.count(K_BOX_SKIPPED);
        }
        // ---- completeness / equality with the brute-force basis
        std::set<Vec> ws(want.begin(), want.end());
        for (auto &v : want)
            if (!seen.count(v)) {
                c.violation("homogeneous_lde:missing-minimal-solution", d + " does not return the minimal solution " + vstr(v) + tail);
                break;
            }
        for (auto &v : seen)
            if (!ws.count(v)) {
                long nv = std::accumulate(v.begin(), v.end(), 0L);
                if (nv > bound)
                    c.violation("homogeneous_lde:element-beyond-pottier-bound", d + " returned " + vstr(v) + " of norm above the bound" + tail);
                else
                    c.violation("homogeneous_lde:extra-element", d + " returned " + vstr(v) + " which is not in the Hilbert basis" + tail);
                break;
            }
        if (i % 211 == 0)
            c.sample("{\"A\":" + jstr(mstr(m)) + ",\"returned\":" + jstr(gots) + ",\"brute_force\":" + jstr(wants) + ",\"bound\":" + std::to_string(bound)
                     + "}");
    };
    run_cases(cs);
    Run &R = run();
    R.states = cs.n;
    R.transitions = R.evaluations;
    std::string sets;
    for (auto &s : SETS)
        sets += (sets.empty() ? "" : ", ") + std::to_string(s.p) + "x" + std::to_string(s.q) + " over [" + std::to_string(s.lo) + "," + std::to_string(s.hi)
                + "] (" + std::to_string(s.n) + ")";
    R.bound_completed = "every integer matrix of the sets: " + sets;
    R.rule = "E5: every matrix of each (shape, entry range) set is passed to homogeneous_lde; the returned set must equal the set of <=-minimal non-zero "
             "non-negative solutions found by enumerating all x with |x|_1 <= (1+max row abs sum)^rows (Pottier); each returned vector is also checked "
             "to be a non-negative non-zero solution, returned once, with no smaller non-zero solution in the box below it (bound-free). "
             "distinct_nontrivial = matrices whose Hilbert basis is non-empty";
    R.assumptions = {"Pottier's bound |x|_1 <= (1+||A||_{1,inf})^rank on minimal solutions (used for completeness only)",
                     "machine long arithmetic of the oracle does not overflow for these entry ranges"};
    return R.finish();
}
