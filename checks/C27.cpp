// C27  Set operations have pointwise membership semantics -- E1 over set terms + cell oracle
// (DESIGN 5 C27).  Every transition r = op(a, b) on the real library is judged by an independent
// membership interpreter over the *result tree* against the boolean combination of the operand
// memberships, at every breakpoint, one integer / one non-integer rational / one irrational per
// gap, two non-real numbers and one non-number object.  contains() must never return a BooleanAtom
// that contradicts the denotation of the set it is called on.  sup/inf/boundary/interior/closure
// are compared with an exact piece-list model (sorted disjoint intervals over GMP rationals).
//
// Known defects of this area hang or overflow the stack, so every case is executed in its own
// forked grandchild under a CPU-time limit (see isolated()).
#include "common.h"
#include "key.h"
#include "explore.h"
#include <sys/time.h>
using namespace verif;

// ------------------------------------------------------------------ batched process isolation
// fork() costs >100 ms on the loaded verification host, so a worker does not fork per case: it
// forks one sub-worker per *batch* of its next B indices.  The sub-worker arms a CPU-time limit
// before every case and reports through a shared record buffer (records are tagged with the
// case index).  When it dies, the case in progress is re-run alone with a 4x larger limit; if it
// dies again it is reported as hang / crash (a violation of that case, so it lands in cs.bad and
// never costs the framework's serial suspect re-run), and a new sub-worker continues after it.
struct RecBuf {
    volatile size_t len;
    volatile long long cur;  // index in progress
    volatile long long done; // number of batch entries finished
    volatile uint64_t snap_eval, snap_nontriv, snap_cnt[NCOUNT]; // worker counters before the case in progress
    char data[(8 << 20) - 1024];
};
static RecBuf *g_rb = nullptr;
static bool g_in_child = false;
static void rb_put(char type, long long idx, const std::string &a, const std::string &b)
{
    size_t need = 1 + 8 + 4 + a.size() + 4 + b.size();
    if (g_rb->len + need > sizeof(g_rb->data))
        return;
    char *p = g_rb->data + g_rb->len;
    *p++ = type;
    memcpy(p, &idx, 8);
    p += 8;
    uint32_t n = a.size();
    memcpy(p, &n, 4);
    p += 4;
    memcpy(p, a.data(), n);
    p += n;
    n = b.size();
    memcpy(p, &n, 4);
    p += 4;
    memcpy(p, b.data(), n);
    g_rb->len += need;
}
struct Rep { // reporting facade of one case
    Ctx &c;
    long long idx;
    void violation(const std::string &sig, const std::string &desc)
    {
        if (g_in_child)
            rb_put('V', idx, sig, desc);
        else
            c.violation(sig, desc);
    }
    void outcome(const std::string &o)
    {
        if (g_in_child)
            rb_put('O', idx, o, "");
        else
            c.outcome(o);
    }
    void sample(const std::string &s)
    {
        if (g_in_child)
            rb_put('S', idx, s, "");
        else
            c.sample(s);
    }
};
static double CPU_LIMIT_S = 0.1;     // user CPU; a healthy case needs < 1 ms
static double CONFIRM_LIMIT_S = 0.6; // a suspected hang is confirmed alone under this limit
static void arm_cpu_limit(double s)
{
    struct itimerval it;
    memset(&it, 0, sizeof it);
    it.it_value.tv_sec = (long)s;
    it.it_value.tv_usec = (long)((s - (long)s) * 1e6);
    setitimer(ITIMER_VIRTUAL, &it, nullptr); // user CPU time: insensitive to machine load and to fork/page-fault cost
}
struct Rec {
    char type;
    std::string a, b;
};
struct BatchState {
    std::string name;
    std::map<long long, std::vector<Rec>> recs;
    std::map<long long, std::string> died;
    std::set<long long> have;
};
static BatchState g_bs;

// run the cases L[from..] in one sub-worker; returns "" if all finished, else the death class of
// the case L[*done]
static std::string sub_worker(Ctx &c, const std::vector<long long> &L, size_t from, double limit,
                              const std::function<void(long long, Rep &)> &runcase, size_t *done)
{
    g_rb->len = 0;
    g_rb->done = from;
    g_rb->cur = -1;
    fflush(c.out);
    fflush(stdout);
    pid_t p = -1;
    for (int attempt = 0; attempt < 200 && (p = fork()) < 0; attempt++)
        usleep(20000);
    if (p < 0) {
        fprintf(stderr, "C27: fork failed: %s\n", strerror(errno));
        abort();
    }
    if (p == 0) {
        g_in_child = true;
        struct rlimit rl;
        getrlimit(RLIMIT_STACK, &rl);
        rl.rlim_cur = 512 << 10; // make runaway recursion die quickly
        setrlimit(RLIMIT_STACK, &rl);
        rl.rlim_cur = rl.rlim_max = 0;
        setrlimit(RLIMIT_CORE, &rl);
        signal(SIGVTALRM, SIG_DFL);
        for (size_t k = from; k < L.size(); k++) {
            g_rb->cur = L[k];
            g_rb->snap_eval = c.sh->eval;
            g_rb->snap_nontriv = c.sh->nontriv;
            for (int q = 0; q < NCOUNT; q++)
                g_rb->snap_cnt[q] = c.sh->cnt[q];
            arm_cpu_limit(limit);
            Rep r{c, L[k]};
            runcase(L[k], r);
            arm_cpu_limit(0);
            g_rb->done = k + 1;
        }
        _exit(0);
    }
    int st = 0;
    double tw = now();
    struct rusage ru;
    while (wait4(p, &st, 0, &ru) < 0 && errno == EINTR) {
    }
    if (getenv("C27_DEBUG"))
        fprintf(stderr, "[sub] from=%zu n=%zu done=%lld wall=%.3f user=%.3f sys=%.3f st=%x\n", from, L.size(), (long long)g_rb->done,
                now() - tw, ru.ru_utime.tv_sec + 1e-6 * ru.ru_utime.tv_usec, ru.ru_stime.tv_sec + 1e-6 * ru.ru_stime.tv_usec, st);
    size_t off = 0, len = g_rb->len;
    while (off + 17 <= len) {
        Rec r;
        r.type = g_rb->data[off++];
        long long idx;
        memcpy(&idx, g_rb->data + off, 8);
        off += 8;
        uint32_t n;
        memcpy(&n, g_rb->data + off, 4);
        off += 4;
        r.a.assign(g_rb->data + off, n);
        off += n;
        memcpy(&n, g_rb->data + off, 4);
        off += 4;
        r.b.assign(g_rb->data + off, n);
        off += n;
        g_bs.recs[idx].push_back(r);
    }
    *done = g_rb->done;
    if (WIFEXITED(st) && WEXITSTATUS(st) == 0)
        return "";
    if (g_rb->cur >= 0) {
        // discard the partial counter increments of the case that died (keeps the counts deterministic)
        c.sh->eval = g_rb->snap_eval;
        c.sh->nontriv = g_rb->snap_nontriv;
        for (int q = 0; q < NCOUNT; q++)
            c.sh->cnt[q] = g_rb->snap_cnt[q];
    }
    if (WIFSIGNALED(st)) {
        int sg = WTERMSIG(st);
        if (sg == SIGVTALRM)
            return "hang";
        return std::string("crash:") + (sg == SIGSEGV ? "SIGSEGV" : sg == SIGABRT ? "SIGABRT" : sg == SIGFPE ? "SIGFPE" : strsignal(sg));
    }
    return "exit:" + std::to_string(WEXITSTATUS(st));
}

enum { K_HANG_SLOT = 8, K_CRASH_SLOT = 9, K_CLEAN_ALONE_SLOT = 16, K_PROBED = 17, K_QUARANTINED = 18 };
// body of a case set: executes case i (computing a whole batch when i is not cached yet)
static void batched(Ctx &c, const CaseSet &cs, long long i, const std::function<void(long long, Rep &)> &runcase,
                    const std::function<std::string(long long)> &cls, volatile char *dead_flags)
{
    if (!g_rb) {
        g_rb = (RecBuf *)mmap(nullptr, sizeof(RecBuf), PROT_READ | PROT_WRITE, MAP_SHARED | MAP_ANONYMOUS, -1, 0);
    }
    if (g_bs.name != cs.name) {
        g_bs = BatchState();
        g_bs.name = cs.name;
    }
    if (!g_bs.have.count(i)) {
        long long J = cs.jobs > 0 ? cs.jobs : opts().jobs;
        if (cs.n < 64)
            J = 1;
        J = std::min<long long>(J, std::max<long long>(1, cs.n));
        size_t B = replaying() ? 1 : 1024;
        std::vector<long long> L;
        for (long long k = i; k < cs.n && L.size() < B; k += J)
            L.push_back(k);
        size_t pos = 0;
        while (pos < L.size()) {
            size_t done = pos;
            std::string oc = sub_worker(c, L, pos, CPU_LIMIT_S, runcase, &done);
            if (oc.empty()) {
                pos = L.size();
                break;
            }
            long long victim = L[done];
            bool first_in_sub = done == pos;
            g_bs.recs.erase(victim); // partial records of the dying case are dropped; the death itself is the finding
            if (first_in_sub && oc != "hang") {
                g_bs.died[victim] = oc; // nothing ran before it in that process: the crash is the case's own
            } else {
                // confirm alone: a crash may be caused by an earlier case of the batch, and the cheap CPU limit can be
                // hit spuriously (on an overcommitted host the guest charges stolen time to the running task)
                size_t d2 = 0;
                std::string oc2 = sub_worker(c, {victim}, 0, CONFIRM_LIMIT_S, runcase, &d2);
                if (!oc2.empty()) {
                    g_bs.recs.erase(victim);
                    g_bs.died[victim] = oc2;
                } else
                    c.count(K_CLEAN_ALONE_SLOT);
            }
            pos = done + 1;
        }
        for (auto k : L)
            g_bs.have.insert(k);
    }
    auto it = g_bs.recs.find(i);
    if (it != g_bs.recs.end()) {
        for (auto &r : it->second) {
            if (r.type == 'V')
                c.violation(r.a, r.b);
            else if (r.type == 'O')
                c.outcome(r.a);
            else
                c.sample(r.a);
        }
        g_bs.recs.erase(it);
    }
    auto dt = g_bs.died.find(i);
    if (dt != g_bs.died.end()) {
        const std::string &oc = dt->second;
        std::string k = cls(i);
        {
            // report with top-level kinds only: strip the [...] detail of composite operands
            std::string t;
            int depth = 0;
            for (char ch : k) {
                if (ch == '[')
                    depth++;
                else if (ch == ']')
                    depth--;
                else if (depth == 0)
                    t += ch;
            }
            k = t;
        }
        c.count(oc == "hang" ? K_HANG_SLOT : K_CRASH_SLOT);
        if (dead_flags)
            dead_flags[i] = 1;
        c.outcome(oc + ":" + k);
        c.violation(oc + ":" + k, (cs.desc ? cs.desc(i) : "") + ": "
                                      + (oc == "hang" ? "did not terminate within the CPU limit" : "process died, " + oc));
        if (getenv("C27_DEBUG"))
            fprintf(stderr, "[iso] %lld %s %s\n", i, oc.c_str(), k.c_str());
        g_bs.died.erase(dt);
    }
    g_bs.have.erase(i);
}

// ------------------------------------------------------------------ test points
enum PK { RAT, IRR, NONREAL, OBJ };
struct Pt {
    PK kind;
    mpq_class q; // exact value (RAT) or a 1e-11 approximation (IRR)
    RCP<const Basic> e;
    std::string name, k; // k = structural key
};
static std::vector<Pt> P;
static Pt mkrat(const mpq_class &q)
{
    Pt p;
    p.kind = RAT;
    p.q = q;
    p.e = Rational::from_two_ints(q.get_num().get_si(), q.get_den().get_si());
    p.name = q.get_str();
    p.k = key(*p.e);
    return p;
}
static Pt mkirr(const std::string &name, const RCP<const Basic> &e, double approx)
{
    Pt p;
    p.kind = IRR;
    p.q = mpq_class((long)llround(approx * 1e11), 100000000000L);
    p.q.canonicalize();
    p.e = e;
    p.name = name;
    p.k = key(*e);
    return p;
}
static Pt mkother(PK kind, const std::string &name, const RCP<const Basic> &e)
{
    Pt p;
    p.kind = kind;
    p.e = e;
    p.name = name;
    p.k = key(*e);
    return p;
}
static bool is_int(const Pt &p)
{
    return p.kind == RAT && p.q.get_den() == 1;
}

// ------------------------------------------------------------------ membership interpreter
// 1 member, 0 not a member, -1 undecided (unknown node / symbolic element)
static int memb(const Basic &s, const Pt &p)
{
    switch (s.get_type_code()) {
        case SYMENGINE_EMPTYSET:
            return 0;
        case SYMENGINE_UNIVERSALSET:
            return 1;
        case SYMENGINE_COMPLEXES:
            return p.kind != OBJ;
        case SYMENGINE_REALS:
            return p.kind == RAT || p.kind == IRR;
        case SYMENGINE_RATIONALS:
            return p.kind == RAT;
        case SYMENGINE_INTEGERS:
            return is_int(p);
        case SYMENGINE_NATURALS:
            return is_int(p) && p.q > 0;
        case SYMENGINE_NATURALS0:
            return is_int(p) && p.q >= 0;
        case SYMENGINE_INTERVAL: {
            const Interval &iv = down_cast<const Interval &>(s);
            ExtReal lo, hi;
            if (!to_extreal(*iv.get_start(), lo) || !to_extreal(*iv.get_end(), hi) || lo.is_float || hi.is_float)
                return -1;
            if (p.kind != RAT && p.kind != IRR)
                return 0;
            ExtReal v;
            v.v = p.q;
            int cl = cmp(v, lo), ch = cmp(v, hi);
            if (p.kind == IRR) { // never equal to a rational endpoint
                if (cl == 0 || ch == 0)
                    return -1;
            }
            if (cl < 0 || ch > 0)
                return 0;
            if (cl == 0)
                return !iv.get_left_open();
            if (ch == 0)
                return !iv.get_right_open();
            return 1;
        }
        case SYMENGINE_FINITESET: {
            bool undecided = false;
            for (auto &el : down_cast<const FiniteSet &>(s).get_container()) {
                ExtReal v;
                GQ g;
                if (to_extreal(*el, v) && !v.inf && !v.is_float) {
                    if (p.kind == RAT && p.q == v.v)
                        return 1;
                } else if (to_gq(*el, g)) {
                    if (p.kind == NONREAL && key(*el) == p.k)
                        return 1;
                } else if (key(*el) == p.k)
                    return 1;
                else
                    undecided = true; // symbolic element different from the point's tree
            }
            return undecided ? -1 : 0;
        }
        case SYMENGINE_UNION: {
            bool und = false;
            for (auto &a : down_cast<const Union &>(s).get_container()) {
                int m = memb(*a, p);
                if (m == 1)
                    return 1;
                if (m < 0)
                    und = true;
            }
            return und ? -1 : 0;
        }
        case SYMENGINE_INTERSECTION: {
            bool und = false;
            for (auto &a : down_cast<const Intersection &>(s).get_container()) {
                int m = memb(*a, p);
                if (m == 0)
                    return 0;
                if (m < 0)
                    und = true;
            }
            return und ? -1 : 1;
        }
        case SYMENGINE_COMPLEMENT: {
            const Complement &c = down_cast<const Complement &>(s);
            int u = memb(*c.get_universe(), p), k = memb(*c.get_container(), p);
            if (u == 0 || k == 1)
                return 0;
            if (u < 0 || k < 0)
                return -1;
            return 1;
        }
        default:
            return -1;
    }
}

static void collect_numbers(const Basic &s, std::set<mpq_class> &out)
{
    ExtReal v;
    if (to_extreal(s, v)) {
        if (!v.inf && !v.is_float)
            out.insert(v.v);
        return;
    }
    if (is_a_Boolean(s))
        return;
    for (auto &a : s.get_args())
        collect_numbers(*a, out);
}

static std::string kind(const Basic &s)
{
    if (is_a<Interval>(s)) {
        const Interval &iv = down_cast<const Interval &>(s);
        if (is_a<Infty>(*iv.get_start()) || is_a<Infty>(*iv.get_end()))
            return "Interval-with-infinite-endpoint";
        return "Interval";
    }
    return type_code_name(s.get_type_code());
}
// features of an operand tree, for the signatures of composite operands
static void features(const Basic &s, std::set<std::string> &f)
{
    if (is_a_Set(s)) {
        f.insert(kind(s));
        if (is_a<Union>(s) || is_a<Intersection>(s) || is_a<Complement>(s))
            for (auto &a : s.get_args())
                features(*a, f);
    }
}
static std::string kind_deep(const Basic &s)
{
    if (!(is_a<Union>(s) || is_a<Intersection>(s) || is_a<Complement>(s)))
        return kind(s);
    std::set<std::string> f;
    for (auto &a : s.get_args())
        features(*a, f);
    std::string o = type_code_name(s.get_type_code()) + "[";
    bool first = true;
    for (auto &x : f) {
        o += (first ? "" : "+") + x;
        first = false;
    }
    return o + "]";
}

// ------------------------------------------------------------------ operations
enum Op { U_M, U_F, I_M, I_F, CMPL, NOPS };
static const char *OPN[] = {"a->set_union(b)", "set_union({a,b})", "a->set_intersection(b)", "set_intersection({a,b})",
                            "set_complement(a,b)"};
static const char *OPS[] = {"set_union", "set_union", "set_intersection", "set_intersection", "set_complement"};
static RCP<const Set> S_(const RCP<const Basic> &b)
{
    return rcp_static_cast<const Set>(b);
}
static RCP<const Set> apply(int op, const RCP<const Basic> &a, const RCP<const Basic> &b)
{
    switch (op) {
        case U_M:
            return S_(a)->set_union(S_(b));
        case U_F:
            return set_union({S_(a), S_(b)});
        case I_M:
            return S_(a)->set_intersection(S_(b));
        case I_F:
            return set_intersection({S_(a), S_(b)});
        default:
            return set_complement(S_(a), S_(b)); // a \ b
    }
}
static int sem(int op, int ma, int mb)
{
    // three-valued
    switch (op) {
        case U_M:
        case U_F:
            if (ma == 1 || mb == 1)
                return 1;
            return (ma < 0 || mb < 0) ? -1 : 0;
        case I_M:
        case I_F:
            if (ma == 0 || mb == 0)
                return 0;
            return (ma < 0 || mb < 0) ? -1 : 1;
        default:
            if (ma == 0 || mb == 1)
                return 0;
            return (ma < 0 || mb < 0) ? -1 : 1;
    }
}

enum {
    K_JUDGED,
    K_POINTS,
    K_POINTS_UNDECIDED,
    K_REFUSED,
    K_CONTAINS_ATOM,
    K_CONTAINS_SYMBOLIC,
    K_CONTAINS_THROW,
    K_EXTRA_POINTS,
    K_HANG, // = K_HANG_SLOT
    K_CRASH,
    K_F_JUDGED,
    K_F_REFUSED,
    K_F_SKIPPED,
    K_F_UNDECIDED,
    K_RESULT_UNKNOWN_NODE,
    K_NARY_DUP
};
static std::vector<std::string> CN = {"transitions_membership_judged",
                                      "membership_points_compared",
                                      "membership_points_undecided(skipped)",
                                      "transitions_library_refused(exception)",
                                      "contains_definite_answers_checked",
                                      "contains_symbolic_answers",
                                      "contains_refused(exception)",
                                      "extra_breakpoints_from_result_tree",
                                      "cases_hang",
                                      "cases_crash",
                                      "setfunc_cases_judged",
                                      "setfunc_cases_refused(exception)",
                                      "setfunc_cases_skipped(model_does_not_cover_tree)",
                                      "setfunc_cases_undecided_result",
                                      "transitions_result_has_unknown_node",
                                      "nary_cases_with_repeated_operand",
                                      "cases_died_in_batch_but_clean_when_rerun_alone(not_reported)",
                                      "case_indices_already_run_as_class_probe",
                                      "cases_quarantined(operand_kind_class_died_on_its_probe;not_run)"};

static std::string mstr(int m)
{
    return m == 1 ? "member" : m == 0 ? "not-member" : "undecided";
}

// the point set for a judgement: static points plus every rational occurring in the trees that
// is not already a static point (a breakpoint invented by the library)
static std::vector<Pt> points_for(const std::vector<const Basic *> &trees, int *extra)
{
    std::set<mpq_class> nums;
    for (auto t : trees)
        collect_numbers(*t, nums);
    std::vector<Pt> pts = P;
    for (auto &q : nums) {
        bool have = false;
        for (auto &p : P)
            if (p.kind == RAT && p.q == q)
                have = true;
        if (!have) {
            pts.push_back(mkrat(q));
            if (extra)
                (*extra)++;
        }
    }
    return pts;
}

// judge result r of a recipe whose expected membership at p is exp(p)
static void judge(Rep &rp, Ctx &c, const std::string &opname, const std::string &ksig, const std::string &recipe,
                  const RCP<const Set> &r, const std::vector<const Basic *> &operands,
                  const std::function<int(const Pt &)> &expect)
{
    std::vector<const Basic *> trees = operands;
    trees.push_back(r.get());
    int extra = 0;
    std::vector<Pt> pts = points_for(trees, &extra);
    c.count(K_EXTRA_POINTS, extra);
    bool judged = false, bad = false, unknown = false;
    for (auto &p : pts) {
        int want = expect(p);
        int got = memb(*r, p);
        if (got < 0)
            unknown = true;
        if (want < 0 || got < 0) {
            c.count(K_POINTS_UNDECIDED);
        } else {
            c.count(K_POINTS);
            judged = true;
            if (want != got && !bad) {
                bad = true;
                rp.violation("member:" + opname + "(" + ksig + ")",
                             recipe + " returned " + sstr(r) + " [" + key(*r) + "]; point " + p.name + " expected "
                                 + mstr(want) + " but the returned set denotes " + mstr(got));
            }
        }
        // contains() on the returned object must not contradict its own denotation
        int ans = -3;
        std::string what;
        try {
            RCP<const Boolean> b = r->contains(p.e);
            if (is_a<BooleanAtom>(*b))
                ans = down_cast<const BooleanAtom &>(*b).get_val() ? 1 : 0;
            else {
                ans = -1;
                what = sstr(b);
            }
        } catch (SymEngineException &x) {
            ans = -2;
            what = x.what();
        } catch (std::exception &x) {
            rp.violation("contains-exception(" + kind(*r) + ")",
                         "contains(" + p.name + ") on " + sstr(r) + " threw non-library exception " + x.what());
        }
        if (ans >= 0) {
            c.count(K_CONTAINS_ATOM);
            if (got >= 0 && ans != got) {
                const char *pk = p.kind == RAT ? "rational" : p.kind == IRR ? "irrational" : p.kind == NONREAL ? "non-real" : "non-number";
                rp.violation("contains(" + kind(*r) + ")@" + pk,
                             "(" + sstr(r) + ")->contains(" + p.name + ") = " + (ans ? "True" : "False") + " but the set [" + key(*r)
                                 + "] denotes " + mstr(got) + "; set obtained by " + recipe);
            }
        } else if (ans == -1)
            c.count(K_CONTAINS_SYMBOLIC);
        else if (ans == -2)
            c.count(K_CONTAINS_THROW);
    }
    if (judged)
        c.count(K_JUDGED);
    if (unknown)
        c.count(K_RESULT_UNKNOWN_NODE);
}

static StateSet SS;

static void check_transition(Rep &rp, Ctx &c, int op, int ia, int ib)
{
    const State &A = SS.S[ia], &B = SS.S[ib];
    std::string recipe = std::string(OPN[op]) + " with a=" + A.recipe + ", b=" + B.recipe;
    std::string ksig = kind(*A.e) + "," + kind(*B.e);
    c.eval();
    RCP<const Set> r;
    try {
        r = apply(op, A.e, B.e);
    } catch (SymEngineException &x) {
        c.count(K_REFUSED);
        rp.outcome(std::string("throw:") + x.what());
        return;
    } catch (std::exception &x) {
        rp.violation(std::string("exception:") + OPS[op] + "(" + ksig + ")", recipe + " threw non-library exception " + x.what());
        return;
    }
    std::string rk = key(*r);
    if (rk != A.key && rk != B.key && r->get_type_code() != (op <= U_F ? SYMENGINE_UNION : op <= I_F ? SYMENGINE_INTERSECTION : SYMENGINE_COMPLEMENT))
        c.nontrivial();
    rp.outcome(std::string(OPS[op]) + "(" + kind(*A.e) + "," + kind(*B.e) + ")->" + kind_deep(*r));
    judge(rp, c, OPS[op], ksig, recipe, r, {A.e.get(), B.e.get()},
          [&](const Pt &p) { return sem(op, memb(*A.e, p), memb(*B.e, p)); });
    if (c.index % 4001 == 0)
        rp.sample("{\"recipe\":" + jstr(recipe) + ",\"result\":" + jstr(sstr(r)) + "}");
}

// ------------------------------------------------------------------ piece-list model for sup/inf/boundary/...
struct Piece {
    ExtReal lo, hi;
    bool lo_open, hi_open;
};
static ExtReal er(const mpq_class &q)
{
    ExtReal e;
    e.v = q;
    return e;
}
static ExtReal einf(int s)
{
    ExtReal e;
    e.inf = s;
    return e;
}
// tree -> pieces; false when the tree is outside the interval/finite fragment
static bool to_pieces(const Basic &s, std::vector<Piece> &out)
{
    switch (s.get_type_code()) {
        case SYMENGINE_EMPTYSET:
            return true;
        case SYMENGINE_REALS:
            out.push_back({einf(-1), einf(1), true, true});
            return true;
        case SYMENGINE_INTERVAL: {
            const Interval &iv = down_cast<const Interval &>(s);
            Piece p;
            if (!to_extreal(*iv.get_start(), p.lo) || !to_extreal(*iv.get_end(), p.hi) || p.lo.is_float || p.hi.is_float)
                return false;
            p.lo_open = iv.get_left_open() || p.lo.inf;
            p.hi_open = iv.get_right_open() || p.hi.inf;
            if (cmp(p.lo, p.hi) > 0 || (cmp(p.lo, p.hi) == 0 && (p.lo_open || p.hi_open)))
                return true; // empty
            out.push_back(p);
            return true;
        }
        case SYMENGINE_FINITESET:
            for (auto &el : down_cast<const FiniteSet &>(s).get_container()) {
                ExtReal v;
                if (!to_extreal(*el, v) || v.inf || v.is_float)
                    return false;
                out.push_back({v, v, false, false});
            }
            return true;
        case SYMENGINE_UNION:
            for (auto &a : down_cast<const Union &>(s).get_container())
                if (!to_pieces(*a, out))
                    return false;
            return true;
        default:
            return false;
    }
}
static std::vector<Piece> normalize(std::vector<Piece> v)
{
    std::sort(v.begin(), v.end(), [](const Piece &a, const Piece &b) {
        int c = cmp(a.lo, b.lo);
        if (c)
            return c < 0;
        return a.lo_open < b.lo_open;
    });
    std::vector<Piece> o;
    for (auto &p : v) {
        if (!o.empty()) {
            Piece &l = o.back();
            int c = cmp(p.lo, l.hi);
            if (c < 0 || (c == 0 && !(p.lo_open && l.hi_open))) { // overlap or touch with the point covered
                int d = cmp(p.hi, l.hi);
                if (d > 0) {
                    l.hi = p.hi;
                    l.hi_open = p.hi_open;
                } else if (d == 0)
                    l.hi_open = l.hi_open && p.hi_open;
                continue;
            }
        }
        o.push_back(p);
    }
    return o;
}
static int memb_pieces(const std::vector<Piece> &v, const Pt &p)
{
    if (p.kind != RAT && p.kind != IRR)
        return 0;
    ExtReal x = er(p.q);
    for (auto &pc : v) {
        int cl = cmp(x, pc.lo), ch = cmp(x, pc.hi);
        if (p.kind == IRR && (cl == 0 || ch == 0))
            return -1;
        if (cl < 0 || ch > 0)
            continue;
        if (cl == 0 && pc.lo_open)
            continue;
        if (ch == 0 && pc.hi_open)
            continue;
        return 1;
    }
    return 0;
}
static std::string pieces_str(const std::vector<Piece> &v)
{
    if (v.empty())
        return "{}";
    std::string o;
    auto es = [](const ExtReal &e) { return e.inf ? std::string(e.inf > 0 ? "oo" : "-oo") : e.v.get_str(); };
    for (auto &p : v) {
        if (!o.empty())
            o += " u ";
        if (cmp(p.lo, p.hi) == 0)
            o += "{" + es(p.lo) + "}";
        else
            o += std::string(p.lo_open ? "(" : "[") + es(p.lo) + "," + es(p.hi) + (p.hi_open ? ")" : "]");
    }
    return o;
}
static std::string er_str(const ExtReal &e)
{
    return e.inf ? std::string(e.inf > 0 ? "oo" : "-oo") : e.v.get_str();
}

// model sup/inf by the definition sup(A u B) = max(sup A, sup B); false = model does not cover
static bool model_supinf(const Basic &s, bool want_sup, ExtReal &out)
{
    switch (s.get_type_code()) {
        case SYMENGINE_REALS:
        case SYMENGINE_RATIONALS:
        case SYMENGINE_INTEGERS:
            out = einf(want_sup ? 1 : -1);
            return true;
        case SYMENGINE_NATURALS:
            out = want_sup ? einf(1) : er(1);
            return true;
        case SYMENGINE_NATURALS0:
            out = want_sup ? einf(1) : er(0);
            return true;
        case SYMENGINE_INTERVAL:
        case SYMENGINE_FINITESET: {
            std::vector<Piece> v;
            if (!to_pieces(s, v) || v.empty())
                return false;
            v = normalize(v);
            out = want_sup ? v.back().hi : v.front().lo;
            if (want_sup)
                for (auto &p : v)
                    if (cmp(p.hi, out) > 0)
                        out = p.hi;
            return true;
        }
        case SYMENGINE_UNION: {
            bool first = true;
            for (auto &a : down_cast<const Union &>(s).get_container()) {
                ExtReal x;
                if (!model_supinf(*a, want_sup, x))
                    return false;
                if (first || (want_sup ? cmp(x, out) > 0 : cmp(x, out) < 0))
                    out = x;
                first = false;
            }
            return !first;
        }
        default:
            return false;
    }
}

enum Fn { F_SUP, F_INF, F_BOUNDARY, F_INTERIOR, F_CLOSURE, NFN };
static const char *FNN[] = {"sup", "inf", "boundary", "interior", "closure"};

// expected membership of boundary/interior/closure (topology of the real line) for the covered trees
static bool model_topo(const Basic &s, int fn, std::function<int(const Pt &)> &exp, std::string &shown)
{
    auto fixed = [&](const RCP<const Set> &t, const char *name) {
        exp = [t](const Pt &p) { return memb(*t, p); };
        shown = name;
        return true;
    };
    switch (s.get_type_code()) {
        case SYMENGINE_INTEGERS:
        case SYMENGINE_NATURALS:
        case SYMENGINE_NATURALS0: {
            RCP<const Set> self = rcp_static_cast<const Set>(s.rcp_from_this());
            if (fn == F_INTERIOR)
                return fixed(emptyset(), "EmptySet");
            return fixed(self, "the set itself");
        }
        case SYMENGINE_RATIONALS:
            if (fn == F_INTERIOR)
                return fixed(emptyset(), "EmptySet");
            return fixed(reals(), "Reals");
        default:
            break;
    }
    std::vector<Piece> v;
    if (!to_pieces(s, v))
        return false;
    v = normalize(v);
    std::vector<Piece> m;
    if (fn == F_CLOSURE) {
        for (auto p : v) {
            p.lo_open = p.lo.inf != 0;
            p.hi_open = p.hi.inf != 0;
            m.push_back(p);
        }
        m = normalize(m);
    } else if (fn == F_INTERIOR) {
        for (auto p : v) {
            p.lo_open = p.hi_open = true;
            if (cmp(p.lo, p.hi) < 0)
                m.push_back(p);
        }
    } else {
        for (auto &p : v) {
            if (!p.lo.inf)
                m.push_back({p.lo, p.lo, false, false});
            if (!p.hi.inf)
                m.push_back({p.hi, p.hi, false, false});
        }
        m = normalize(m);
    }
    exp = [m](const Pt &p) { return memb_pieces(m, p); };
    shown = pieces_str(m);
    return true;
}

// static points + every number of the trees + midpoints of the gaps between consecutive numbers
static std::vector<Pt> cell_points(const std::vector<const Basic *> &trees)
{
    std::set<mpq_class> nums;
    for (auto t : trees)
        collect_numbers(*t, nums);
    for (auto &p : P)
        if (p.kind == RAT)
            nums.insert(p.q);
    std::vector<mpq_class> sorted(nums.begin(), nums.end());
    std::set<mpq_class> all(nums);
    for (size_t i = 0; i + 1 < sorted.size(); i++)
        all.insert((sorted[i] + sorted[i + 1]) / 2);
    all.insert(sorted.front() - 1);
    all.insert(sorted.back() + 1);
    std::vector<Pt> pts;
    for (auto &q : all)
        pts.push_back(mkrat(q));
    for (auto &p : P)
        if (p.kind != RAT)
            pts.push_back(p);
    return pts;
}

// kind for the set-function signatures: a Union whose interval/finite members touch or overlap
// (the library left them unmerged) is a class of its own
static std::string fkind(const Basic &s)
{
    if (is_a<Union>(s)) {
        std::vector<Piece> v;
        if (to_pieces(s, v) && normalize(v).size() < v.size())
            return "Union-with-touching-members";
    }
    return kind(s);
}
static void check_func(Rep &rp, Ctx &c, int fn, int is)
{
    const State &A = SS.S[is];
    const Set &s = down_cast<const Set &>(*A.e);
    std::string recipe = std::string(FNN[fn]) + "(" + sstr(A.e) + ") [set obtained by " + A.recipe + "]";
    c.eval();
    if (fn == F_SUP || fn == F_INF) {
        RCP<const Basic> r;
        try {
            r = fn == F_SUP ? sup(s) : inf(s);
        } catch (SymEngineException &x) {
            c.count(K_F_REFUSED);
            rp.outcome(std::string(FNN[fn]) + ":throw:" + x.what());
            return;
        } catch (std::exception &x) {
            rp.violation(std::string("exception:") + FNN[fn] + "(" + fkind(s) + ")", recipe + " threw " + x.what());
            return;
        }
        if (r.is_null()) {
            // the visitor's fallback leaves the result unset
            rp.violation(std::string("null-result:") + FNN[fn] + "(" + fkind(s) + ")", recipe + " returned a null RCP");
            return;
        }
        ExtReal want, got;
        if (!model_supinf(s, fn == F_SUP, want)) {
            c.count(K_F_SKIPPED);
            return;
        }
        c.nontrivial();
        rp.outcome(std::string(FNN[fn]) + "(" + kind(s) + ")->" + type_code_name(r->get_type_code()));
        if (!to_extreal(*r, got)) {
            c.count(K_F_UNDECIDED);
            return;
        }
        c.count(K_F_JUDGED);
        if (cmp(want, got) != 0)
            rp.violation(std::string(FNN[fn]) + "(" + fkind(s) + ")",
                         recipe + " = " + sstr(r) + " but the set [" + A.key + "] has " + FNN[fn] + " " + er_str(want));
        return;
    }
    RCP<const Set> r;
    try {
        r = fn == F_BOUNDARY ? boundary(s) : fn == F_INTERIOR ? interior(s) : closure(s);
    } catch (SymEngineException &x) {
        c.count(K_F_REFUSED);
        rp.outcome(std::string(FNN[fn]) + ":throw:" + x.what());
        return;
    } catch (std::exception &x) {
        rp.violation(std::string("exception:") + FNN[fn] + "(" + fkind(s) + ")", recipe + " threw " + x.what());
        return;
    }
    if (r.is_null()) {
        rp.violation(std::string("null-result:") + FNN[fn] + "(" + fkind(s) + ")", recipe + " returned a null RCP");
        return;
    }
    std::function<int(const Pt &)> exp;
    std::string shown;
    if (!model_topo(s, fn, exp, shown)) {
        c.count(K_F_SKIPPED);
        return;
    }
    c.nontrivial();
    rp.outcome(std::string(FNN[fn]) + "(" + kind(s) + ")->" + kind_deep(*r));
    std::vector<Pt> pts = cell_points({A.e.get(), r.get()});
    bool judged = false;
    for (auto &p : pts) {
        int want = exp(p), got = memb(*r, p);
        if (want < 0 || got < 0) {
            c.count(K_POINTS_UNDECIDED);
            continue;
        }
        judged = true;
        c.count(K_POINTS);
        if (want != got) {
            rp.violation(std::string(FNN[fn]) + "(" + fkind(s) + ")",
                         recipe + " = " + sstr(r) + " [" + key(*r) + "] but the " + FNN[fn] + " is " + shown + "; point " + p.name
                             + " expected " + mstr(want) + ", returned set denotes " + mstr(got));
            break;
        }
    }
    c.count(judged ? K_F_JUDGED : K_F_UNDECIDED);
}

int main(int argc, char **argv)
{
    init(argc, argv, "C27");
    bool thorough = opts().thorough();
    Run &R = run();

    // ---- test points
    for (const char *q : {"-1", "-1/2", "0", "1/2", "1", "5/4", "3/2", "7/4", "2", "5/2", "3", "7/2", "4", "5", "11/2", "6"})
        P.push_back(mkrat(mpq_class(q)));
    RCP<const Basic> s2 = sqrt(integer(2));
    P.push_back(mkirr("-sqrt(2)", neg(s2), -1.4142135623730951));
    P.push_back(mkirr("sqrt(2)/2", div(s2, integer(2)), 0.70710678118654752));
    P.push_back(mkirr("sqrt(2)", s2, 1.4142135623730951));
    P.push_back(mkirr("sqrt(3)", sqrt(integer(3)), 1.7320508075688772));
    P.push_back(mkirr("sqrt(5)", sqrt(integer(5)), 2.2360679774997897));
    P.push_back(mkirr("pi", pi, 3.1415926535897932));
    P.push_back(mkirr("2*pi", mul(integer(2), pi), 6.2831853071795865));
    P.push_back(mkother(NONREAL, "I", I));
    P.push_back(mkother(NONREAL, "1+I", add(one, I)));
    P.push_back(mkother(OBJ, "EmptySet(as an element)", emptyset()));

    // ---- leaves
    std::vector<std::pair<std::string, RCP<const Basic>>> leaves;
    leaves.push_back({"EmptySet", emptyset()});
    leaves.push_back({"UniversalSet", universalset()});
    leaves.push_back({"Naturals", naturals()});
    leaves.push_back({"Naturals0", naturals0()});
    leaves.push_back({"Integers", integers()});
    leaves.push_back({"Rationals", rationals()});
    leaves.push_back({"Reals", reals()});
    leaves.push_back({"Complexes", complexes()});
    {
        std::vector<std::pair<std::string, RCP<const Number>>> ends = {{"-oo", NegInf}, {"0", integer(0)}, {"1", integer(1)},
                                                                       {"2", integer(2)},  {"3", integer(3)}, {"oo", Inf}};
        for (size_t i = 0; i < ends.size(); i++)
            for (size_t j = i + 1; j < ends.size(); j++)
                for (int lo = 0; lo < 2; lo++)
                    for (int ro = 0; ro < 2; ro++) {
                        bool li = i == 0, ri = j == ends.size() - 1;
                        if ((li && !lo) || (ri && !ro))
                            continue; // infinite endpoints are always open
                        std::string nm = std::string(lo ? "(" : "[") + ends[i].first + "," + ends[j].first + (ro ? ")" : "]");
                        if (!thorough && (li || ri)) {
                            // quick: 7 of the 17 intervals with an infinite endpoint
                            static const std::set<std::string> pick = {"(-oo,0)", "(-oo,1]", "(-oo,2)", "(1,oo)", "[2,oo)", "(3,oo)", "(-oo,oo)"};
                            if (!pick.count(nm))
                                continue;
                        }
                        leaves.push_back({nm, interval(ends[i].second, ends[j].second, lo, ro)});
                    }
        std::vector<std::pair<std::string, RCP<const Basic>>> el = {{"0", integer(0)},
                                                                    {"1", integer(1)},
                                                                    {"3/2", Rational::from_two_ints(3, 2)},
                                                                    {"2", integer(2)},
                                                                    {"5", integer(5)}};
        for (int m = 1; m < 32; m++) {
            if (!thorough && __builtin_popcount(m) > 2 && m != 31)
                continue; // quick: singletons, pairs and the full set
            set_basic c;
            std::string n;
            for (int b = 0; b < 5; b++)
                if (m >> b & 1) {
                    c.insert(el[b].second);
                    n += (n.empty() ? "" : ",") + el[b].first;
                }
            leaves.push_back({"{" + n + "}", finiteset(c)});
        }
    }
    for (auto &l : leaves)
        SS.add(l.second, l.first, 0);
    const long long n0 = SS.size();
    R.counters["states_S0(leaves)"] = n0;

    auto crash_cls = [&](int op, int ia, int ib) {
        return std::string(OPN[op]) + " with a:" + kind_deep(*SS.S[ia].e) + ", b:" + kind_deep(*SS.S[ib].e);
    };

    // A layer = a probe pass (the first case of every operand-kind class) followed by the full pass.
    // Classes whose probe hung or crashed are quarantined: their other members are counted, not run
    // (every death costs a process; the class is reported once through its probe).
    struct Layer {
        std::string name;
        long long n = 0;
        std::function<std::string(long long)> desc, cls;
        std::function<void(long long, Rep &, Ctx &)> runcase;
        std::set<long long> bad; // out: violating, dead or quarantined indices
        uint64_t quarantined = 0, classes = 0, dead_classes = 0;
    };
    auto run_layer = [&](Layer &ly, bool force_real) {
        // force_real: a later case set is being replayed and needs this layer's outcome
        long long keep = opts().only_index;
        bool rp_probe = replaying() && opts().only_check == ly.name + "/probe";
        bool rp_full = replaying() && opts().only_check == ly.name;
        std::vector<int> cid(ly.n);
        std::vector<long long> rep;
        {
            std::unordered_map<std::string, int> ids;
            for (long long k = 0; k < ly.n; k++) {
                std::string cl = ly.cls(k);
                auto it = ids.find(cl);
                if (it == ids.end()) {
                    it = ids.emplace(cl, (int)rep.size()).first;
                    rep.push_back(k);
                }
                cid[k] = it->second;
            }
        }
        ly.classes = rep.size();
        volatile char *dead = (volatile char *)mmap(nullptr, rep.size() + 1, PROT_READ | PROT_WRITE, MAP_SHARED | MAP_ANONYMOUS, -1, 0);
        CaseSet pr;
        pr.name = ly.name + "/probe";
        pr.n = rep.size();
        pr.counter_names = CN;
        pr.hang_s = 900;
        pr.desc = [&](long long j) { return ly.desc(rep[j]); };
        pr.body = [&](long long j, Ctx &c) {
            batched(
                c, pr, j, [&](long long jj, Rep &r) { ly.runcase(rep[jj], r, c); }, [&](long long jj) { return ly.cls(rep[jj]); }, dead);
        };
        if ((force_real || rp_full) && replaying())
            opts().only_index = -1;
        run_cases(pr);
        opts().only_index = keep;
        if (rp_probe)
            return;
        for (auto j : pr.bad)
            ly.bad.insert(rep[j]);
        for (size_t j = 0; j < rep.size(); j++)
            if (dead[j])
                ly.dead_classes++;
        CaseSet fu;
        fu.name = ly.name;
        fu.n = ly.n;
        fu.counter_names = CN;
        fu.hang_s = 900;
        fu.desc = ly.desc;
        auto fullcase = [&](long long k, Rep &r, Ctx &c) {
            if (rep[cid[k]] == k) {
                c.count(K_PROBED);
                return;
            }
            if (dead[cid[k]]) {
                c.count(K_QUARANTINED);
                return;
            }
            ly.runcase(k, r, c);
        };
        fu.body = [&](long long k, Ctx &c) {
            batched(
                c, fu, k, [&](long long kk, Rep &r) { fullcase(kk, r, c); }, ly.cls, nullptr);
        };
        if (force_real && replaying())
            opts().only_index = -1;
        run_cases(fu);
        opts().only_index = keep;
        for (auto k : fu.bad)
            ly.bad.insert(k);
        for (long long k = 0; k < ly.n; k++)
            if (dead[cid[k]]) {
                ly.bad.insert(k);
                if (rep[cid[k]] != k)
                    ly.quarantined++;
            }
        R.counters[ly.name + ":operand_kind_classes"] = ly.classes;
        R.counters[ly.name + ":classes_quarantined_after_probe_death"] = ly.dead_classes;
        munmap((void *)dead, rep.size() + 1);
    };
    auto replay_in = [&](const std::string &nm) { return replaying() && (opts().only_check == nm || opts().only_check == nm + "/probe"); };

    // ---- layer 1: every binary operation on every ordered pair of leaves
    Layer l1;
    l1.name = "L1:op(S0,S0)";
    l1.n = n0 * n0 * NOPS;
    auto dec1 = [&](long long i, int &op, int &ia, int &ib) {
        op = i % NOPS;
        ib = (i / NOPS) % n0;
        ia = i / NOPS / n0;
    };
    l1.desc = [&](long long i) {
        int op, ia, ib;
        dec1(i, op, ia, ib);
        return std::string(OPN[op]) + " with a=" + SS.S[ia].recipe + ", b=" + SS.S[ib].recipe;
    };
    l1.cls = [&](long long i) {
        int op, ia, ib;
        dec1(i, op, ia, ib);
        return crash_cls(op, ia, ib);
    };
    l1.runcase = [&](long long i, Rep &rp, Ctx &c) {
        int op, ia, ib;
        dec1(i, op, ia, ib);
        check_transition(rp, c, op, ia, ib);
    };
    run_layer(l1, replaying() && !replay_in(l1.name));
    if (replay_in(l1.name))
        return R.finish();

    // S1 from the transitions that survived (no violation, crash, hang or quarantine)
    auto short_recipe = [&](int op, int ia, int ib) {
        const char *sn[] = {"U", "U'", "I", "I'", "\\"};
        return "(" + SS.S[ia].recipe + " " + sn[op] + " " + SS.S[ib].recipe + ")";
    };
    for (long long i = 0; i < l1.n; i++) {
        if (l1.bad.count(i))
            continue;
        int op, ia, ib;
        dec1(i, op, ia, ib);
        try {
            SS.add(apply(op, SS.S[ia].e, SS.S[ib].e), short_recipe(op, ia, ib), 1);
        } catch (std::exception &) {
        }
    }
    const long long n1 = SS.size();
    R.counters["states_S1"] = n1;
    std::string bound = "every binary operation on all ordered pairs of the " + std::to_string(n0) + " leaves";

    // ---- set functions on every state of S1
    Layer fc;
    fc.name = "F:setfunc(S1)";
    fc.n = n1 * NFN;
    fc.desc = [&](long long i) { return std::string(FNN[i % NFN]) + "(" + SS.S[i / NFN].recipe + ")"; };
    fc.cls = [&](long long k) { return std::string(FNN[k % NFN]) + "(" + kind_deep(*SS.S[k / NFN].e) + (fkind(*SS.S[k / NFN].e) != kind(*SS.S[k / NFN].e) ? "-touching" : "") + ")"; };
    fc.runcase = [&](long long k, Rep &rp, Ctx &c) { check_func(rp, c, k % NFN, k / NFN); };
    if (!past_deadline()) {
        run_layer(fc, false);
        if (replay_in(fc.name))
            return R.finish();
        bound += "; sup/inf/boundary/interior/closure on all " + std::to_string(n1) + " states of S1";
    }

    // ---- layer 2: composite states against a leaf subset, both orders
    std::vector<int> sub; // leaf subset S0'
    {
        static const std::set<std::string> pickq = {"EmptySet", "UniversalSet", "Naturals", "Integers", "Rationals", "Reals", "Complexes",
                                                    "[0,1]", "(0,1)", "[1,2)", "(1,3]", "[2,3]", "(-oo,1]", "[2,oo)", "(-oo,oo)",
                                                    "{0}", "{1}", "{3/2}", "{0,2}", "{1,5}", "{0,1,3/2,2,5}"};
        for (int i = 0; i < n0; i++)
            if (pickq.count(SS.S[i].recipe))
                sub.push_back(i);
    }
    // composite side: the first 3 states of every structural class (kind_deep) of S1 \ S0, simplest first
    std::vector<int> comp;
    {
        std::map<std::string, int> per;
        for (long long i = n0; i < n1; i++)
            if (per[kind_deep(*SS.S[i].e)]++ < 3)
                comp.push_back(i);
    }
    R.counters["states_S1_composite_classes_x3(L2_operands)"] = comp.size();
    const long long ns = sub.size(), nc = comp.size();
    Layer l2;
    l2.name = "L2:op(S1,S0')+op(S0',S1)";
    l2.n = nc * ns * 2 * NOPS;
    auto dec2 = [&](long long i, int &op, int &ia, int &ib) {
        op = i % NOPS;
        long long j = i / NOPS;
        int dir = j % 2;
        j /= 2;
        int leaf = sub[j % ns];
        int big = comp[j / ns];
        ia = dir ? leaf : big;
        ib = dir ? big : leaf;
    };
    l2.desc = [&](long long i) {
        int op, ia, ib;
        dec2(i, op, ia, ib);
        return std::string(OPN[op]) + " with a=" + SS.S[ia].recipe + ", b=" + SS.S[ib].recipe;
    };
    l2.cls = [&](long long i) {
        int op, ia, ib;
        dec2(i, op, ia, ib);
        return crash_cls(op, ia, ib);
    };
    l2.runcase = [&](long long i, Rep &rp, Ctx &c) {
        int op, ia, ib;
        dec2(i, op, ia, ib);
        check_transition(rp, c, op, ia, ib);
    };
    if (thorough && !past_deadline()) {
        run_layer(l2, false);
        if (replay_in(l2.name))
            return R.finish();
        bound += "; every binary operation between " + std::to_string(nc) + " composite states of S1 (the first 3 of every structural class) and each of "
                 + std::to_string(ns) + " leaves, both orders";
    }

    // ---- n-ary functions with three operands over leaves
    {
        std::vector<int> t3;
        {
            static const std::set<std::string> pickq = {"EmptySet", "UniversalSet", "Naturals0", "Integers", "Rationals", "Reals", "[0,1]",
                                                        "(0,1)", "[1,2)", "(1,3]", "[2,3]", "(0,2)", "(-oo,1]", "[2,oo)", "{0}",
                                                        "{1}", "{3/2}", "{0,2}", "{1,5}", "{0,1,3/2,2,5}"};
            static const std::set<std::string> pickt = {"Naturals", "Complexes", "(0,1]", "[1,2]", "(1,2)", "[0,3]", "(2,3)", "(-oo,0)",
                                                        "(3,oo)", "(-oo,oo)", "{2}", "{0,1}", "{3/2,2}", "{0,1,2}"};
            for (int i = 0; i < n0; i++) {
                const std::string &nm = SS.S[i].recipe;
                if (pickq.count(nm) || (thorough && pickt.count(nm)))
                    t3.push_back(i);
            }
        }
        const long long m = t3.size();
        // one representative per multiset {a<=b<=c} (set_set is unordered)
        std::vector<std::array<int, 3>> tri;
        for (int a = 0; a < m; a++)
            for (int b = a; b < m; b++)
                for (int cc = b; cc < m; cc++)
                    tri.push_back({t3[a], t3[b], t3[cc]});
        Layer l3;
        l3.name = "N3:nary(S0'',S0'',S0'')";
        l3.n = (long long)tri.size() * 2;
        l3.desc = [&](long long i) {
            auto &t = tri[i / 2];
            return std::string(i % 2 ? "set_intersection" : "set_union") + "({" + SS.S[t[0]].recipe + ", " + SS.S[t[1]].recipe + ", "
                   + SS.S[t[2]].recipe + "})";
        };
        l3.cls = [&](long long i) {
            auto &t = tri[i / 2];
            return std::string(i % 2 ? "set_intersection" : "set_union") + "{" + kind(*SS.S[t[0]].e) + "," + kind(*SS.S[t[1]].e) + ","
                   + kind(*SS.S[t[2]].e) + "}";
        };
        l3.runcase = [&](long long k, Rep &rp, Ctx &c) {
            auto &t = tri[k / 2];
            int op = k % 2, a = t[0], b = t[1], cc = t[2];
            if (a == b || b == cc)
                c.count(K_NARY_DUP);
            std::string ks = kind(*SS.S[a].e) + "," + kind(*SS.S[b].e) + "," + kind(*SS.S[cc].e);
            std::string fnm = op ? "set_intersection" : "set_union";
            c.eval();
            RCP<const Set> A = S_(SS.S[a].e), B = S_(SS.S[b].e), C = S_(SS.S[cc].e), r;
            try {
                r = op ? set_intersection({A, B, C}) : set_union({A, B, C});
            } catch (SymEngineException &x) {
                c.count(K_REFUSED);
                rp.outcome(std::string("throw:") + x.what());
                return;
            } catch (std::exception &x) {
                rp.violation("exception:" + fnm + "{" + ks + "}", l3.desc(k) + " threw non-library exception " + x.what());
                return;
            }
            c.nontrivial();
            rp.outcome(fnm + "{3}->" + kind_deep(*r));
            judge(rp, c, fnm, "{" + ks + "}", l3.desc(k), r, {A.get(), B.get(), C.get()}, [&](const Pt &p) {
                int x = op ? I_F : U_F;
                return sem(x, sem(x, memb(*A, p), memb(*B, p)), memb(*C, p));
            });
        };
        if (!past_deadline()) {
            run_layer(l3, false);
            if (replay_in(l3.name))
                return R.finish();
            bound += "; n-ary set_union/set_intersection on every multiset of 3 out of " + std::to_string(m) + " leaves";
        }
    }

    R.states = SS.size();
    R.transitions = R.evaluations;
    R.bound_completed = bound + " (operand-kind classes whose first member hung or crashed are quarantined: counted, not run)";
    R.counters["test_points_static"] = P.size();
    R.rule = "E1: leaves = intervals with endpoints in {-oo,0,1,2,3,oo} x openness, finite subsets of {0,1,3/2,2,5}, EmptySet, UniversalSet, "
             "N, N0, Z, Q, R, C; ops a->set_union(b), set_union({a,b}), a->set_intersection(b), set_intersection({a,b}), "
             "set_complement(a,b); each transition runs in a forked sub-process under a CPU limit and its result tree is interpreted by an "
             "independent membership evaluator at 26 static points (16 rationals covering every breakpoint and an integer and a "
             "non-integer in every gap, 7 irrationals, I, 1+I, a non-number) plus any new number of the result tree, and compared with "
             "the boolean combination of the operand memberships; contains() answers that are BooleanAtoms are compared with the "
             "denotation; sup/inf/boundary/interior/closure compared with a sorted piece-list model. distinct_nontrivial = transitions "
             "whose result is neither an operand nor the plain Union/Intersection/Complement node";
    R.assumptions = {"trusted: the driver's membership interpreter and piece-list model (GMP rationals)",
                     "membership of interval/finite sets is constant on the cells of the breakpoint partition, so the point test decides equality for them",
                     "floating-point endpoints/elements, symbolic elements, ConditionSet and ImageSet are not covered",
                     "topology of the real line for boundary/interior/closure; trees mixing number sets with intervals are skipped there",
                     "a case that exceeds 0.1 s of user CPU (healthy cases need < 1 ms) is reported as a hang"};
    return R.finish();
}
