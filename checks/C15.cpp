// C15  Generated C code computes the expression's value -- E1 terms + gcc (DESIGN 5 C15).
// Every term of the typed term algebra is printed by the C code printers, the text is compiled by
// gcc as the body of `double f(double x, double y)`, run on a 3x3 grid and compared with RealEval.
#include "common.h"
#include "checks/a13_harness.h"
#include <symengine/printers/codegen.h>
using namespace a13;

enum Variant { V_C99, V_C89, V_C99F, NVAR };
static const char *VNAME[NVAR] = {"c99", "c89", "c99f"};

static std::string print_variant(const Basic &e, int v)
{
    if (v == V_C99)
        return ccode(e); // = C99CodePrinter, double precision  (c99code() itself has no linkable definition)
    if (v == V_C99F)
        return ccode(e, CodePrinterPrecision::Float);
    C89CodePrinter p; // what c89code() does (declared in printers.h but never emitted by the library)
    return p.apply(e);
}

struct Item {
    RCP<const Basic> e;
    std::string recipe;
    int variant;
    int level;
};
static std::vector<Item> ITEMS;
static std::string WORKDIR;

enum {
    KC_FUNCS = 0,
    KC_POINTS,
    KC_SKIP0,
    KC_PRINT_REFUSED = KC_SKIP0 + SK_N,
    KC_SAME_TEXT,
    KC_UNCOMPILABLE,
    KC_STRICT_C89,
    KC_GCC_RUNS,
    KC_BOOL,
    KC_EXACT,
    KC_NAN_AT_JUDGED,
    KC_DEADLINE,
    KC_N
};

static int run_cmd(const std::string &cmd, std::string &out)
{
    FILE *p = popen((cmd + " 2>&1").c_str(), "r");
    if (!p)
        return -1;
    char buf[4096];
    size_t n;
    out.clear();
    while ((n = fread(buf, 1, sizeof buf, p)) > 0) {
        out.append(buf, n);
        if (out.size() > (64u << 20))
            break;
    }
    int st = pclose(p);
    return st;
}

static std::string oneline(std::string s)
{
    for (auto &ch : s)
        if (ch == '\n' || ch == '\r' || ch == '\t')
            ch = ' ';
    return s;
}

struct Fn {
    int item;         // index into ITEMS
    std::string code; // printed C expression
    bool stub = false;
};

static const int HEADER_LINES = 8;
static void write_c(const std::string &path, const std::vector<Fn> &fns, bool flt)
{
    FILE *f = fopen(path.c_str(), "w");
    const char *T = flt ? "float" : "double";
    fprintf(f, "#include <math.h>\n#include <stdio.h>\n");                                                    // 1,2
    fprintf(f, "#define EulerGamma 0.57721566490153286060651209008240243\n");                                  // 3
    fprintf(f, "#define Catalan 0.91596559417721901505460351493238411\n");                                     // 4
    fprintf(f, "#define GoldenRatio 1.6180339887498948482045868343656381\n");                                  // 5
    fprintf(f, "typedef %s (*fn_t)(%s, %s);\n", T, T, T);                                                      // 6
    fprintf(f, "static const double GX[3] = {-1.5, 0.5, 2.0}, GY[3] = {-0.75, 1.0, 3.0};\n");                  // 7
    fprintf(f, "/* one function per line follows */\n");                                                      // 8
    for (size_t i = 0; i < fns.size(); i++) {
        if (fns[i].stub)
            fprintf(f, "static %s f%zu(%s x, %s y) { return -777.25 + 0*(x+y); }\n", T, i, T, T);
        else
            fprintf(f, "static %s f%zu(%s x, %s y) { return %s; }\n", T, i, T, T, oneline(fns[i].code).c_str());
    }
    fprintf(f, "static fn_t TAB[] = {");
    for (size_t i = 0; i < fns.size(); i++)
        fprintf(f, "f%zu,", i);
    fprintf(f, "0};\n");
    fprintf(f, "int main(void) { int i, g; for (i = 0; TAB[i]; i++) for (g = 0; g < 9; g++) printf(\"%%a\\n\", (double)TAB[i]((%s)GX[g / 3], (%s)GY[g %% 3])); return 0; }\n", T, T);
    fclose(f);
}

// returns per-function compile errors: map function index -> first message
static std::map<int, std::string> parse_errors(const std::string &out, const std::string &cfile)
{
    std::map<int, std::string> bad;
    std::istringstream is(out);
    std::string line;
    while (std::getline(is, line)) {
        size_t p = line.find(cfile + ":");
        if (p != 0)
            continue;
        size_t a = cfile.size() + 1, b = line.find(':', a);
        if (b == std::string::npos)
            continue;
        int ln = atoi(line.substr(a, b - a).c_str());
        size_t e = line.find(" error: ");
        if (e == std::string::npos)
            continue;
        int idx = ln - HEADER_LINES - 1;
        if (idx >= 0 && !bad.count(idx))
            bad[idx] = line.substr(e + 8);
    }
    return bad;
}
static std::string errclass(std::string m)
{
    size_t p = m.find(" [-W");
    if (p != std::string::npos)
        m = m.substr(0, p);
    p = m.find("; did you mean");
    if (p != std::string::npos)
        m = m.substr(0, p);
    return m.substr(0, 80);
}

// Syntactic situations (read off codegen.cpp / strprinter.cpp) used only to NAME a violation class:
//  recip-fn-as-divisor      cot/csc/sec/coth/csch/sech are printed as "1/f(..)" by RewriteTrigVisitor but keep the
//                           precedence of a function call, so no parentheses are added when they are a divisor
//  int-piecewise-as-divisor a Piecewise whose branches are Integer literals under a division
static void features_rec(const Basic &e, bool denom, std::set<std::string> &out)
{
    TypeID t = e.get_type_code();
    bool recip = t == SYMENGINE_COT || t == SYMENGINE_CSC || t == SYMENGINE_SEC || t == SYMENGINE_COTH || t == SYMENGINE_CSCH || t == SYMENGINE_SECH;
    bool arecip = t == SYMENGINE_ACOT || t == SYMENGINE_ACSC || t == SYMENGINE_ASEC || t == SYMENGINE_ACOTH || t == SYMENGINE_ACSCH || t == SYMENGINE_ASECH;
    if (denom && recip)
        out.insert("recip-fn-as-divisor");
    if (denom && is_a<Piecewise>(e))
        for (auto &pr : down_cast<const Piecewise &>(e).get_vec())
            if (is_a<Integer>(*pr.first))
                out.insert("int-piecewise-as-divisor");
    auto neg = [](const Basic &x) { return is_a_Number(x) && down_cast<const Number &>(x).is_negative(); };
    if (is_a<Mul>(e)) {
        for (auto &p : down_cast<const Mul &>(e).get_dict()) {
            features_rec(*p.first, denom != neg(*p.second), out);
            features_rec(*p.second, false, out);
        }
        return;
    }
    if (is_a<Pow>(e)) {
        const Pow &p = down_cast<const Pow &>(e);
        features_rec(*p.get_base(), neg(*p.get_exp()) ? !denom : false, out);
        features_rec(*p.get_exp(), false, out);
        return;
    }
    for (auto &a : e.get_args())
        features_rec(*a, arecip, out);
}
static void leaf_features(const Basic &e, std::set<std::string> &out)
{
    if (is_a<ComplexDouble>(e))
        out.insert("complexdouble-literal");
    if (is_a<RealDouble>(e) && !std::isfinite(down_cast<const RealDouble &>(e).i))
        out.insert("nonfinite-realdouble-literal");
    if (is_a<Integer>(e) && fabsq(q_from_int(down_cast<const Integer &>(e).as_integer_class())) >= 0x1p64Q)
        out.insert("integer-literal-over-64-bits");
    if (is_a<Gamma>(e))
        out.insert("gamma");
    for (auto &a : e.get_args())
        leaf_features(*a, out);
}
// the single most specific class name for a violating expression ("" = none applies)
static std::string features(const Basic &e, int v)
{
    std::set<std::string> f;
    features_rec(e, false, f);
    leaf_features(e, f);
    if (f.count("complexdouble-literal"))
        return "complexdouble-literal";
    if (f.count("nonfinite-realdouble-literal"))
        return "nonfinite-realdouble-literal";
    if (f.count("integer-literal-over-64-bits") && v != V_C99F)
        return "integer-literal-over-64-bits";
    if (f.count("gamma") && v == V_C89)
        return "c89-prints-gamma-as-gamma()";
    if (f.count("recip-fn-as-divisor"))
        return "recip-fn-as-divisor";
    if (f.count("int-piecewise-as-divisor"))
        return "int-piecewise-as-divisor";
    return "";
}
// does the expression contain a number literal that a 15-digit decimal does not reproduce?
static bool has_long_literal(const Basic &e)
{
    if (is_a<RealDouble>(e)) {
        double d = down_cast<const RealDouble &>(e).i;
        return std::isfinite(d) && RealEval::through15(d) != d;
    }
    if (is_a<Rational>(e)) {
        const rational_class &q = down_cast<const Rational &>(e).as_rational_class();
        double n = (double)q_from_int(get_num(q)), d = (double)q_from_int(get_den(q));
        return RealEval::through15(n) != n || RealEval::through15(d) != d;
    }
    for (auto &a : e.get_args())
        if (has_long_literal(*a))
            return true;
    return false;
}

int main(int argc, char **argv)
{
    init(argc, argv, "C15");
    bool thorough = opts().thorough();
    Run &R = run();

    // ---- the term pool (de-duplicated to level 2: gcc time per term dominates)
    PoolCfg pc = pool_cfg(thorough ? 0 : -1);
    pc.maxn = 2;
    TermPool P;
    build_pool(P, pc, "pool");
    phase_log("C15", "pool " + std::to_string(P.V.size()) + "+" + std::to_string(P.B.size()) + " states");

    // ---- literal table (number formatting): each literal alone and in four contexts
    RCP<const Basic> x = symbol("x"), y = symbol("y");
    {
        auto I = [](const char *s) { return RCP<const Basic>(integer(integer_class(s))); };
        auto Q = [](const char *n, const char *d) {
            return RCP<const Basic>(Rational::from_two_ints(*integer(integer_class(n)), *integer(integer_class(d))));
        };
        std::vector<std::pair<std::string, RCP<const Basic>>> lits = {
            {"0.1+0.2 (double)", real_double(0.1 + 0.2)},
            {"1/3 (double)", real_double(1.0 / 3.0)},
            {"2/3 (double)", real_double(2.0 / 3.0)},
            {"123456789.123456789 (double)", real_double(123456789.123456789)},
            {"1e22 (double)", real_double(1e22)},
            {"1e-7/3 (double)", real_double(1e-7 / 3)},
            {"-2.5e-5 (double)", real_double(-2.5e-5)},
            {"1e15 (double)", real_double(1e15)},
            {"2^31-1", I("2147483647")},
            {"2^31", I("2147483648")},
            {"2^32", I("4294967296")},
            {"2^53+1", I("9007199254740993")},
            {"2^63-1", I("9223372036854775807")},
            {"2^63", I("9223372036854775808")},
            {"10^20", I("100000000000000000000")},
            {"-10^20", I("-100000000000000000000")},
            {"1/3", Q("1", "3")},
            {"-7/3", Q("-7", "3")},
            {"2^60/3", Q("1152921504606846976", "3")},
            {"1/10^20", Q("1", "100000000000000000000")},
            {"(10^20+1)/3", Q("100000000000000000001", "3")},
        };
        for (auto &l : lits)
            for (int ctx = 0; ctx < 5; ctx++) {
                RCP<const Basic> e;
                std::string rec;
                switch (ctx) {
                    case 0:
                        e = l.second;
                        rec = l.first;
                        break;
                    case 1:
                        e = add(x, l.second);
                        rec = "add(x, " + l.first + ")";
                        break;
                    case 2:
                        e = mul(l.second, x);
                        rec = "mul(" + l.first + ", x)";
                        break;
                    case 3:
                        e = pow(y, l.second);
                        rec = "pow(y, " + l.first + ")";
                        break;
                    default:
                        e = div(x, l.second);
                        rec = "div(x, " + l.first + ")";
                        break;
                }
                for (int v = 0; v < NVAR; v++)
                    ITEMS.push_back({e, "literal:" + rec, v, 0});
            }
    }
    const long long n_lit = ITEMS.size();
    // ---- pool items: all three variants; at level 2 the float variant only in the thorough tier, and c89
    //      only when its text differs from the c99 text (decided in the worker)
    auto add_state = [&](const State &S) {
        for (int v = 0; v < NVAR; v++) {
            if (v == V_C99F && S.depth >= 2 && !thorough)
                continue;
            ITEMS.push_back({S.e, S.recipe, v, S.depth});
        }
    };
    // simplest first: by level, values before booleans
    for (int lvl = 0; lvl <= 2; lvl++) {
        for (auto &S : P.V.S)
            if (S.depth == lvl)
                add_state(S);
        for (auto &S : P.B.S)
            if (S.depth == lvl)
                add_state(S);
    }
    const long long BATCH = 1500;
    WORKDIR = opts().root + "/build/run/C15files." + std::to_string(getpid());
    mkdir((opts().root + "/build").c_str(), 0755);
    mkdir((opts().root + "/build/run").c_str(), 0755);
    mkdir(WORKDIR.c_str(), 0755);
    setenv("LC_ALL", "C", 1);

    CaseSet cs;
    cs.name = "batches";
    cs.n = (ITEMS.size() + BATCH - 1) / BATCH;
    cs.hang_s = 900;
    cs.counter_names.resize(KC_N);
    cs.counter_names[KC_FUNCS] = "functions_compiled_and_run";
    cs.counter_names[KC_POINTS] = "points_compared_with_reference";
    for (int i = 0; i < SK_N; i++)
        cs.counter_names[KC_SKIP0 + i] = SKIPNAME[i];
    cs.counter_names[KC_PRINT_REFUSED] = "printer_refused(exception; outside the property)";
    cs.counter_names[KC_SAME_TEXT] = "c89_text_identical_to_c99_at_level2(not recompiled)";
    cs.counter_names[KC_UNCOMPILABLE] = "functions_gcc_rejected";
    cs.counter_names[KC_STRICT_C89] = "c89_functions_rejected_by_strict_-std=c89_only";
    cs.counter_names[KC_GCC_RUNS] = "gcc_invocations";
    cs.counter_names[KC_BOOL] = "points_with_boolean_reference";
    cs.counter_names[KC_EXACT] = "points_with_exact_reference(bit-exact demanded)";
    cs.counter_names[KC_NAN_AT_JUDGED] = "points_where_c_code_gave_nan_or_inf_but_reference_is_finite";
    cs.counter_names[KC_DEADLINE] = "batches_skipped_after_deadline";
    cs.desc = [&](long long b) {
        long long lo = b * BATCH, hi = std::min<long long>(ITEMS.size(), lo + BATCH);
        return "batch " + std::to_string(b) + ": items " + std::to_string(lo) + ".." + std::to_string(hi - 1) + " (first: " + VNAME[ITEMS[lo].variant] + " of "
               + ITEMS[lo].recipe + ")";
    };
    cs.crash_sig = [&](long long, const std::string &oc) { return "batch:" + oc; };
    cs.body = [&](long long b, Ctx &c) {
        long long lo = b * BATCH, hi = std::min<long long>(ITEMS.size(), lo + BATCH);
        if (past_deadline()) { // run_cases tests the deadline only every 64 rounds; a batch costs up to a minute
            c.count(KC_DEADLINE);
            return;
        }
        // group the batch by compile mode: 0 = c99 double, 1 = c89 double, 2 = c99 float
        for (int v = 0; v < NVAR; v++) {
            std::vector<Fn> fns;
            for (long long j = lo; j < hi; j++) {
                const Item &it = ITEMS[j];
                if (it.variant != v)
                    continue;
                std::string code;
                try {
                    code = print_variant(*it.e, v);
                    if (v == V_C89 && it.level >= 2 && code == print_variant(*it.e, V_C99)) {
                        c.count(KC_SAME_TEXT);
                        continue;
                    }
                } catch (SymEngineException &ex) {
                    c.count(KC_PRINT_REFUSED);
                    c.outcome(std::string(VNAME[v]) + ":refused:" + type_code_name(it.e->get_type_code()));
                    continue;
                }
                fns.push_back({(int)j, code, false});
            }
            if (fns.empty())
                continue;
            std::string base = WORKDIR + "/b" + std::to_string(b) + "_" + VNAME[v];
            std::string cfile = base + ".c", bin = base + ".bin", out;
            std::string strict = std::string("gcc -O0 -Werror=implicit-function-declaration -fmax-errors=0 ") + (v == V_C89 ? "-std=c89" : "-std=c99");
            std::string flags = strict;
            bool compiled = false;
            auto reject = [&](int k, const std::string &msg) {
                if (fns[k].stub)
                    return;
                const Item &it = ITEMS[fns[k].item];
                c.count(KC_UNCOMPILABLE);
                c.outcome(std::string(VNAME[v]) + ":uncompilable");
                std::string ft = features(*it.e, v);
                if (ft != "complexdouble-literal" && ft != "nonfinite-realdouble-literal")
                    ft = errclass(msg);
                c.violation(std::string(VNAME[v]) + ":uncompilable:" + ft,
                            std::string(VNAME[v]) + " code for " + it.recipe + " = `" + oneline(fns[k].code) + "` does not compile: " + msg);
                fns[k].stub = true;
                // gcc reports an undeclared function only at its first use in the translation unit: stub every other user too
                size_t q0 = msg.find("implicit declaration of function '");
                if (q0 != std::string::npos) {
                    size_t a = q0 + strlen("implicit declaration of function '"), b2 = msg.find('\'', a);
                    std::string fname = msg.substr(a, b2 - a) + "(";
                    for (size_t k2 = 0; k2 < fns.size(); k2++) {
                        size_t pos = fns[k2].code.find(fname);
                        bool whole = pos != std::string::npos && (pos == 0 || !(isalnum((unsigned char)fns[k2].code[pos - 1]) || fns[k2].code[pos - 1] == '_'));
                        if (!fns[k2].stub && whole) {
                            fns[k2].stub = true;
                            c.count(KC_UNCOMPILABLE);
                        }
                    }
                }
            };
            write_c(cfile, fns, v == V_C99F);
            if (v == V_C89) {
                // pass 0 (syntax only): strict ISO C89 headers do not declare the C99 math functions
                c.count(KC_GCC_RUNS);
                if (run_cmd(strict + " -fsyntax-only " + cfile, out) != 0)
                    for (auto &kv : parse_errors(out, cfile))
                        if (kv.second.find("implicit declaration of function") != std::string::npos) {
                            const Item &it = ITEMS[fns[kv.first].item];
                            c.count(KC_STRICT_C89);
                            c.violation("c89:not-c89:" + errclass(kv.second),
                                        "c89 code for " + it.recipe + " = `" + oneline(fns[kv.first].code) + "` is rejected by gcc -std=c89: " + kv.second);
                        }
                flags = strict + " -D_DEFAULT_SOURCE"; // the values are still checked, with the C99 functions declared
            }
            // compile and link; a failed run lists every rejected function (no code is generated), they become stubs
            for (int attempt = 0; attempt < 3 && !compiled; attempt++) {
                write_c(cfile, fns, v == V_C99F);
                c.count(KC_GCC_RUNS);
                if (run_cmd(flags + " -o " + bin + " " + cfile + " -lm", out) == 0) {
                    compiled = true;
                    break;
                }
                std::map<int, std::string> bad = parse_errors(out, cfile);
                if (bad.empty()) {
                    c.violation(std::string(VNAME[v]) + ":gcc-failed-without-locatable-error", "gcc failed for " + cs.desc(b) + ": " + out.substr(0, 400));
                    break;
                }
                for (auto &kv : bad)
                    reject(kv.first, kv.second);
            }
            if (!compiled)
                c.violation(std::string(VNAME[v]) + ":batch-could-not-be-compiled", "no executable for " + cs.desc(b) + " (machinery problem, values not judged)");
            if (compiled) {
                int st = run_cmd(bin, out);
                std::vector<double> vals;
                {
                    std::istringstream is(out);
                    std::string line;
                    while (std::getline(is, line))
                        vals.push_back(strtod(line.c_str(), nullptr));
                }
                if (st != 0 || vals.size() != fns.size() * 9) {
                    c.violation(std::string(VNAME[v]) + ":compiled-program-failed",
                                "program for " + cs.desc(b) + " exited with status " + std::to_string(st) + " and printed " + std::to_string(vals.size()) + " values");
                } else {
                    const NumCfg &num = v == V_C99F ? CFG_FLOAT : CFG_DOUBLE;
                    for (size_t k = 0; k < fns.size(); k++) {
                        if (fns[k].stub)
                            continue;
                        const Item &it = ITEMS[fns[k].item];
                        c.eval();
                        c.count(KC_FUNCS);
                        bool judged = false, violated = false;
                        int nj = 0;
                        for (int g = 0; g < 9; g++) {
                            NV ref = real_eval(*it.e, grid_point(g), num);
                            if (!ref.ok) {
                                c.count(KC_SKIP0 + skip_class(ref.why));
                                continue;
                            }
                            judged = true;
                            nj++;
                            c.count(KC_POINTS);
                            if (ref.isbool)
                                c.count(KC_BOOL);
                            else if (ref.err == 0)
                                c.count(KC_EXACT);
                            double got = vals[k * 9 + g];
                            if (!value_matches((rq)got, ref) && !violated) {
                                violated = true;
                                if (!std::isfinite(got))
                                    c.count(KC_NAN_AT_JUDGED);
                                bool lit = it.recipe.rfind("literal:", 0) == 0;
                                std::string cls;
                                // attribution (naming only): does the value agree with the expression in which every number
                                // literal was first rounded to 15 significant decimal digits?
                                if (has_long_literal(*it.e)) {
                                    NV alt = real_eval(*it.e, grid_point(g), num, true);
                                    if (alt.ok) {
                                        alt.err += 4 * num.u * fabsq(alt.v);
                                        if (value_matches((rq)got, alt))
                                            cls = "literal-rounded-to-15-digits";
                                    }
                                }
                                if (cls.empty()) {
                                    std::string ft = features(*it.e, v);
                                    if (!ft.empty())
                                        cls = ft;
                                    else if (lit)
                                        cls = "literal:" + skel(*it.e, 1);
                                    else
                                        cls = skel(*it.e, 2);
                                }
                                c.violation(std::string(VNAME[v]) + ":value-mismatch:" + cls,
                                            std::string(VNAME[v]) + " code for " + it.recipe + " (" + sstr(it.e) + ") = `" + oneline(fns[k].code) + "` at "
                                                + point_str(g) + ": compiled code gives " + tstr(got) + ", reference " + qstr(ref.v, 25) + " (allowed error "
                                                + qstr(4 * ref.err, 4) + ")");
                            }
                        }
                        c.outcome(std::string(VNAME[v]) + ":" + type_code_name(it.e->get_type_code()) + (nj == 9 ? ":all" : nj ? ":some" : ":none"));
                        if (judged && depends_on_symbols(*it.e))
                            c.nontrivial();
                        if (fns[k].item % 5003 == 0)
                            c.sample("{\"printer\":" + jstr(VNAME[v]) + ",\"term\":" + jstr(it.recipe) + ",\"code\":" + jstr(oneline(fns[k].code))
                                     + ",\"judged_points\":" + std::to_string(nj) + "}");
                    }
                }
            }
            if (!getenv("A13_KEEP")) {
                unlink(cfile.c_str());
                unlink(bin.c_str());
            }
        }
    };
    run_cases(cs);
    if (!getenv("A13_KEEP")) {
        std::string o;
        run_cmd("rm -rf " + WORKDIR, o);
    }
    phase_log("C15", "batches");
    uint64_t skipped = R.counters["batches_skipped_after_deadline"];
    if (skipped)
        R.exhaustive = false;

    R.states = P.V.size() + P.B.size();
    R.transitions = R.evaluations;
    R.counters["pool_value_states"] = P.V.size();
    R.counters["pool_boolean_states"] = P.B.size();
    R.counters["literal_items"] = n_lit;
    R.counters["items(term x printer)"] = ITEMS.size();
    R.bound_completed = "all distinct expressions with recipes of <= 2 operations over " + std::to_string(pc.leavesV.size()) + " value + "
                        + std::to_string(pc.leavesB.size()) + " boolean leaves (" + std::to_string(P.V.size()) + " value + " + std::to_string(P.B.size())
                        + " boolean states) x {ccode/c99 double, c89 (where its text differs at level 2)" + (thorough ? ", ccode float" : ", ccode float for <= 1 operation")
                        + "} x 3x3 grid; 21 number literals x 5 contexts x 3 printers"
                        + (skipped ? " -- CUT BY DEADLINE: " + std::to_string(skipped) + " of " + std::to_string(cs.n) + " batches (the highest-numbered ones; simplest terms come first) were not run" : "");
    R.rule = "E1 typed term algebra as in C13, de-duplicated by structural key; each term is printed by C99CodePrinter (ccode), C89CodePrinter and "
             "ccode(Float); the text becomes the body of `T f(T x, T y) { return <code>; }`, " + std::to_string(BATCH)
             + " terms per C file, compiled by gcc -O0 -std=c99|c89 -Werror=implicit-function-declaration -lm and run on x in {-1.5,0.5,2} x y in "
               "{-0.75,1,3}; outputs (hex doubles) are compared with RealEval within 4*delta (u = 2^-53, float 2^-24). Printer exceptions are counted as "
               "refusals; code gcc rejects is a violation. distinct_nontrivial = compiled functions depending on x or y judged at >= 1 point";
    R.assumptions = {"gcc 12 / glibc libm on x86-64 (SSE2 arithmetic, no excess precision)", "libquadmath / MPFR special functions",
                     "EulerGamma, Catalan and GoldenRatio are printed as bare identifiers; the harness #defines them (benefit of the doubt)",
                     "points where the value is non-real, non-finite, ill-conditioned or within delta of a discontinuity are skipped and counted",
                     "c89code()/c99code() are declared in printers.h but have no linkable definition (inline in codegen.cpp); the check instantiates "
                     "C89CodePrinter / uses ccode() instead"};
    return R.finish();
}
