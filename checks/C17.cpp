// C17  The parser implements conventional mathematical syntax -- E5 grammar enumeration (DESIGN 5 C17)
//
// Every abstract syntax tree (AST) with <= n leaf slots and <= u prefix operators over a leaf menu and an
// operator menu is printed by THIS driver's own minimal-parenthesis printer under the conventional
// precedence table, in 3 whitespace patterns x 2 parenthesis patterns, parsed by SymEngine::parse, and
// compared (structural key and eq) with the expression built directly from the AST through the API.
//
// conventional table used by the printer (lowest to highest):
//   1  + -   binary, left associative
//   2  * /   binary, left associative
//   3  - +   prefix (binds tighter than * /, looser than **;  -x**2 = -(x**2), x**-y = x**(-y))
//   4  ** ^  binary, right associative;  "2x**e" (number-identifier juxtaposition followed by a power)
//            denotes 2*(x**e)
//   5  atoms: integer literals (base 10 whatever the leading zeros), float literals, identifiers,
//            number-identifier juxtaposition "2x" (= 2*x as one unit: y/2x = y/(2*x), y**2x = y**(2*x),
//            (2x)**y = (2*x)**y)
#include "bigints.h"
#include "common.h"
#include "key.h"
#include <symengine/parser/parser.h>
using namespace verif;

// ------------------------------------------------------------------ leaves
enum LeafKind { L_INT, L_FLOAT, L_IDENT, L_IMPL };
struct Leaf {
    std::string text;
    LeafKind kind;
    std::string num, id; // for L_IMPL: numeric part and identifier
    bool leading_zero = false;
};
static bool all_digits(const std::string &s)
{
    for (char c : s)
        if (c < '0' || c > '9')
            return false;
    return !s.empty();
}
static Leaf mkleaf(const std::string &text, const std::string &num = "", const std::string &id = "")
{
    Leaf l;
    l.text = text;
    if (!id.empty()) {
        l.kind = L_IMPL;
        l.num = num;
        l.id = id;
    } else if (all_digits(text)) {
        l.kind = L_INT;
        l.leading_zero = text.size() > 1 && text[0] == '0';
    } else if (isdigit((unsigned char)text[0]) || text[0] == '.')
        l.kind = L_FLOAT;
    else
        l.kind = L_IDENT;
    return l;
}
// decimal reading of a digit string, independent of strtol: strip zeros, hand the rest to GMP in base 10
static RCP<const Basic> dec_integer(const std::string &digits)
{
    mpz_class z;
    z.set_str(digits, 10);
    return integer(integer_class(z.get_str(10)));
}
static RCP<const Basic> num_value(const std::string &t)
{
    if (all_digits(t))
        return dec_integer(t);
    return real_double(strtod(t.c_str(), nullptr)); // glibc strtod is correctly rounded
}
// alt=true: the reading produced by the known defect (strtol/mpz base 0: octal, or float when a digit is 8/9)
static RCP<const Basic> leaf_value(const Leaf &l, bool alt)
{
    switch (l.kind) {
        case L_INT:
            if (alt && l.leading_zero) {
                bool octal = true;
                for (char c : l.text)
                    if (c > '7')
                        octal = false;
                if (octal) {
                    mpz_class z;
                    z.set_str(l.text, 8);
                    return integer(integer_class(z.get_str(10)));
                }
                return real_double(strtod(l.text.c_str(), nullptr));
            }
            return dec_integer(l.text);
        case L_FLOAT:
            return real_double(strtod(l.text.c_str(), nullptr));
        case L_IDENT:
            return symbol(l.text);
        default:
            return mul(num_value(l.num), symbol(l.id));
    }
}

// ------------------------------------------------------------------ AST
enum { B_ADD, B_SUB, B_MUL, B_DIV, B_POW, B_CARET, NBIN };
static const char *BTXT[] = {"+", "-", "*", "/", "**", "^"};
enum { P_NEG, P_POS, P_IPOW1, P_IPOW2, NPRE };
struct Menu {
    std::vector<Leaf> leaves;
    Leaf ipow[2];             // juxtaposition leaves used by the prefix forms "2x**" and "3.5y^"
    const char *ipow_op[2] = {"**", "^"};
};
struct Node {
    char t; // 'B','U','L'
    int op;
    int a = -1, b = -1;
};
struct Ast {
    std::vector<Node> n;
    int root = 0;
};
// skeleton: prefix string over B (binary), U (prefix operator), L (leaf)
static void gen_skel(int open, std::string cur, std::vector<std::string> &out, int maxl, int maxu)
{
    // open = number of operand positions still to fill
    if (open == 0) {
        out.push_back(cur);
        return;
    }
    int usedL = 0, usedU = 0;
    for (char c : cur) {
        usedL += c == 'L';
        usedU += c == 'U';
    }
    // every open position needs at least one leaf
    if (usedL + open > maxl)
        return;
    gen_skel(open - 1, cur + "L", out, maxl, maxu);
    if (usedU < maxu)
        gen_skel(open, cur + "U", out, maxl, maxu);
    if (usedL + open + 1 <= maxl)
        gen_skel(open + 1, cur + "B", out, maxl, maxu);
}
struct Skel {
    std::string s;
    int nb = 0, nu = 0, nl = 0;
    long long count = 0, first = 0;
};
struct Space {
    std::string name;
    Menu menu;
    std::vector<Skel> sk;
    long long total = 0;
    int maxl, maxu, minl;
    void build(int minl_, int maxl_, int maxu_)
    {
        minl = minl_;
        maxl = maxl_;
        maxu = maxu_;
        std::vector<std::string> ss;
        gen_skel(1, "", ss, maxl, maxu);
        std::sort(ss.begin(), ss.end(), [](const std::string &x, const std::string &y) {
            if (x.size() != y.size())
                return x.size() < y.size();
            return x < y;
        });
        long long L = menu.leaves.size();
        for (auto &s : ss) {
            Skel k;
            k.s = s;
            for (char c : s) {
                k.nb += c == 'B';
                k.nu += c == 'U';
                k.nl += c == 'L';
            }
            if (k.nl < minl)
                continue;
            k.count = 1;
            for (int i = 0; i < k.nb; i++)
                k.count *= NBIN;
            for (int i = 0; i < k.nu; i++)
                k.count *= NPRE;
            for (int i = 0; i < k.nl; i++)
                k.count *= L;
            k.first = total;
            total += k.count;
            sk.push_back(k);
        }
    }
    // decode case index -> AST (leaf digits vary fastest)
    Ast decode(long long idx) const
    {
        size_t lo = 0, hi = sk.size() - 1;
        while (lo < hi) {
            size_t mid = (lo + hi + 1) / 2;
            if (sk[mid].first <= idx)
                lo = mid;
            else
                hi = mid - 1;
        }
        const Skel &k = sk[lo];
        long long r = idx - k.first;
        long long L = menu.leaves.size();
        std::vector<int> ld(k.nl), ud(k.nu), bd(k.nb);
        for (int i = k.nl - 1; i >= 0; i--) {
            ld[i] = r % L;
            r /= L;
        }
        for (int i = k.nu - 1; i >= 0; i--) {
            ud[i] = r % NPRE;
            r /= NPRE;
        }
        for (int i = k.nb - 1; i >= 0; i--) {
            bd[i] = r % NBIN;
            r /= NBIN;
        }
        Ast a;
        size_t pos = 0;
        int il = 0, iu = 0, ib = 0;
        std::function<int()> rec = [&]() -> int {
            char c = k.s[pos++];
            int me = a.n.size();
            a.n.push_back(Node());
            a.n[me].t = c;
            if (c == 'L')
                a.n[me].op = ld[il++];
            else if (c == 'U') {
                a.n[me].op = ud[iu++];
                int ch = rec();
                a.n[me].a = ch;
            } else {
                a.n[me].op = bd[ib++];
                int x = rec();
                int y = rec();
                a.n[me].a = x;
                a.n[me].b = y;
            }
            return me;
        };
        a.root = rec();
        return a;
    }
};

// ------------------------------------------------------------------ reference printer
enum { LV_ADD = 1, LV_MUL = 2, LV_UN = 3, LV_POW = 4, LV_ATOM = 5 };
static int level(const Ast &a, int i)
{
    const Node &n = a.n[i];
    if (n.t == 'L')
        return LV_ATOM;
    if (n.t == 'U')
        return (n.op == P_NEG || n.op == P_POS) ? LV_UN : LV_POW;
    if (n.op == B_ADD || n.op == B_SUB)
        return LV_ADD;
    if (n.op == B_MUL || n.op == B_DIV)
        return LV_MUL;
    return LV_POW;
}
typedef std::vector<std::string> Toks;
static void emit(const Ast &a, const Menu &m, int i, bool allparen, Toks &o);
static void emit_wrapped(const Ast &a, const Menu &m, int i, bool allparen, bool need, Toks &o)
{
    if (need && !allparen) // in allparen mode the node wraps itself
        o.push_back("(");
    emit(a, m, i, allparen, o);
    if (need && !allparen)
        o.push_back(")");
}
static bool is_sign(const Ast &a, int i)
{
    return a.n[i].t == 'U' && (a.n[i].op == P_NEG || a.n[i].op == P_POS);
}
static void emit(const Ast &a, const Menu &m, int i, bool allparen, Toks &o)
{
    const Node &n = a.n[i];
    if (allparen)
        o.push_back("(");
    if (n.t == 'L') {
        o.push_back(m.leaves[n.op].text);
    } else if (n.t == 'U') {
        if (n.op == P_NEG || n.op == P_POS) {
            o.push_back(n.op == P_NEG ? "-" : "+");
            emit_wrapped(a, m, n.a, allparen, level(a, n.a) < LV_UN, o);
        } else {
            int k = n.op - P_IPOW1;
            o.push_back(m.ipow[k].text);
            o.push_back(m.ipow_op[k]);
            emit_wrapped(a, m, n.a, allparen, !(level(a, n.a) >= LV_POW || is_sign(a, n.a)), o);
        }
    } else {
        int lv = level(a, i);
        bool needl, needr;
        if (lv == LV_POW) {
            // right associative; the base must be an atom, and juxtaposition "2x" is not a valid bare base
            needl = a.n[n.a].t != 'L' || m.leaves[a.n[n.a].op].kind == L_IMPL;
            needr = !(level(a, n.b) >= LV_POW || is_sign(a, n.b));
        } else {
            needl = level(a, n.a) < lv;
            needr = level(a, n.b) <= lv;
        }
        emit_wrapped(a, m, n.a, allparen, needl, o);
        o.push_back(BTXT[n.op]);
        emit_wrapped(a, m, n.b, allparen, needr, o);
    }
    if (allparen)
        o.push_back(")");
}
static std::string join(const Toks &t, int ws)
{
    std::string s;
    if (ws == 1)
        s += " ";
    for (size_t i = 0; i < t.size(); i++) {
        s += t[i];
        if (ws == 1)
            s += " ";
        else if (ws == 2 && i + 1 < t.size() && i % 2 == 0)
            s += (i % 4 == 0) ? " \t" : "\n";
    }
    return s;
}

// ------------------------------------------------------------------ expected value (direct construction)
static RCP<const Basic> build(const Ast &a, const Menu &m, int i, bool alt)
{
    const Node &n = a.n[i];
    if (n.t == 'L')
        return leaf_value(m.leaves[n.op], alt);
    if (n.t == 'U') {
        RCP<const Basic> x = build(a, m, n.a, alt);
        if (n.op == P_NEG)
            return neg(x);
        if (n.op == P_POS)
            return x;
        const Leaf &l = m.ipow[n.op - P_IPOW1];
        return mul(num_value(l.num), pow(symbol(l.id), x));
    }
    RCP<const Basic> x = build(a, m, n.a, alt), y = build(a, m, n.b, alt);
    switch (n.op) {
        case B_ADD:
            return add(x, y);
        case B_SUB:
            return sub(x, y);
        case B_MUL:
            return mul(x, y);
        case B_DIV:
            return div(x, y);
        default:
            return pow(x, y);
    }
}
// guard against astronomically large exact powers (10**10**10): tiny exact evaluator; 0 exact, 1 other, 2 huge
struct GV {
    int k = 1;
    mpq_class v;
};
static GV guard(const Ast &a, const Menu &m, int i)
{
    const Node &n = a.n[i];
    GV r;
    if (n.t == 'L') {
        const Leaf &l = m.leaves[n.op];
        if (l.kind == L_INT) {
            r.k = 0;
            mpz_class z;
            z.set_str(l.text, 10);
            r.v = z;
        }
        return r;
    }
    auto powg = [&](const GV &b, const GV &e) {
        GV o;
        if (b.k == 2 || e.k == 2) {
            o.k = 2;
            return o;
        }
        if (e.k == 0) {
            if (abs(e.v.get_num()) > 1000 || e.v.get_den() > 1000) {
                o.k = 2;
                return o;
            }
            if (b.k == 0 && e.v.get_den() == 1) {
                long ee = e.v.get_num().get_si();
                if (b.v == 0 && ee < 0)
                    return o; // zoo
                size_t bits = mpz_sizeinbase(b.v.get_num().get_mpz_t(), 2) + mpz_sizeinbase(b.v.get_den().get_mpz_t(), 2);
                if (bits * (size_t)std::labs(ee) > 200000) {
                    o.k = 2;
                    return o;
                }
                mpq_class base = b.v;
                if (ee < 0) {
                    base = 1 / base;
                    ee = -ee;
                }
                mpq_class p = 1;
                for (long j = 0; j < ee; j++)
                    p *= base;
                o.k = 0;
                o.v = p;
                return o;
            }
        }
        return o;
    };
    if (n.t == 'U') {
        GV x = guard(a, m, n.a);
        if (n.op == P_NEG || n.op == P_POS) {
            if (x.k == 0 && n.op == P_NEG)
                x.v = -x.v;
            return x;
        }
        GV b; // symbolic base
        GV p = powg(b, x);
        if (p.k == 2)
            return p;
        return r;
    }
    GV x = guard(a, m, n.a), y = guard(a, m, n.b);
    if (x.k == 2 || y.k == 2) {
        r.k = 2;
        return r;
    }
    if (n.op == B_POW || n.op == B_CARET)
        return powg(x, y);
    if (x.k == 0 && y.k == 0) {
        r.k = 0;
        switch (n.op) {
            case B_ADD:
                r.v = x.v + y.v;
                break;
            case B_SUB:
                r.v = x.v - y.v;
                break;
            case B_MUL:
                r.v = x.v * y.v;
                break;
            default:
                if (y.v == 0)
                    r.k = 1;
                else
                    r.v = x.v / y.v;
        }
    }
    return r;
}

static std::string ast_str(const Ast &a, const Menu &m)
{
    Toks t;
    emit(a, m, a.root, false, t);
    return join(t, 0);
}
static std::string skel_class(const Ast &a, const Menu &m, int i)
{
    const Node &n = a.n[i];
    if (n.t == 'L') {
        static const char *kn[] = {"int", "float", "id", "juxt"};
        return kn[m.leaves[n.op].kind];
    }
    if (n.t == 'U') {
        static const char *un[] = {"neg", "pos", "ipow", "ipow"};
        return std::string(un[n.op]) + "(" + skel_class(a, m, n.a) + ")";
    }
    static const char *bn[] = {"add", "sub", "mul", "div", "pow", "pow"};
    return std::string(bn[n.op]) + "(" + skel_class(a, m, n.a) + "," + skel_class(a, m, n.b) + ")";
}

enum { K_STRINGS, K_AST_CHECKED, K_SKIP_HUGE, K_BOTH_THROW, K_LEADZERO_CASES, K_NAN_SAMEKEY, K_FUNC_STRINGS, K_LZ_STRINGS, K_MISMATCH_STRINGS };
static std::vector<std::string> CN = {"strings_parsed_and_compared", "asts_checked", "asts_skipped_huge_exact_power(guard)",
                                      "asts_where_direct_construction_and_parse_both_throw", "asts_with_leading_zero_literal",
                                      "results_same_key_but_eq_false(nan)", "function_call_strings_parsed",
                                      "strings_violating:leading-zero-literal", "strings_violating:other-mismatch"};

static bool has_nan_double(const Basic &e)
{
    if (is_a<RealDouble>(e))
        return std::isnan(down_cast<const RealDouble &>(e).i);
    if (is_a<ComplexDouble>(e)) {
        std::complex<double> z = down_cast<const ComplexDouble &>(e).i;
        return std::isnan(z.real()) || std::isnan(z.imag());
    }
    for (auto &a : e.get_args())
        if (has_nan_double(*a))
            return true;
    return false;
}
// Emit at most 2 violation records per signature per worker process (workers take interleaved slices, so the
// globally lowest index of every signature is always among them); the rest is counted.  Keeps a defect that
// affects millions of strings from turning into millions of report lines.
static bool first_of_class(const std::string &sig)
{
    static std::map<std::string, int> seen;
    return seen[sig]++ < 2;
}
struct Res {
    bool threw = false;
    std::string exc, k;
    RCP<const Basic> e;
};
static Res safe(const std::function<RCP<const Basic>()> &f)
{
    Res r;
    try {
        r.e = f();
        r.k = key(*r.e);
    } catch (SymEngineException &x) {
        r.threw = true;
        r.exc = std::string("SymEngineException:") + x.what();
    } catch (std::exception &x) {
        r.threw = true;
        r.exc = std::string("std::exception:") + typeid(x).name() + ":" + x.what();
    }
    return r;
}

// class signature of a mismatch: descend to the smallest sub-AST that fails on its own (minimal printing), name it by its
// operator and the kinds of its operands
static bool same_res(const Res &want, const Res &got)
{
    if (want.threw || got.threw)
        return want.threw && got.threw && want.exc == got.exc;
    return want.k == got.k;
}
static bool sub_fails(const Ast &a, const Menu &m, int i)
{
    Toks t;
    emit(a, m, i, false, t);
    std::string s = join(t, 0);
    Res want = safe([&] { return build(a, m, i, false); });
    Res got = safe([&] { return parse(s); });
    if (same_res(want, got))
        return false;
    Res alt = safe([&] { return build(a, m, i, true); }); // a failure explained by the leading-zero class is not a new one
    return !same_res(alt, got);
}
static int shrink(const Ast &a, const Menu &m, int i)
{
    const Node &n = a.n[i];
    for (int ch : {n.a, n.b})
        if (ch >= 0 && a.n[ch].t != 'L' && sub_fails(a, m, ch))
            return shrink(a, m, ch);
    for (int ch : {n.a, n.b})
        if (ch >= 0 && a.n[ch].t == 'L' && sub_fails(a, m, ch))
            return ch;
    return i;
}
static std::string kind1(const Ast &a, const Menu &m, int i)
{
    const Node &n = a.n[i];
    static const char *kn[] = {"int", "float", "id", "juxt"};
    static const char *un[] = {"neg", "pos", "ipow", "ipow"};
    static const char *bn[] = {"add", "sub", "mul", "div", "pow", "pow"};
    return n.t == 'L' ? kn[m.leaves[n.op].kind] : n.t == 'U' ? un[n.op] : bn[n.op];
}
static std::string shallow_class(const Ast &a, const Menu &m, int i)
{
    const Node &n = a.n[i];
    if (n.t == 'L')
        return kind1(a, m, i) + ":" + m.leaves[n.op].text;
    std::string o = kind1(a, m, i) + "(" + kind1(a, m, n.a);
    if (n.t == 'B')
        o += "," + kind1(a, m, n.b);
    return o + ")";
}

static void run_space(Space &sp)
{
    CaseSet cs;
    cs.name = sp.name;
    cs.n = sp.total;
    cs.counter_names = CN;
    cs.desc = [&](long long i) {
        Ast a = sp.decode(i);
        return "AST printed minimally as \"" + ast_str(a, sp.menu) + "\"";
    };
    cs.crash_sig = [&](long long i, const std::string &oc) {
        Ast a = sp.decode(i);
        return "crash-or-hang:" + oc + ":" + skel_class(a, sp.menu, a.root);
    };
    cs.body = [&](long long i, Ctx &c) {
        Ast a = sp.decode(i);
        const Menu &m = sp.menu;
        if (guard(a, m, a.root).k == 2) {
            c.count(K_SKIP_HUGE);
            return;
        }
        int nops = 0;
        bool lz = false;
        for (auto &n : a.n) {
            if (n.t != 'L')
                nops++;
            else if (m.leaves[n.op].leading_zero)
                lz = true;
        }
        if (nops >= 2)
            c.nontrivial();
        if (lz)
            c.count(K_LEADZERO_CASES);
        Res want = safe([&] { return build(a, m, a.root, false); });
        Res alt;
        bool have_alt = false;
        c.count(K_AST_CHECKED);
        bool allthrow = want.threw;
        for (int paren = 0; paren < 2; paren++) {
            Toks t;
            emit(a, m, a.root, paren == 1, t);
            for (int ws = 0; ws < 3; ws++) {
                std::string s = join(t, ws);
                Res got = safe([&] { return parse(s); });
                c.eval();
                c.count(K_STRINGS);
                if (!got.threw)
                    allthrow = false;
                bool ok;
                if (want.threw || got.threw)
                    ok = want.threw && got.threw && want.exc == got.exc;
                else
                    ok = want.k == got.k;
                c.outcome(got.threw ? "throw:" + got.exc : type_code_name(got.e->get_type_code()));
                if (ok) {
                    if (!got.threw && !eq(*got.e, *want.e)) {
                        if (has_nan_double(*got.e))
                            c.count(K_NAN_SAMEKEY);
                        else
                            c.violation("eq-false-but-same-structure:" + skel_class(a, m, a.root),
                                        "parse(" + jstr(s) + ") has the same structural key as the direct construction but eq() is false: " + got.k);
                    }
                    continue;
                }
                std::string gots = got.threw ? "throws " + got.exc : sstr(got.e) + " [" + got.k + "]";
                std::string wants = want.threw ? "throws " + want.exc : sstr(want.e) + " [" + want.k + "]";
                if (lz) {
                    if (!have_alt) {
                        alt = safe([&] { return build(a, m, a.root, true); });
                        have_alt = true;
                    }
                    bool explained = (alt.threw && got.threw && alt.exc == got.exc) || (!alt.threw && !got.threw && alt.k == got.k);
                    if (explained) {
                        c.count(K_LZ_STRINGS);
                        if (first_of_class("leading-zero-literal"))
                            c.violation("leading-zero-literal",
                                    "parse(" + jstr(s) + ") = " + gots + "; conventional (base-10) reading: " + wants
                                        + " -- the rest of the string is parsed as expected (result equals the direct construction with the "
                                          "zero-prefixed integer literal read as octal / float)");
                        continue;
                    }
                }
                c.count(K_MISMATCH_STRINGS);
                int mn = shrink(a, m, a.root);
                std::string msig = "mismatch:" + shallow_class(a, m, mn) + ((mn == a.root && paren && !sub_fails(a, m, a.root)) ? ":only-fully-parenthesised" : "");
                if (first_of_class(msig))
                    c.violation(msig,
                            "parse(" + jstr(s) + ") = " + gots + "; direct construction from the AST gives " + wants);
            }
        }
        if (allthrow)
            c.count(K_BOTH_THROW);
        if (i % 400009 == 0) {
            Toks t;
            emit(a, m, a.root, false, t);
            c.sample("{\"string\":" + jstr(join(t, 2)) + ",\"expected\":" + jstr(want.threw ? want.exc : sstr(want.e)) + "}");
        }
    };
    run_cases(cs);
}

// ------------------------------------------------------------------ function / constant name tables
typedef std::function<RCP<const Basic>(const vec_basic &)> Fn;
struct FEntry {
    std::string name;
    int amin, amax; // arity range
    bool boolargs;  // arguments drawn from the boolean menu
    Fn f;
};
static vec_boolean to_vb(const vec_basic &v)
{
    vec_boolean o;
    for (auto &x : v)
        o.push_back(rcp_static_cast<const Boolean>(x));
    return o;
}
static set_boolean to_sb(const vec_basic &v)
{
    set_boolean o;
    for (auto &x : v)
        o.insert(rcp_static_cast<const Boolean>(x));
    return o;
}
static std::vector<FEntry> function_table()
{
    std::vector<FEntry> T;
    typedef RCP<const Basic> (*F1)(const RCP<const Basic> &);
    typedef RCP<const Basic> (*F2)(const RCP<const Basic> &, const RCP<const Basic> &);
    auto one_ = [&](const std::string &n, F1 f) { T.push_back({n, 1, 1, false, [f](const vec_basic &v) { return f(v[0]); }}); };
    auto two_ = [&](const std::string &n, F2 f) { T.push_back({n, 2, 2, false, [f](const vec_basic &v) { return f(v[0], v[1]); }}); };
    // conventional name -> library function (written from the mathematical meaning of the name)
    one_("sin", sin), one_("cos", cos), one_("tan", tan), one_("cot", cot), one_("csc", csc), one_("sec", sec);
    one_("asin", asin), one_("arcsin", asin), one_("acos", acos), one_("arccos", acos), one_("atan", atan), one_("arctan", atan);
    one_("asec", asec), one_("arcsec", asec), one_("acsc", acsc), one_("arccsc", acsc), one_("acot", acot), one_("arccot", acot);
    one_("sinh", sinh), one_("cosh", cosh), one_("tanh", tanh), one_("coth", coth), one_("sech", sech), one_("csch", csch);
    one_("asinh", asinh), one_("arcsinh", asinh), one_("acosh", acosh), one_("arccosh", acosh), one_("atanh", atanh);
    one_("arctanh", atanh), one_("asech", asech), one_("arcsech", asech), one_("acoth", acoth), one_("arccoth", acoth);
    one_("acsch", acsch), one_("arccsch", acsch);
    one_("gamma", gamma), one_("sqrt", sqrt), one_("abs", abs), one_("sign", sign), one_("exp", exp), one_("erf", erf), one_("erfc", erfc);
    one_("loggamma", loggamma), one_("lambertw", lambertw), one_("dirichlet_eta", dirichlet_eta), one_("floor", floor);
    one_("ceiling", ceiling), one_("ln", (F1)log), one_("log", (F1)log), one_("zeta", (F1)zeta), one_("primepi", primepi);
    one_("primorial", primorial);
    two_("pow", (F2)pow), two_("beta", beta), two_("log", (F2)log), two_("zeta", (F2)zeta), two_("lowergamma", lowergamma);
    two_("uppergamma", uppergamma), two_("polygamma", polygamma), two_("kronecker_delta", kronecker_delta), two_("atan2", atan2);
    T.push_back({"max", 1, 3, false, [](const vec_basic &v) { return max(v); }});
    T.push_back({"min", 1, 3, false, [](const vec_basic &v) { return min(v); }});
    T.push_back({"levi_civita", 1, 3, false, [](const vec_basic &v) { return levi_civita(v); }});
    for (const char *n : {"Eq", "Equality"}) {
        T.push_back({n, 1, 1, false, [](const vec_basic &v) -> RCP<const Basic> { return Eq(v[0], zero); }});
        T.push_back({n, 2, 2, false, [](const vec_basic &v) -> RCP<const Basic> { return Eq(v[0], v[1]); }});
    }
    for (const char *n : {"Ne", "Unequality"})
        T.push_back({n, 2, 2, false, [](const vec_basic &v) -> RCP<const Basic> { return Ne(v[0], v[1]); }});
    for (const char *n : {"Ge", "GreaterThan"})
        T.push_back({n, 2, 2, false, [](const vec_basic &v) -> RCP<const Basic> { return Ge(v[0], v[1]); }});
    for (const char *n : {"Gt", "StrictGreaterThan"})
        T.push_back({n, 2, 2, false, [](const vec_basic &v) -> RCP<const Basic> { return Gt(v[0], v[1]); }});
    for (const char *n : {"Le", "LessThan"})
        T.push_back({n, 2, 2, false, [](const vec_basic &v) -> RCP<const Basic> { return Le(v[0], v[1]); }});
    for (const char *n : {"Lt", "StrictLessThan"})
        T.push_back({n, 2, 2, false, [](const vec_basic &v) -> RCP<const Basic> { return Lt(v[0], v[1]); }});
    T.push_back({"Not", 1, 1, true, [](const vec_basic &v) -> RCP<const Basic> { return logical_not(rcp_static_cast<const Boolean>(v[0])); }});
    T.push_back({"Xor", 1, 3, true, [](const vec_basic &v) -> RCP<const Basic> { return logical_xor(to_vb(v)); }});
    T.push_back({"Xnor", 1, 3, true, [](const vec_basic &v) -> RCP<const Basic> { return logical_xnor(to_vb(v)); }});
    T.push_back({"And", 1, 3, true, [](const vec_basic &v) -> RCP<const Basic> { return logical_and(to_sb(v)); }});
    T.push_back({"Or", 1, 3, true, [](const vec_basic &v) -> RCP<const Basic> { return logical_or(to_sb(v)); }});
    T.push_back({"Nand", 1, 3, true, [](const vec_basic &v) -> RCP<const Basic> { return logical_nand(to_sb(v)); }});
    T.push_back({"Nor", 1, 3, true, [](const vec_basic &v) -> RCP<const Basic> { return logical_nor(to_sb(v)); }});
    // names that are NOT library functions denote undefined (symbolic) functions; the parser is case sensitive
    for (const char *n : {"f", "Sin", "g_1"})
        T.push_back({n, 1, 3, false, [n](const vec_basic &v) -> RCP<const Basic> { return function_symbol(n, v); }});
    return T;
}
struct Arg {
    std::string text;
    RCP<const Basic> e;
};

int main(int argc, char **argv)
{
    init(argc, argv, "C17");
    bool thorough = opts().thorough();
    Run &R = run();

    // ---------------- leaf menus (design list; thorough adds 4)
    std::vector<std::string> base = {"x", "y", "1", "2", "10", "010", "007", "08", "0.5", ".5", "5.", "1e2", "1E-1", "2x", "3.5y"};
    std::vector<Space> spaces;
    auto mk_space = [&](const std::string &name, std::vector<std::string> lv, int minl, int maxl, int maxu) {
        Space sp;
        sp.name = name;
        for (auto &t : lv) {
            if (t == "2x")
                sp.menu.leaves.push_back(mkleaf("2x", "2", "x"));
            else if (t == "3.5y")
                sp.menu.leaves.push_back(mkleaf("3.5y", "3.5", "y"));
            else
                sp.menu.leaves.push_back(mkleaf(t));
        }
        sp.menu.ipow[0] = mkleaf("2x", "2", "x");
        sp.menu.ipow[1] = mkleaf("3.5y", "3.5", "y");
        sp.build(minl, maxl, maxu);
        spaces.push_back(sp);
    };
    std::vector<std::string> nine = {"x", "y", "2", "10", "08", ".5", "1E-1", "2x", "3.5y"};
    if (!thorough) {
        mk_space("A:leaves<=3,prefix=0,15leaves", base, 1, 3, 0);
        mk_space("B:leaves<=3,prefix<=1,9leaves", nine, 1, 3, 1);
    } else {
        std::vector<std::string> big = base;
        big.push_back("100000000000000000000");
        big.push_back("0100000000000000000000");
        big.push_back("1.5e+3");
        big.push_back("_a1");
        mk_space("A:leaves<=3,prefix=0,19leaves", big, 1, 3, 0);
        mk_space("A2:leaves<=3,prefix<=1,15leaves", base, 1, 3, 1);
        mk_space("C:leaves=4,prefix=0,6leaves", {"x", "y", "2", "10", ".5", "2x"}, 4, 4, 0);
        mk_space("B:leaves<=3,prefix<=2,6leaves", {"x", "2", "08", ".5", "2x", "3.5y"}, 1, 3, 2);
        mk_space("D:leaves=4,prefix<=1,3leaves", {"x", "2", "2x"}, 4, 4, 1);
    }
    // integer literals next to every representation boundary (int / long / unsigned long / limb sizes, decimal digit
    // counts around LONG_MAX): alone, zero-padded, as the numeric part of an implicit multiplication, under a prefix
    // sign, and as an operand of every binary operator next to x
    {
        std::vector<std::string> lit, few = {"x"};
        for (auto &n : verif::boundary_integers(false)) {
            std::string t = verif::bstr(n);
            lit.push_back(t);
            lit.push_back("0" + t);
        }
        Space sp;
        sp.name = "E:boundary-literals,leaves=1,prefix<=1";
        for (auto &t : lit)
            sp.menu.leaves.push_back(mkleaf(t));
        for (auto &n : verif::boundary_integers(false))
            sp.menu.leaves.push_back(mkleaf(verif::bstr(n) + "x", verif::bstr(n), "x"));
        sp.menu.ipow[0] = mkleaf("2x", "2", "x");
        sp.menu.ipow[1] = mkleaf("3.5y", "3.5", "y");
        sp.build(1, 1, 1);
        spaces.push_back(sp);
        for (const char *t : {"2147483648", "9223372036854775807", "9223372036854775808", "9999999999999999999", "10000000000000000000",
                              "18446744073709551616"})
            few.push_back(t);
        mk_space("F:boundary-literals,leaves=2,prefix=0", few, 2, 2, 0);
    }
    // the spaces overlap on their common sub-menus; harmless (the overlap is small)

    // ---------------- function and constant names (first: small and fast)
    {
        std::vector<FEntry> T = function_table();
        RCP<const Basic> x = symbol("x"), y = symbol("y");
        std::vector<Arg> ea = {{"x", x},
                               {"y", y},
                               {"1", integer(1)},
                               {"2", integer(2)},
                               {"0.5", real_double(0.5)},
                               {"2x", mul(integer(2), x)},
                               {"x+1", add(x, integer(1))},
                               {"-x", neg(x)}};
        std::vector<Arg> ba = {{"x<y", Lt(x, y)}, {"True", boolTrue}, {"False", boolFalse}, {"x==1", Eq(x, integer(1))}};
        struct FC {
            int t;
            std::vector<int> args;
        };
        std::vector<FC> cases;
        for (size_t t = 0; t < T.size(); t++)
            for (int ar = T[t].amin; ar <= T[t].amax; ar++) {
                int M = T[t].boolargs ? ba.size() : ea.size();
                long long tot = 1;
                for (int k = 0; k < ar; k++)
                    tot *= M;
                for (long long j = 0; j < tot; j++) {
                    FC fc;
                    fc.t = t;
                    long long r = j;
                    for (int k = 0; k < ar; k++) {
                        fc.args.push_back(r % M);
                        r /= M;
                    }
                    cases.push_back(fc);
                }
            }
        struct KC {
            const char *name;
            RCP<const Basic> e;
        };
        std::vector<KC> consts = {{"e", E},      {"E", E},     {"EulerGamma", EulerGamma}, {"Catalan", Catalan}, {"GoldenRatio", GoldenRatio},
                                  {"pi", pi},    {"I", I},     {"oo", Inf},                {"inf", Inf},         {"zoo", ComplexInf},
                                  {"nan", Nan},  {"True", boolTrue}, {"False", boolFalse}, {"Pi", symbol("Pi")}, {"i", symbol("i")},
                                  {"exp1", symbol("exp1")}};
        CaseSet cs;
        cs.name = "names";
        cs.n = cases.size() + consts.size();
        cs.counter_names = CN;
        auto text = [&](long long i, int ws) {
            if (i >= (long long)cases.size())
                return std::string(ws == 1 ? " " : "") + consts[i - cases.size()].name + (ws == 1 ? " " : "");
            const FC &fc = cases[i];
            const FEntry &fe = T[fc.t];
            Toks t = {fe.name, "("};
            for (size_t k = 0; k < fc.args.size(); k++) {
                if (k)
                    t.push_back(",");
                t.push_back(fe.boolargs ? ba[fc.args[k]].text : ea[fc.args[k]].text);
            }
            t.push_back(")");
            return join(t, ws);
        };
        cs.desc = [&](long long i) { return "name table: " + text(i, 0); };
        cs.crash_sig = [&](long long i, const std::string &oc) {
            return "crash-or-hang:" + oc + ":name:" + (i >= (long long)cases.size() ? "constant" : T[cases[i].t].name);
        };
        cs.body = [&](long long i, Ctx &c) {
            Res want;
            std::string cls;
            if (i >= (long long)cases.size()) {
                want = safe([&] { return consts[i - cases.size()].e; });
                cls = std::string("constant:") + consts[i - cases.size()].name;
            } else {
                const FC &fc = cases[i];
                const FEntry &fe = T[fc.t];
                vec_basic v;
                for (int k : fc.args)
                    v.push_back(fe.boolargs ? ba[k].e : ea[k].e);
                want = safe([&] { return fe.f(v); });
                cls = "function:" + fe.name + "/" + std::to_string(fc.args.size());
            }
            c.nontrivial();
            for (int ws = 0; ws < 3; ws++) {
                std::string s = text(i, ws);
                Res got = safe([&] { return parse(s); });
                c.eval();
                c.count(K_FUNC_STRINGS);
                c.outcome(got.threw ? "throw:" + got.exc : type_code_name(got.e->get_type_code()));
                bool ok = (want.threw || got.threw) ? (want.threw && got.threw && want.exc == got.exc) : want.k == got.k;
                if (!ok)
                    c.violation("name-table:" + cls, "parse(" + jstr(s) + ") = " + (got.threw ? "throws " + got.exc : sstr(got.e) + " [" + got.k + "]")
                                                         + "; expected " + (want.threw ? "throws " + want.exc : sstr(want.e) + " [" + want.k + "]"));
            }
            if (i % 997 == 0)
                c.sample("{\"string\":" + jstr(text(i, 0)) + ",\"expected\":" + jstr(want.threw ? want.exc : sstr(want.e)) + "}");
        };
        run_cases(cs);
        R.counters["name_table_entries"] = T.size();
    }

    std::string bound;
    long long asts = 0;
    for (auto &sp : spaces) {
        if (past_deadline()) {
            R.exhaustive = false;
            break;
        }
        run_space(sp);
        R.counters["asts:" + sp.name] = sp.total;
        R.counters["skeletons:" + sp.name] = sp.sk.size();
        asts += sp.total;
        bound += (bound.empty() ? "" : "; ") + sp.name + " (" + std::to_string(sp.total) + " ASTs)";
    }
    R.states = asts;
    R.transitions = R.evaluations;
    R.bound_completed = "every function/constant name of the parser tables x argument menu; all ASTs of: " + bound
                        + "; each AST in 3 whitespace x 2 parenthesis patterns";
    R.rule = "E5: ASTs = all trees over binary {+,-,*,/,**,^}, prefix {-,+,'2x**','3.5y^'} and the leaf menu {x,y,1,2,10,010,007,08,0.5,.5,5.,"
             "1e2,1E-1,2x,3.5y (+4 thorough)} within the stated leaf/prefix bounds; printed by the driver's own minimal-parenthesis printer "
             "(conventional table: + - < * / < prefix sign < ** ^ right-assoc < atoms; juxtaposition 2x is an atom, 2x**e = 2*x**e) and fully "
             "parenthesised, whitespace none/all/alternating; expected = direct API construction (add/sub/mul/div/pow/neg) with integer "
             "literals read in base 10 by GMP and float literals by strtod; compared by structural key and eq. distinct_nontrivial = ASTs "
             "with >= 2 operators (precedence/associativity matter) + name-table cases";
    R.assumptions = {"glibc strtod is correctly rounded", "the arithmetic constructors themselves are checked by C05-C07, not here",
                     "number-identifier juxtaposition is read as one atom (y/2x = y/(2*x)); exponent after it binds to the identifier",
                     "exact powers with |exponent| > 1000 are skipped by a guard (counted)"};
    return R.finish();
}
