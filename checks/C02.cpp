// C02  Expression ordering is a strict total order consistent with eq -- all pairs + all triples (DESIGN 5 C02)
#include "universe.h"
using namespace verif;

static std::string shortcls(const Basic &e)
{
    std::string k = key(e);
    if (k.size() <= 48)
        return k;
    return type_code_name(e.get_type_code()) + "(...)";
}

// NaN doubles: eq is never true between distinct objects, so no total order consistent with eq exists for them
static bool has_nan_double(const Basic &e)
{
    if (is_a<RealDouble>(e))
        return std::isnan(down_cast<const RealDouble &>(e).i);
    if (is_a<ComplexDouble>(e)) {
        std::complex<double> z = down_cast<const ComplexDouble &>(e).i;
        return std::isnan(z.real()) || std::isnan(z.imag());
    }
    return false;
}

int main(int argc, char **argv)
{
    init(argc, argv, "C02");
    bool thorough = opts().thorough();
    Universe W = build_universe(thorough);
    // U2: up to k instances per type code (distinct keys), in universe order => every same-type compare() is reached
    const size_t per_type = thorough ? 9 : 4;
    std::vector<UEntry> U;
    {
        std::map<int, size_t> cnt;
        std::set<std::string> seenkey;
        std::set<std::string> force = {"0.0", "-0.0", "nan#0", "nan#1", "nan#0'", "inf", "-inf", "oo", "-oo", "zoo", "NaN", "1", "1.0", "x", "x'",
                                       "MIntPoly({x};3)", "MIntPoly({y};3)", "MIntPoly({};3)", "MIntPoly({x};0)", "MIntPoly({y};0)",
                                       "MExprPoly({x};3)", "MExprPoly({y};3)", "2^64", "2^64+1", "2^64+2^32", "10^40", "2^128+5", "-(2^200)", "5", "(2^64+1)/3", "1/(2^64+1)", "dummy1(x)", "dummy2(x)",
                                       "{1,2}", "{2,1}", "x+y", "y+x", "cd(0,1)", "cd(-0,1)", "cd(1,0)", "cd(1,-0)", "cd(nan,0)"};
        for (auto &u : W.U) {
            int tc = u.e->get_type_code();
            bool f = force.count(u.recipe);
            if (!f && (cnt[tc] >= per_type || !seenkey.insert(u.key).second))
                continue;
            seenkey.insert(u.key);
            cnt[tc]++;
            U.push_back(u);
        }
    }
    const long long n = U.size();
    Run &R = run();
    R.counters["U2_size"] = n;
    std::set<int> types;
    for (auto &u : U)
        types.insert(u.e->get_type_code());
    R.counters["distinct_type_codes"] = types.size();

    auto cmp_safe = [&](long long i, long long j, int &out, std::string &err) {
        try {
            out = U[i].e->__cmp__(*U[j].e);
            return true;
        } catch (std::exception &x) {
            err = x.what();
            return false;
        }
    };

    CaseSet cs;
    cs.name = "pairs";
    cs.n = n * n;
    cs.counter_names = {"same_type_pairs(compare() reached)", "cmp_zero_pairs", "cmp_threw_different_types(not judged)"};
    cs.desc = [&](long long i) { return "(" + U[i / n].recipe + " , " + U[i % n].recipe + ")"; };
    cs.crash_sig = [&](long long i, const std::string &oc) {
        return "cmp:" + oc + ":(" + type_code_name(U[i / n].e->get_type_code()) + "," + type_code_name(U[i % n].e->get_type_code()) + ")";
    };
    cs.body = [&](long long idx, Ctx &c) {
        long long i = idx / n, j = idx % n;
        const UEntry &a = U[i], &b = U[j];
        bool same = a.e->get_type_code() == b.e->get_type_code();
        c.eval();
        if (i != j)
            c.nontrivial();
        if (same)
            c.count(0);
        int ab, ba;
        std::string err;
        std::string tn = type_code_name(a.e->get_type_code());
        if (!cmp_safe(i, j, ab, err) || !cmp_safe(j, i, ba, err)) {
            if (same)
                c.violation("cmp-throws:" + tn, "__cmp__(" + a.recipe + ", " + b.recipe + ") throws " + err);
            else
                c.count(2);
            return;
        }
        bool e = false;
        try {
            e = eq(*a.e, *b.e);
        } catch (...) {
        }
        c.outcome(tn + ":" + std::to_string(ab));
        std::string pair = (has_nan_double(*a.e) || has_nan_double(*b.e)) ? std::string("nan-double:") + tn
                                                                           : "(" + shortcls(*a.e) + " , " + shortcls(*b.e) + ")";
        if (ab < -1 || ab > 1)
            c.violation("cmp-out-of-range:" + tn, "__cmp__(" + a.recipe + ", " + b.recipe + ") = " + std::to_string(ab));
        if (ab == 0)
            c.count(1);
        if ((ab == 0) != e && i <= j)
            c.violation(std::string(e ? "eq-but-cmp-nonzero:" : "cmp-zero-but-not-eq:") + pair,
                        "__cmp__(" + a.recipe + ", " + b.recipe + ") = " + std::to_string(ab) + " but eq = " + (e ? "true" : "false"));
        if (ab != -ba && i <= j)
            c.violation("cmp-not-antisymmetric:" + pair, "__cmp__(a,b) = " + std::to_string(ab) + " and __cmp__(b,a) = " + std::to_string(ba)
                                                             + " for a=" + a.recipe + " b=" + b.recipe);
        if (idx % 4099 == 0)
            c.sample("{\"a\":" + jstr(a.recipe) + ",\"b\":" + jstr(b.recipe) + ",\"cmp\":" + std::to_string(ab) + ",\"eq\":" + (e ? "true" : "false") + "}");
    };
    run_cases(cs);

    // ---- triples on the cmp matrix (recomputed here; every pair already ran crash-isolated above)
    if (!replaying()) {
        std::vector<signed char> M(n * n, 2); // 2 = unavailable
        for (long long i = 0; i < n; i++)
            for (long long j = 0; j < n; j++) {
                if (cs.bad.count(i * n + j))
                    continue;
                int v;
                std::string err;
                if (cmp_safe(i, j, v, err) && v >= -1 && v <= 1)
                    M[i * n + j] = v;
            }
        // elements taking part in a pair violation are excluded from triples so one defect is reported once
        std::vector<char> tainted(n, 0);
        for (long long b : cs.bad) {
            tainted[b / n] = 1;
            tainted[b % n] = 1;
        }
        uint64_t triples = 0, tviol = 0;
        RCPBasicKeyLess less;
        for (long long i = 0; i < n && !past_deadline(); i++) {
            if (tainted[i])
                continue;
            for (long long j = 0; j < n; j++) {
                if (tainted[j] || M[i * n + j] == 2)
                    continue;
                for (long long k = 0; k < n; k++) {
                    if (tainted[k] || M[j * n + k] == 2 || M[i * n + k] == 2)
                        continue;
                    triples++;
                    int ab = M[i * n + j], bc = M[j * n + k], ac = M[i * n + k];
                    bool bad = false;
                    std::string what;
                    if (ab < 0 && bc < 0 && !(ac < 0)) {
                        bad = true;
                        what = "a<b and b<c but not a<c";
                    } else if (ab == 0 && bc == 0 && ac != 0) {
                        bad = true;
                        what = "a=b and b=c but not a=c";
                    } else if (ab == 0 && bc != ac) {
                        bad = true;
                        what = "a=b but cmp(b,c) != cmp(a,c)";
                    }
                    if (bad && tviol < 50) {
                        tviol++;
                        R.violation("not-transitive:(" + type_code_name(U[i].e->get_type_code()) + "," + type_code_name(U[j].e->get_type_code()) + ","
                                        + type_code_name(U[k].e->get_type_code()) + ")",
                                    "triples", i * n * n + j * n + k, what + " for a=" + U[i].recipe + " b=" + U[j].recipe + " c=" + U[k].recipe);
                    }
                }
            }
        }
        if (past_deadline())
            R.exhaustive = false;
        R.counters["triples_checked(transitivity on the full cmp matrix)"] = triples;
        R.counters["elements_excluded_from_triples(already in a pair violation)"] = std::count(tainted.begin(), tainted.end(), 1);
        R.evaluations += triples;
        // RCPBasicKeyLess strict weak ordering on all pairs/triples of untainted elements
        uint64_t kl = 0;
        std::vector<char> L(n * n, 0);
        for (long long i = 0; i < n; i++)
            for (long long j = 0; j < n; j++)
                if (!tainted[i] && !tainted[j])
                    L[i * n + j] = less(U[i].e, U[j].e);
        for (long long i = 0; i < n; i++) {
            if (tainted[i])
                continue;
            if (L[i * n + i])
                R.violation("keyless-irreflexivity", "keyless", i, "RCPBasicKeyLess(a,a) is true for a=" + U[i].recipe);
            for (long long j = 0; j < n; j++) {
                if (tainted[j])
                    continue;
                if (L[i * n + j] && L[j * n + i])
                    R.violation("keyless-asymmetry:(" + shortcls(*U[i].e) + "," + shortcls(*U[j].e) + ")", "keyless", i * n + j,
                                "RCPBasicKeyLess both ways for a=" + U[i].recipe + " b=" + U[j].recipe);
                for (long long k = 0; k < n; k++) {
                    if (tainted[k])
                        continue;
                    kl++;
                    if (L[i * n + j] && L[j * n + k] && !L[i * n + k] && tviol < 60) {
                        tviol++;
                        R.violation("keyless-not-transitive:(" + type_code_name(U[i].e->get_type_code()) + ")", "keyless", i * n * n + j * n + k,
                                    "RCPBasicKeyLess a<b, b<c but not a<c: a=" + U[i].recipe + " b=" + U[j].recipe + " c=" + U[k].recipe);
                    }
                }
            }
        }
        R.counters["keyless_triples_checked"] = kl;
        R.evaluations += kl;

        // ---- container consequence: all sequences of <= 4 distinct elements from a 12-element pool
        std::vector<long long> pool;
        {
            std::set<std::string> want = {"1", "1.0", "x", "x'", "y", "x+y", "y+x", "sqrt(2)", "f(x)", "{1,2}", "{2,1}", "pi"};
            for (long long i = 0; i < n; i++)
                if (want.count(U[i].recipe) && !tainted[i])
                    pool.push_back(i);
        }
        uint64_t seqs = 0;
        std::map<std::string, std::string> canon; // sorted class-set -> iteration listing
        std::function<void(std::vector<long long> &)> rec = [&](std::vector<long long> &cur) {
            if (!cur.empty()) {
                seqs++;
                set_basic sb;
                map_basic_basic mb;
                for (auto i : cur) {
                    sb.insert(U[i].e);
                    mb.insert({U[i].e, U[i].e});
                }
                // expected: one entry per eq-class
                std::vector<long long> reps;
                for (auto i : cur) {
                    bool dup = false;
                    for (auto r : reps)
                        if (eq(*U[i].e, *U[r].e))
                            dup = true;
                    if (!dup)
                        reps.push_back(i);
                }
                std::string listing;
                for (auto &e : sb)
                    listing += key(*e) + ";";
                std::vector<std::string> ks;
                for (auto r : reps)
                    ks.push_back(U[r].key);
                std::sort(ks.begin(), ks.end());
                std::string cls;
                for (auto &k : ks)
                    cls += k + ";";
                if (sb.size() != reps.size() || mb.size() != reps.size())
                    R.violation("container:set_basic-size", "containers", seqs, "set_basic/map_basic_basic of " + std::to_string(cur.size())
                                                                                     + " elements has " + std::to_string(sb.size()) + "/"
                                                                                     + std::to_string(mb.size()) + " entries, eq-classes "
                                                                                     + std::to_string(reps.size()) + " (first " + U[cur[0]].recipe + ")");
                auto it = canon.find(cls);
                if (it == canon.end())
                    canon[cls] = listing;
                else if (it->second != listing)
                    R.violation("container:iteration-order-depends-on-insertion", "containers", seqs,
                                "set_basic iteration order differs between insertion orders of the same elements: " + listing + " vs " + it->second);
            }
            if (cur.size() == 4)
                return;
            for (auto p : pool) {
                if (std::find(cur.begin(), cur.end(), p) != cur.end())
                    continue;
                cur.push_back(p);
                rec(cur);
                cur.pop_back();
            }
        };
        std::vector<long long> cur;
        rec(cur);
        R.counters["container_insertion_sequences"] = seqs;
        R.evaluations += seqs;
    }
    R.states = n;
    R.transitions = R.evaluations;
    R.bound_completed = "all ordered pairs and all ordered triples of " + std::to_string(n) + " expressions (" + std::to_string(types.size())
                        + " type codes, up to " + std::to_string(per_type) + " instances each + forced collision set)";
    R.rule = "U2 = per type code the first k distinct instances of the C01 universe plus a forced set of colliding values (signed zeros, NaN "
             "payloads, equal polynomials over different variable sets, multi-limb integers, commuted sums/sets). All pairs: __cmp__ in "
             "{-1,0,1}, zero iff eq, antisymmetric; all triples: transitivity of < and =, RCPBasicKeyLess strict weak order; all insertion "
             "sequences of <=4 elements from a 12-element pool into set_basic/map_basic_basic. distinct_nontrivial = ordered pairs with a != b";
    R.assumptions = {"an exception from __cmp__ between different type codes is not judged", "expressions outside U2 are not covered"};
    return R.finish();
}
