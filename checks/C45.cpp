// C45  Arbitrary-precision evaluation is accurate (MPFR half) -- E1 closed terms + E5 operand table
// (DESIGN 5 C45).  Oracle: own MPFR evaluator at prec+64 bits with a running error budget.
#include "common.h"
#include "key.h"
#include <mpfr.h>
#include <symengine/real_mpfr.h>
#include <symengine/eval_mpfr.h>
#include <symengine/eval.h>
using namespace verif;

// ------------------------------------------------------------------ tiny RAII mpfr
struct MP {
    mpfr_t x;
    explicit MP(mpfr_prec_t p = 64)
    {
        mpfr_init2(x, p);
        mpfr_set_zero(x, 1);
    }
    MP(const MP &o)
    {
        mpfr_init2(x, mpfr_get_prec(o.x));
        mpfr_set(x, o.x, MPFR_RNDN);
    }
    MP &operator=(const MP &o)
    {
        if (this != &o) {
            mpfr_set_prec(x, mpfr_get_prec(o.x));
            mpfr_set(x, o.x, MPFR_RNDN);
        }
        return *this;
    }
    ~MP()
    {
        mpfr_clear(x);
    }
};
static std::string mstr(mpfr_srcptr x, int digits = 40)
{
    char buf[512];
    mpfr_snprintf(buf, sizeof buf, "%.*Rg", digits, x);
    return buf;
}
static std::string mhex(mpfr_srcptr x) // exact: precision + hex mantissa/exponent
{
    if (mpfr_nan_p(x))
        return "nan";
    if (mpfr_inf_p(x))
        return mpfr_sgn(x) > 0 ? "+inf" : "-inf";
    if (mpfr_zero_p(x))
        return "0";
    mpfr_exp_t e;
    char *s = mpfr_get_str(nullptr, &e, 16, 0, x, MPFR_RNDN);
    std::string o = std::string(s) + "@" + std::to_string((long)e);
    mpfr_free_str(s);
    return o;
}

// ------------------------------------------------------------------ oracle value with error radius
// st: the higher, the more it dominates when statuses are combined
enum St { S_OK = 0, S_NONREAL = 1, S_NONFINITE = 2, S_ILL = 3, S_BIG = 4, S_UNSUP = 5 };
static const char *STN[] = {"ok", "nonreal", "nonfinite", "illcond", "bigarg", "unsupported"};
struct OC {
    long prec, wp;
};
struct OV {
    St st = S_OK;
    MP v, r; // v: value at wp bits; r: bound on |library value - v| for a straightforward evaluation at prec bits
    std::string why;
    explicit OV(long wp) : v(wp), r(64) {}
};
static OV bad(const OC &oc, St s, const std::string &why)
{
    OV o(oc.wp);
    o.st = s;
    o.why = why;
    return o;
}
static void radd_pow2(MP &r, long e)
{
    MP h(64);
    mpfr_set_ui_2exp(h.x, 1, e, MPFR_RNDU);
    mpfr_add(r.x, r.x, h.x, MPFR_RNDU);
}
// |a-b| rounded up into a 64-bit radius
static void absdiff(MP &d, mpfr_srcptr a, mpfr_srcptr b)
{
    mpfr_sub(d.x, a, b, MPFR_RNDA);
    mpfr_abs(d.x, d.x, MPFR_RNDU);
}
// o.v holds y; rp the propagated radius; inexact: oracle's own y is rounded
static const long ILL_BITS = 20;
static int g_hu_shift = 0; // 1: allow a full relative 2^-prec per rounding (evaluation order not modelled exactly)
static void finish(const OC &oc, OV &o, MP &rp, bool rounded, bool inexact)
{
    if (!mpfr_zero_p(rp.x)) {
        MP t(64);
        mpfr_mul_2si(t.x, rp.x, -40, MPFR_RNDU);
        mpfr_add(rp.x, rp.x, t.x, MPFR_RNDU);
    }
    if (rounded) {
        MP t(64);
        mpfr_abs(t.x, o.v.x, MPFR_RNDU);
        mpfr_add(t.x, t.x, rp.x, MPFR_RNDU);
        if (!mpfr_zero_p(t.x))
            radd_pow2(rp, (long)mpfr_get_exp(t.x) - oc.prec - 1 + g_hu_shift); // half ulp at prec of the unrounded library value
    }
    if (inexact && !mpfr_zero_p(o.v.x))
        radd_pow2(rp, (long)mpfr_get_exp(o.v.x) - oc.wp + 1);
    mpfr_set(o.r.x, rp.x, MPFR_RNDU);
    // first-order propagation is only meaningful while the bound is small against the value: a node that may have lost
    // more than ILL_BITS bits makes the whole term ill-conditioned (not judged)
    if (!mpfr_zero_p(o.r.x)) {
        if (mpfr_zero_p(o.v.x)) {
            o.st = S_ILL;
            o.why = "zero-with-error";
        } else {
            MP h(64);
            mpfr_set_ui_2exp(h.x, 1, (long)mpfr_get_exp(o.v.x) - oc.prec - 1 + ILL_BITS, MPFR_RNDN);
            if (mpfr_cmp(o.r.x, h.x) > 0) {
                o.st = S_ILL;
                o.why = "lost>20bits";
            }
        }
    }
}

typedef int (*F1)(mpfr_ptr, mpfr_srcptr, mpfr_rnd_t);
typedef int (*F2)(mpfr_ptr, mpfr_srcptr, mpfr_srcptr, mpfr_rnd_t);

static OV fn1(const OC &oc, F1 f, const OV &a, const char *nm, bool rounded = true, long bigexp = 1L << 40)
{
    if (a.st != S_OK)
        return bad(oc, a.st, a.why);
    if (!mpfr_zero_p(a.v.x) && mpfr_get_exp(a.v.x) > bigexp)
        return bad(oc, S_BIG, nm);
    OV o(oc.wp);
    int tern = f(o.v.x, a.v.x, MPFR_RNDN);
    bool pert = !mpfr_zero_p(a.r.x);
    MP lo(oc.wp), hi(oc.wp), ylo(oc.wp), yhi(oc.wp);
    if (pert) {
        mpfr_sub(lo.x, a.v.x, a.r.x, MPFR_RNDD);
        mpfr_add(hi.x, a.v.x, a.r.x, MPFR_RNDU);
        f(ylo.x, lo.x, MPFR_RNDN);
        f(yhi.x, hi.x, MPFR_RNDN);
    }
    if (mpfr_nan_p(o.v.x)) {
        if (pert && (!mpfr_nan_p(ylo.x) || !mpfr_nan_p(yhi.x)))
            return bad(oc, S_ILL, std::string("domain-edge:") + nm);
        return bad(oc, S_NONREAL, nm);
    }
    if (mpfr_inf_p(o.v.x))
        return bad(oc, S_NONFINITE, nm);
    MP rp(64);
    if (pert) {
        if (!mpfr_number_p(ylo.x) || !mpfr_number_p(yhi.x))
            return bad(oc, S_ILL, std::string("domain-edge:") + nm);
        MP d(64);
        absdiff(d, ylo.x, o.v.x);
        mpfr_max(rp.x, rp.x, d.x, MPFR_RNDU);
        absdiff(d, yhi.x, o.v.x);
        mpfr_max(rp.x, rp.x, d.x, MPFR_RNDU);
        long em = -(1L << 40);
        for (mpfr_srcptr y : {(mpfr_srcptr)o.v.x, (mpfr_srcptr)ylo.x, (mpfr_srcptr)yhi.x})
            if (!mpfr_zero_p(y))
                em = std::max(em, (long)mpfr_get_exp(y));
        if (em > -(1L << 40))
            radd_pow2(rp, em - oc.wp + 2);
    }
    finish(oc, o, rp, rounded, tern != 0 || pert);
    return o;
}

static bool is_pow2(mpfr_srcptr x)
{
    return mpfr_regular_p(x) && mpfr_min_prec(x) == 1;
}

static OV fn2(const OC &oc, F2 f, const OV &a, const OV &b, const char *nm, bool rounded = true)
{
    if (a.st != S_OK || b.st != S_OK)
        return a.st >= b.st ? bad(oc, a.st, a.why) : bad(oc, b.st, b.why);
    OV o(oc.wp);
    int tern = f(o.v.x, a.v.x, b.v.x, MPFR_RNDN);
    bool pa = !mpfr_zero_p(a.r.x), pb = !mpfr_zero_p(b.r.x);
    MP y[4] = {MP(oc.wp), MP(oc.wp), MP(oc.wp), MP(oc.wp)};
    MP t(oc.wp);
    if (pa) {
        mpfr_sub(t.x, a.v.x, a.r.x, MPFR_RNDD);
        f(y[0].x, t.x, b.v.x, MPFR_RNDN);
        mpfr_add(t.x, a.v.x, a.r.x, MPFR_RNDU);
        f(y[1].x, t.x, b.v.x, MPFR_RNDN);
    }
    if (pb) {
        mpfr_sub(t.x, b.v.x, b.r.x, MPFR_RNDD);
        f(y[2].x, a.v.x, t.x, MPFR_RNDN);
        mpfr_add(t.x, b.v.x, b.r.x, MPFR_RNDU);
        f(y[3].x, a.v.x, t.x, MPFR_RNDN);
    }
    bool anynum = false, anybad = false;
    for (int k = 0; k < 4; k++) {
        if ((k < 2 && !pa) || (k >= 2 && !pb))
            continue;
        if (mpfr_number_p(y[k].x))
            anynum = true;
        else
            anybad = true;
    }
    if (mpfr_nan_p(o.v.x)) {
        if (anynum)
            return bad(oc, S_ILL, std::string("domain-edge:") + nm);
        return bad(oc, S_NONREAL, nm);
    }
    if (mpfr_inf_p(o.v.x))
        return bad(oc, S_NONFINITE, nm);
    if (anybad)
        return bad(oc, S_ILL, std::string("domain-edge:") + nm);
    MP rp(64), d(64), m(64);
    long em = mpfr_zero_p(o.v.x) ? -(1L << 40) : (long)mpfr_get_exp(o.v.x);
    for (int half = 0; half < 2; half++) {
        if ((half == 0 && !pa) || (half == 1 && !pb))
            continue;
        mpfr_set_zero(m.x, 1);
        for (int k = 2 * half; k < 2 * half + 2; k++) {
            absdiff(d, y[k].x, o.v.x);
            mpfr_max(m.x, m.x, d.x, MPFR_RNDU);
            if (!mpfr_zero_p(y[k].x))
                em = std::max(em, (long)mpfr_get_exp(y[k].x));
        }
        mpfr_add(rp.x, rp.x, m.x, MPFR_RNDU);
    }
    if ((pa || pb) && em > -(1L << 40))
        radd_pow2(rp, em - oc.wp + 3);
    if (rounded && f == (F2)mpfr_mul
        && ((!pa && is_pow2(a.v.x)) || (!pb && is_pow2(b.v.x))))
        rounded = false; // multiplication by an exact power of two is exact in the library too
    finish(oc, o, rp, rounded, tern != 0 || pa || pb);
    return o;
}
// max/min: exact selection, 1-Lipschitz in the sup norm
static OV fnsel(const OC &oc, bool is_max, const OV &a, const OV &b)
{
    if (a.st != S_OK || b.st != S_OK)
        return a.st >= b.st ? bad(oc, a.st, a.why) : bad(oc, b.st, b.why);
    OV o(oc.wp);
    if (is_max)
        mpfr_max(o.v.x, a.v.x, b.v.x, MPFR_RNDN);
    else
        mpfr_min(o.v.x, a.v.x, b.v.x, MPFR_RNDN);
    mpfr_max(o.r.x, a.r.x, b.r.x, MPFR_RNDU);
    return o;
}

// primitive wrappers
static int f_inv(mpfr_ptr r, mpfr_srcptr x, mpfr_rnd_t rn)
{
    return mpfr_ui_div(r, 1, x, rn);
}
static int f_half(mpfr_ptr r, mpfr_srcptr x, mpfr_rnd_t rn)
{
    return mpfr_div_2ui(r, x, 1, rn);
}

// exact leaf: value `exact` (precision large enough to hold it exactly when exact_ok)
static OV leaf_mpfr_exact(const OC &oc, mpfr_srcptr src)
{
    if (!mpfr_number_p(src))
        return bad(oc, S_NONFINITE, "nonfinite-leaf");
    OV o(oc.wp);
    int tern = mpfr_set(o.v.x, src, MPFR_RNDN);
    MP t(oc.prec);
    mpfr_set(t.x, src, MPFR_RNDN);
    MP rp(64);
    absdiff(rp, t.x, src);
    finish(oc, o, rp, false, tern != 0);
    return o;
}
static OV leaf_q(const OC &oc, const mpq_class &q)
{
    OV o(oc.wp);
    int tern = mpfr_set_q(o.v.x, q.get_mpq_t(), MPFR_RNDN);
    MP t(oc.prec);
    mpfr_set_q(t.x, q.get_mpq_t(), MPFR_RNDN);
    MP rp(64);
    absdiff(rp, t.x, o.v.x);
    finish(oc, o, rp, false, tern != 0);
    return o;
}
// a constant computed at wp bits by cf (library rounds it once to prec)
static OV leaf_const(const OC &oc, int (*cf)(mpfr_ptr, mpfr_rnd_t))
{
    OV o(oc.wp);
    cf(o.v.x, MPFR_RNDN);
    MP t(oc.prec);
    mpfr_set(t.x, o.v.x, MPFR_RNDN);
    MP rp(64);
    absdiff(rp, t.x, o.v.x);
    finish(oc, o, rp, false, true);
    return o;
}
static int c_e(mpfr_ptr r, mpfr_rnd_t rn)
{
    MP one(8);
    mpfr_set_ui(one.x, 1, MPFR_RNDN);
    return mpfr_exp(r, one.x, rn);
}

struct UFn {
    TypeID tc;
    const char *name;
    F1 f;
    bool inv_first; // f(1/x)
    long bigexp;    // |x| >= 2^bigexp: neither oracle nor library is run (runaway cost inside MPFR)
};
static const long BIG_TRIG = 256, BIG_GAMMA = 7, BIG_ERF = 12, BIG_NONE = 1L << 40;
static const UFn UFNS[] = {
    {SYMENGINE_SIN, "sin", mpfr_sin, false, BIG_TRIG},       {SYMENGINE_COS, "cos", mpfr_cos, false, BIG_TRIG},
    {SYMENGINE_TAN, "tan", mpfr_tan, false, BIG_TRIG},       {SYMENGINE_COT, "cot", mpfr_cot, false, BIG_TRIG},
    {SYMENGINE_CSC, "csc", mpfr_csc, false, BIG_TRIG},       {SYMENGINE_SEC, "sec", mpfr_sec, false, BIG_TRIG},
    {SYMENGINE_ASIN, "asin", mpfr_asin, false, BIG_NONE},    {SYMENGINE_ACOS, "acos", mpfr_acos, false, BIG_NONE},
    {SYMENGINE_ASEC, "asec", mpfr_acos, true, BIG_NONE},     {SYMENGINE_ACSC, "acsc", mpfr_asin, true, BIG_NONE},
    {SYMENGINE_ATAN, "atan", mpfr_atan, false, BIG_NONE},    {SYMENGINE_ACOT, "acot", mpfr_atan, true, BIG_NONE},
    {SYMENGINE_SINH, "sinh", mpfr_sinh, false, BIG_NONE},    {SYMENGINE_CSCH, "csch", mpfr_csch, false, BIG_NONE},
    {SYMENGINE_COSH, "cosh", mpfr_cosh, false, BIG_NONE},    {SYMENGINE_SECH, "sech", mpfr_sech, false, BIG_NONE},
    {SYMENGINE_TANH, "tanh", mpfr_tanh, false, BIG_NONE},    {SYMENGINE_COTH, "coth", mpfr_coth, false, BIG_NONE},
    {SYMENGINE_ASINH, "asinh", mpfr_asinh, false, BIG_NONE}, {SYMENGINE_ACSCH, "acsch", mpfr_asinh, true, BIG_NONE},
    {SYMENGINE_ACOSH, "acosh", mpfr_acosh, false, BIG_NONE}, {SYMENGINE_ATANH, "atanh", mpfr_atanh, false, BIG_NONE},
    {SYMENGINE_ACOTH, "acoth", mpfr_atanh, true, BIG_NONE},  {SYMENGINE_ASECH, "asech", mpfr_acosh, true, BIG_NONE},
    {SYMENGINE_LOG, "log", mpfr_log, false, BIG_NONE},       {SYMENGINE_GAMMA, "gamma", mpfr_gamma, false, BIG_GAMMA},
    {SYMENGINE_LOGGAMMA, "loggamma", mpfr_lngamma, false, 64}, {SYMENGINE_ERF, "erf", mpfr_erf, false, BIG_ERF},
    {SYMENGINE_ERFC, "erfc", mpfr_erfc, false, BIG_ERF},
};
static const UFn *ufn_of(TypeID tc)
{
    for (auto &u : UFNS)
        if (u.tc == tc)
            return &u;
    return nullptr;
}
static OV apply_ufn(const OC &oc, const UFn &u, const OV &a)
{
    if ((u.tc == SYMENGINE_ERF || u.tc == SYMENGINE_ERFC) && a.st == S_OK) {
        // MPFR 4.2.0 mpfr_erf/mpfr_erfc abort (assertion in erf.c) or loop for ever when x*x rounds to exactly 3 at the
        // internal precision, i.e. for x = +-sqrt(3): neither the oracle nor the library is run on such arguments
        MP t(64);
        mpfr_sqr(t.x, a.v.x, MPFR_RNDN);
        mpfr_sub_ui(t.x, t.x, 3, MPFR_RNDN);
        if (mpfr_zero_p(t.x) || mpfr_get_exp(t.x) < -30)
            return bad(oc, S_BIG, "mpfr_erf(sqrt(3)) bug");
    }
    if (u.inv_first) {
        OV i = fn1(oc, f_inv, a, "1/x");
        return fn1(oc, u.f, i, u.name, true, u.bigexp);
    }
    return fn1(oc, u.f, a, u.name, true, u.bigexp);
}
static OV ov_small_int(const OC &oc, long n)
{
    OV o(oc.wp);
    mpfr_set_si(o.v.x, n, MPFR_RNDN);
    return o;
}
static OV ov_gamma(const OC &oc, const OV &a)
{
    return fn1(oc, mpfr_gamma, a, "gamma", true, BIG_GAMMA);
}
static bool too_big(const OV &a, long bigexp)
{
    return a.st == S_OK && !mpfr_zero_p(a.v.x) && mpfr_get_exp(a.v.x) > bigexp;
}

// structural recursion over the public tree accessors
static OV oeval(const Basic &e, const OC &oc)
{
    TypeID tc = e.get_type_code();
    switch (tc) {
        case SYMENGINE_INTEGER:
            return leaf_q(oc, mpq_class(to_mpz(down_cast<const Integer &>(e).as_integer_class())));
        case SYMENGINE_RATIONAL:
            return leaf_q(oc, to_mpq(down_cast<const Rational &>(e).as_rational_class()));
        case SYMENGINE_REAL_DOUBLE: {
            double d = down_cast<const RealDouble &>(e).i;
            if (!std::isfinite(d))
                return bad(oc, S_NONFINITE, "nonfinite-leaf");
            MP t(53);
            mpfr_set_d(t.x, d, MPFR_RNDN);
            return leaf_mpfr_exact(oc, t.x);
        }
        case SYMENGINE_REAL_MPFR:
            return leaf_mpfr_exact(oc, down_cast<const RealMPFR &>(e).i.get_mpfr_t());
        case SYMENGINE_CONSTANT: {
            const std::string &n = down_cast<const Constant &>(e).get_name();
            if (n == "pi")
                return leaf_const(oc, mpfr_const_pi);
            if (n == "E")
                return leaf_const(oc, c_e);
            if (n == "EulerGamma")
                return leaf_const(oc, mpfr_const_euler);
            if (n == "Catalan")
                return leaf_const(oc, mpfr_const_catalan);
            if (n == "GoldenRatio") { // (1+sqrt(5))/2
                OV s = fn1(oc, mpfr_sqrt, ov_small_int(oc, 5), "sqrt");
                OV t = fn2(oc, mpfr_add, s, ov_small_int(oc, 1), "add");
                return fn1(oc, f_half, t, "half", false);
            }
            return bad(oc, S_UNSUP, "Constant:" + n);
        }
        case SYMENGINE_ADD:
        case SYMENGINE_MUL: {
            vec_basic a = e.get_args();
            OV acc = oeval(*a[0], oc);
            for (size_t k = 1; k < a.size(); k++) {
                OV t = oeval(*a[k], oc);
                acc = fn2(oc, tc == SYMENGINE_ADD ? (F2)mpfr_add : (F2)mpfr_mul, acc, t, tc == SYMENGINE_ADD ? "add" : "mul");
            }
            return acc;
        }
        case SYMENGINE_POW: {
            vec_basic a = e.get_args();
            if (is_a<Constant>(*a[0]) && down_cast<const Constant &>(*a[0]).get_name() == "E")
                return fn1(oc, mpfr_exp, oeval(*a[1], oc), "exp");
            OV b = oeval(*a[0], oc), x = oeval(*a[1], oc);
            if (b.st == S_OK && x.st == S_OK && !mpfr_zero_p(x.r.x)) {
                // base possibly negative and the rounded exponent possibly an integer: real/non-real is decided by rounding
                MP blo(oc.wp), lo(oc.wp), hi(oc.wp);
                mpfr_sub(blo.x, b.v.x, b.r.x, MPFR_RNDD);
                mpfr_sub(lo.x, x.v.x, x.r.x, MPFR_RNDD);
                mpfr_add(hi.x, x.v.x, x.r.x, MPFR_RNDU);
                mpfr_ceil(lo.x, lo.x);
                mpfr_floor(hi.x, hi.x);
                if (mpfr_sgn(blo.x) < 0 && mpfr_cmp(lo.x, hi.x) <= 0)
                    return bad(oc, S_ILL, "pow:negative-base-near-integer-exponent");
            }
            return fn2(oc, mpfr_pow, b, x, "pow");
        }
        case SYMENGINE_ABS:
            return fn1(oc, mpfr_abs, oeval(*e.get_args()[0], oc), "abs", false);
        case SYMENGINE_UNEVALUATED_EXPR:
            return oeval(*e.get_args()[0], oc);
        case SYMENGINE_ATAN2: {
            vec_basic a = e.get_args();
            return fn2(oc, mpfr_atan2, oeval(*a[0], oc), oeval(*a[1], oc), "atan2");
        }
        case SYMENGINE_MAX:
        case SYMENGINE_MIN: {
            vec_basic a = e.get_args();
            OV acc = oeval(*a[0], oc);
            for (size_t k = 1; k < a.size(); k++)
                acc = fnsel(oc, tc == SYMENGINE_MAX, acc, oeval(*a[k], oc));
            return acc;
        }
        case SYMENGINE_BETA: { // B(x,y) = G(x) G(y) / G(x+y)
            vec_basic a = e.get_args();
            OV x = oeval(*a[0], oc), y = oeval(*a[1], oc);
            OV s = fn2(oc, mpfr_add, x, y, "add");
            if (too_big(x, BIG_GAMMA) || too_big(y, BIG_GAMMA) || too_big(s, BIG_GAMMA))
                return bad(oc, S_BIG, "beta");
            OV gx = ov_gamma(oc, x), gy = ov_gamma(oc, y), gs = ov_gamma(oc, s);
            g_hu_shift = 1; // the library multiplies the three factors of the rewritten tree in its own order
            OV num = fn2(oc, mpfr_mul, gx, gy, "mul");
            OV den = fn1(oc, f_inv, gs, "1/x"); // the library evaluates Pow(gamma(x+y), -1) with mpfr_pow
            OV q = fn2(oc, mpfr_mul, num, den, "mul");
            g_hu_shift = 0;
            return q;
        }
        case SYMENGINE_UPPERGAMMA:
        case SYMENGINE_LOWERGAMMA: {
            vec_basic a = e.get_args();
            OV s = oeval(*a[0], oc), x = oeval(*a[1], oc);
            if (too_big(s, BIG_GAMMA) || too_big(x, BIG_GAMMA))
                return bad(oc, S_BIG, "gamma_inc");
            OV u = fn2(oc, mpfr_gamma_inc, s, x, "gamma_inc");
            if (tc == SYMENGINE_UPPERGAMMA)
                return u;
            OV g = ov_gamma(oc, s);
            return fn2(oc, mpfr_sub, g, u, "sub");
        }
        default: {
            const UFn *u = ufn_of(tc);
            if (u)
                return apply_ufn(oc, *u, oeval(*e.get_args()[0], oc));
            return bad(oc, S_UNSUP, type_code_name(tc));
        }
    }
}

// ------------------------------------------------------------------ judging one (term, precision)
enum Cls { RC_OK, RC_BUDGET, RC_NAN_FOR_REAL, RC_NONREAL_AS_REAL, RC_INF_FOR_FINITE, RC_STDEXC, RC_REFUSED, RC_ILL, RC_NONFINITE, RC_NONREAL_NAN, RC_UNSUP, RC_BIG, RC_ZERO_MISMATCH };
static const char *CLSN[] = {"ok", "budget-exceeded", "nan-for-real", "nonreal-as-real", "inf-for-finite", "std-exception", "refused", "illcond",
                             "nonfinite", "nonreal-nan", "unsupported", "bigarg", "budget-exceeded"};
static bool is_viol(int c)
{
    return c == RC_BUDGET || c == RC_NAN_FOR_REAL || c == RC_NONREAL_AS_REAL || c == RC_INF_FOR_FINITE || c == RC_STDEXC || c == RC_ZERO_MISMATCH;
}
struct Res {
    int cls = RC_OK;
    double ratio = 0; // err / budget when judged
    std::string detail, why;
};
// L: receives the library value (precision prec) when one was produced
static Res check_value(const Basic &e, long prec, MP *Lout = nullptr, bool *have = nullptr)
{
    Res R;
    OC oc{prec, prec + 64};
    OV o = oeval(e, oc);
    if (have)
        *have = false;
    if (o.st == S_BIG) {
        R.cls = RC_BIG;
        R.why = o.why;
        return R;
    }
    MP L(prec);
    try {
        eval_mpfr(L.x, e, MPFR_RNDN);
    } catch (SymEngineException &x) {
        R.cls = RC_REFUSED;
        R.why = x.what();
        return R;
    } catch (std::exception &x) {
        R.cls = RC_STDEXC;
        R.detail = std::string("eval_mpfr threw a non-library exception: ") + x.what();
        return R;
    }
    if (Lout)
        *Lout = L;
    if (have)
        *have = true;
    R.why = o.why;
    switch (o.st) {
        case S_UNSUP:
            R.cls = RC_UNSUP;
            return R;
        case S_ILL:
            R.cls = RC_ILL;
            return R;
        case S_NONFINITE:
            R.cls = RC_NONFINITE;
            return R;
        case S_NONREAL:
            if (mpfr_nan_p(L.x))
                R.cls = RC_NONREAL_NAN;
            else {
                R.cls = RC_NONREAL_AS_REAL;
                R.detail = "the expression has no real value (" + o.why + " outside its real domain) but eval_mpfr returned " + mstr(L.x);
            }
            return R;
        default:
            break;
    }
    if (mpfr_nan_p(L.x)) {
        R.cls = RC_NAN_FOR_REAL;
        R.detail = "eval_mpfr returned NaN; oracle value " + mstr(o.v.x);
        return R;
    }
    // conditioning: more than ILL_BITS bits of the result may be lost by a straightforward evaluation
    if (mpfr_zero_p(o.v.x)) {
        if (!mpfr_zero_p(o.r.x)) {
            R.cls = RC_ILL;
            return R;
        }
        if (!mpfr_zero_p(L.x)) {
            R.cls = RC_ZERO_MISMATCH;
            R.detail = "exact value 0, eval_mpfr returned " + mstr(L.x);
        }
        return R;
    }
    MP hu(64);
    mpfr_set_ui_2exp(hu.x, 1, (long)mpfr_get_exp(o.v.x) - prec - 1 + ILL_BITS, MPFR_RNDN);
    if (mpfr_cmp(o.r.x, hu.x) > 0) {
        R.cls = RC_ILL;
        return R;
    }
    if (mpfr_inf_p(L.x)) {
        R.cls = RC_INF_FOR_FINITE;
        R.detail = "eval_mpfr returned " + mstr(L.x) + "; oracle value " + mstr(o.v.x);
        return R;
    }
    MP err(64), tol(64);
    absdiff(err, L.x, o.v.x);
    mpfr_mul_2si(tol.x, o.r.x, -8, MPFR_RNDU);
    mpfr_add(tol.x, tol.x, o.r.x, MPFR_RNDU);
    if (mpfr_zero_p(o.r.x))
        R.ratio = mpfr_zero_p(err.x) ? 0 : 1e300;
    else {
        MP q(64);
        mpfr_div(q.x, err.x, o.r.x, MPFR_RNDU);
        R.ratio = mpfr_get_d(q.x, MPFR_RNDU);
    }
    if (mpfr_cmp(err.x, tol.x) > 0) {
        R.cls = RC_BUDGET;
        MP ulp(64);
        mpfr_set_ui_2exp(ulp.x, 1, (long)mpfr_get_exp(o.v.x) - prec, MPFR_RNDN);
        mpfr_div(ulp.x, err.x, ulp.x, MPFR_RNDN);
        R.detail = "eval_mpfr = " + mstr(L.x) + ", true value " + mstr(o.v.x) + ", |error| = " + mstr(err.x, 6) + " = " + mstr(ulp.x, 6)
                   + " ulp; error budget of a straightforward evaluation = " + mstr(o.r.x, 6);
    }
    return R;
}
static const Basic *localize(const Basic &e, long prec, int cls)
{
    for (auto &ch : e.get_args()) {
        Res r = check_value(*ch, prec);
        if (is_viol(r.cls))
            return localize(*ch, prec, r.cls);
    }
    return &e;
}

// ------------------------------------------------------------------ term generator
static bool contains_mpfr(const Basic &e)
{
    if (is_a<RealMPFR>(e))
        return true;
    for (auto &a : e.get_args())
        if (contains_mpfr(*a))
            return true;
    return false;
}
static std::string mykey(const Basic &e)
{
    if (is_a<RealMPFR>(e)) {
        const RealMPFR &m = down_cast<const RealMPFR &>(e);
        return "M" + std::to_string((long)m.get_prec()) + ":" + mhex(m.i.get_mpfr_t());
    }
    if (!contains_mpfr(e))
        return key(e);
    std::vector<std::string> ks;
    for (auto &a : e.get_args())
        ks.push_back(mykey(*a));
    TypeID t = e.get_type_code();
    if (t == SYMENGINE_ADD || t == SYMENGINE_MUL || t == SYMENGINE_MAX || t == SYMENGINE_MIN)
        std::sort(ks.begin(), ks.end());
    std::string o = type_code_name(t) + "(";
    for (auto &k : ks)
        o += k + ",";
    return o + ")";
}
static bool has_nonreal_number(const Basic &e)
{
    if (is_a_Number(e))
        return !(is_a<Integer>(e) || is_a<Rational>(e) || is_a<RealDouble>(e) || is_a<RealMPFR>(e));
    for (auto &a : e.get_args())
        if (has_nonreal_number(*a))
            return true;
    return false;
}

typedef RCP<const Basic> (*U1)(const RCP<const Basic> &);
typedef RCP<const Basic> (*B2)(const RCP<const Basic> &, const RCP<const Basic> &);
static RCP<const Basic> b_max(const RCP<const Basic> &a, const RCP<const Basic> &b)
{
    return SymEngine::max({a, b});
}
static RCP<const Basic> b_min(const RCP<const Basic> &a, const RCP<const Basic> &b)
{
    return SymEngine::min({a, b});
}
static RCP<const Basic> u_log(const RCP<const Basic> &a)
{
    return SymEngine::log(a);
}
struct OpD {
    const char *name;
    U1 u;
    B2 b;
    bool restricted; // member of the restricted (n<=3) alphabet
    bool l2;         // binary op used for 2-node terms in the quick tier
};
static std::vector<OpD> OPS;
static void init_ops()
{
    auto U = [](const char *n, U1 f, bool r = false) { OPS.push_back(OpD{n, f, nullptr, r, true}); };
    auto B = [](const char *n, B2 f, bool r = false, bool l2 = false) { OPS.push_back(OpD{n, nullptr, f, r, l2}); };
    U("sin", SymEngine::sin, true);
    U("cos", SymEngine::cos);
    U("tan", SymEngine::tan);
    U("cot", SymEngine::cot);
    U("csc", SymEngine::csc);
    U("sec", SymEngine::sec);
    U("asin", SymEngine::asin);
    U("acos", SymEngine::acos);
    U("asec", SymEngine::asec, true);
    U("acsc", SymEngine::acsc);
    U("atan", SymEngine::atan);
    U("acot", SymEngine::acot, true);
    U("sinh", SymEngine::sinh);
    U("csch", SymEngine::csch);
    U("cosh", SymEngine::cosh);
    U("sech", SymEngine::sech);
    U("tanh", SymEngine::tanh, true);
    U("coth", SymEngine::coth);
    U("asinh", SymEngine::asinh);
    U("acsch", SymEngine::acsch);
    U("acosh", SymEngine::acosh);
    U("atanh", SymEngine::atanh);
    U("acoth", SymEngine::acoth);
    U("asech", SymEngine::asech);
    U("log", u_log, true);
    U("exp", SymEngine::exp, true);
    U("gamma", SymEngine::gamma, true);
    U("loggamma", SymEngine::loggamma);
    U("erf", SymEngine::erf);
    U("erfc", SymEngine::erfc, true);
    U("abs", SymEngine::abs);
    U("sqrt", SymEngine::sqrt);
    U("neg", SymEngine::neg);
    U("floor", SymEngine::floor);
    U("sign", SymEngine::sign);
    B("add", SymEngine::add, true, true);
    B("sub", SymEngine::sub, false, true);
    B("mul", SymEngine::mul, true, true);
    B("div", SymEngine::div, false, true);
    B("pow", SymEngine::pow, true, true);
    B("atan2", SymEngine::atan2, true, true);
    B("max", b_max, false, true);
    B("min", b_min);
    B("beta", SymEngine::beta);
    B("uppergamma", SymEngine::uppergamma);
    B("lowergamma", SymEngine::lowergamma);
}

struct TState {
    RCP<const Basic> e;
    int op, a, b; // op<0: leaf
    unsigned char nodes;
    bool compose; // may be used as an argument of further constructors
};
static std::vector<TState> TS;
static std::vector<std::string> LEAFN;
static uint64_t g_dup = 0, g_dropped_huge = 0, g_ctor_throw = 0, g_guarded = 0;

static std::string recipe(int i)
{
    const TState &s = TS[i];
    if (s.op < 0)
        return LEAFN[i];
    const OpD &o = OPS[s.op];
    if (o.u)
        return std::string(o.name) + "(" + recipe(s.a) + ")";
    return std::string(o.name) + "(" + recipe(s.a) + ", " + recipe(s.b) + ")";
}
static uint64_t key_hash(const Basic &e)
{
    std::string k = mykey(e);
    return fnv(k) ^ (std::hash<std::string>()(k) * 0x9e3779b97f4a7c15ULL);
}
static long exact_bits(const Basic &e) // total bit size of an Integer/Rational, -1 otherwise
{
    if (is_a<Integer>(e))
        return mpz_sizeinbase(to_mpz(down_cast<const Integer &>(e).as_integer_class()).get_mpz_t(), 2);
    if (is_a<Rational>(e)) {
        mpq_class q = to_mpq(down_cast<const Rational &>(e).as_rational_class());
        return mpz_sizeinbase(q.get_num_mpz_t(), 2) + mpz_sizeinbase(q.get_den_mpz_t(), 2);
    }
    return -1;
}
static long exact_absnum_bits(const Basic &e)
{
    if (is_a<Integer>(e))
        return mpz_sizeinbase(to_mpz(down_cast<const Integer &>(e).as_integer_class()).get_mpz_t(), 2);
    if (is_a<Rational>(e))
        return mpz_sizeinbase(to_mpq(down_cast<const Rational &>(e).as_rational_class()).get_num_mpz_t(), 2);
    return -1;
}
// constructor calls that would make the library build astronomically large exact numbers are not part of the space
static bool guard_ok(int op, const Basic &a, const Basic *b)
{
    std::string n = OPS[op].name;
    if (n == "gamma" || n == "beta" || n == "uppergamma" || n == "lowergamma") {
        if (exact_absnum_bits(a) > 6)
            return false;
        if (b && n == "beta" && exact_absnum_bits(*b) > 6)
            return false;
    }
    if (n == "pow" && b) {
        long eb = exact_absnum_bits(*b);
        if (eb > 10) { // |numerator of the exponent| >= 1024
            bool inexact_or_const = is_a<Constant>(a) || is_a<RealDouble>(a) || is_a<RealMPFR>(a);
            if (!inexact_or_const)
                return false;
        } else if (eb >= 0 && exact_bits(a) >= 0) {
            if (exact_bits(a) * (1L << eb) > 65536)
                return false;
        }
    }
    return true;
}
static RCP<const Basic> construct(int op, int a, int b)
{
    const OpD &o = OPS[op];
    if (o.u)
        return o.u(TS[a].e);
    return o.b(TS[a].e, TS[b].e);
}
struct Rec {
    int op, a, b;
};
static const long PRECS[4] = {64, 113, 200, 1000};
static int g_nprec = 4; // the first g_nprec precisions are used by the current layer
enum {
    K_EVALS, K_JUDGED, K_ILL, K_NONFINITE, K_NONREAL_NAN, K_REFUSED, K_UNSUP, K_BIG, K_Q1, K_Q2, K_Q3, K_Q4, K_NUMBER_TERMS, K_EVALF_CHECKED,
    K_EXACT_MATCH
};
static std::vector<std::string> eval_counter_names()
{
    return {"term_precision_pairs",
            "judged_against_error_budget",
            "skipped_ill_conditioned(>20 bits lost or domain edge)",
            "skipped_oracle_nonfinite(pole/overflow)",
            "nonreal_value_library_nan(accepted)",
            "library_refused(exception)",
            "oracle_unsupported_node(not judged)",
            "skipped_big_argument(not run)",
            "judged_error_le_25%_of_budget",
            "judged_error_le_50%_of_budget",
            "judged_error_le_75%_of_budget",
            "judged_error_le_100%_of_budget",
            "terms_that_are_plain_numbers",
            "evalf_results_checked(type,precision,bit-identical to eval_mpfr)",
            "judged_with_zero_error"};
}

static bool has_float_leaf(const Basic &e)
{
    if (is_a<RealDouble>(e) || is_a<RealMPFR>(e))
        return true;
    for (auto &a : e.get_args())
        if (has_float_leaf(*a))
            return true;
    return false;
}
static void eval_term(int si, Ctx &c)
{
    const TState &s = TS[si];
    const Basic &e = *s.e;
    bool number = is_a_Number(e);
    if (number)
        c.count(K_NUMBER_TERMS);
    bool any_judged = false;
    std::string root = type_code_name(e.get_type_code());
    for (int pi = 0; pi < g_nprec; pi++) {
        long prec = PRECS[pi];
        c.eval();
        c.count(K_EVALS);
        MP L(prec);
        bool have = false;
        Res r = check_value(e, prec, &L, &have);
        c.outcome(root + ":" + CLSN[r.cls] + (r.cls == RC_REFUSED || r.cls == RC_UNSUP ? ":" + r.why.substr(0, 40) : ""));
        switch (r.cls) {
            case RC_OK:
                c.count(K_JUDGED);
                any_judged = true;
                c.count(r.ratio <= 0.25 ? K_Q1 : r.ratio <= 0.5 ? K_Q2 : r.ratio <= 0.75 ? K_Q3 : K_Q4);
                if (r.ratio == 0)
                    c.count(K_EXACT_MATCH);
                break;
            case RC_ILL:
                c.count(K_ILL);
                break;
            case RC_NONFINITE:
                c.count(K_NONFINITE);
                break;
            case RC_NONREAL_NAN:
                c.count(K_NONREAL_NAN);
                break;
            case RC_REFUSED:
                c.count(K_REFUSED);
                break;
            case RC_UNSUP:
                c.count(K_UNSUP);
                break;
            case RC_BIG:
                c.count(K_BIG);
                break;
            default: {
                const Basic *cu = localize(e, prec, r.cls);
                std::string kinds;
                for (auto &a : cu->get_args())
                    kinds += (kinds.empty() ? "" : ",") + type_code_name(a->get_type_code());
                std::string fl;
                for (auto &a : cu->get_args())
                    if (is_a<RealDouble>(*a) || is_a<RealMPFR>(*a))
                        fl = "[" + type_code_name(a->get_type_code()) + "-arg]";
                if (fl.empty() && has_float_leaf(*cu))
                    fl = "[float-inside]";
                c.violation(std::string("eval_mpfr:") + CLSN[r.cls] + ":" + type_code_name(cu->get_type_code()) + fl,
                            "eval_mpfr(" + recipe(si) + " = " + sstr(s.e) + ", " + std::to_string(prec) + " bits, RNDN): " + r.detail
                                + "; smallest failing subtree " + sstr(cu->rcp_from_this()) + " [" + type_code_name(cu->get_type_code()) + "("
                                + kinds + ")]");
                break;
            }
        }
        if (r.cls == RC_BIG)
            continue;
        // evalf(e, prec, Real): same value, a RealMPFR of exactly the requested precision
        RCP<const Basic> ev;
        bool threw = false;
        std::string what;
        try {
            ev = evalf(e, prec, EvalfDomain::Real);
        } catch (SymEngineException &x) {
            threw = true;
            what = x.what();
        } catch (std::exception &x) {
            c.violation("evalf:std-exception:" + root, "evalf(" + recipe(si) + ", " + std::to_string(prec) + ", Real) threw " + x.what());
            continue;
        }
        if (threw != !have) {
            c.violation("evalf:refusal-differs-from-eval_mpfr:" + root, "evalf(" + recipe(si) + ", " + std::to_string(prec) + ", Real) "
                                                                            + (threw ? "threw " + what : "returned " + sstr(ev))
                                                                            + " but eval_mpfr " + (have ? "returned a value" : "threw"));
            continue;
        }
        if (threw)
            continue;
        c.count(K_EVALF_CHECKED);
        if (!is_a<RealMPFR>(*ev)) {
            c.violation("evalf:result-type:" + type_code_name(ev->get_type_code()),
                        "evalf(" + recipe(si) + ", " + std::to_string(prec) + ", Real) returned a " + type_code_name(ev->get_type_code()));
            continue;
        }
        const RealMPFR &m = down_cast<const RealMPFR &>(*ev);
        if ((long)m.get_prec() != prec)
            c.violation("evalf:result-precision", "evalf(" + recipe(si) + ", " + std::to_string(prec) + ", Real) returned precision "
                                                      + std::to_string((long)m.get_prec()));
        bool same = (mpfr_nan_p(L.x) && mpfr_nan_p(m.i.get_mpfr_t())) || mpfr_equal_p(L.x, m.i.get_mpfr_t());
        if (!same)
            c.violation("evalf:differs-from-eval_mpfr:" + root, "evalf(" + recipe(si) + ", " + std::to_string(prec) + ", Real) = "
                                                                    + mstr(m.i.get_mpfr_t()) + " but eval_mpfr(RNDN) = " + mstr(L.x));
    }
    if (any_judged && !number)
        c.nontrivial();
    if (c.index % 4099 == 0) {
        MP L(200);
        bool have = false;
        Res r = check_value(e, 200, &L, &have);
        c.sample("{\"term\":" + jstr(recipe(si)) + ",\"tree\":" + jstr(sstr(s.e)) + ",\"prec\":200,\"class\":" + jstr(CLSN[r.cls])
                 + ",\"library\":" + jstr(have ? mstr(L.x, 62) : "-") + ",\"err_over_budget\":" + std::to_string(r.ratio) + "}");
    }
}

// ------------------------------------------------------------------ E5: RealMPFR arithmetic on operand pairs
struct ANum {
    std::string name, kind;
    RCP<const Number> n;
    bool complex = false;
    mpq_class q;   // exact value of a real operand
    long prec = 0; // RealMPFR precision, 0 otherwise
};
static std::vector<ANum> AN;
static RCP<const Number> mk_mpfr(const char *dec, long prec)
{
    mpfr_class m(prec);
    mpfr_set_str(m.get_mpfr_t(), dec, 10, MPFR_RNDN);
    return real_mpfr(std::move(m));
}
static RCP<const Number> mk_mpfr_pi(long prec)
{
    mpfr_class m(prec);
    mpfr_const_pi(m.get_mpfr_t(), MPFR_RNDN);
    return real_mpfr(std::move(m));
}
static void add_anum(const std::string &name, const RCP<const Number> &n)
{
    ANum a;
    a.name = name;
    a.n = n;
    a.kind = type_code_name(n->get_type_code());
    if (is_a<Integer>(*n))
        a.q = mpq_class(to_mpz(down_cast<const Integer &>(*n).as_integer_class()));
    else if (is_a<Rational>(*n))
        a.q = to_mpq(down_cast<const Rational &>(*n).as_rational_class());
    else if (is_a<RealDouble>(*n))
        a.q = mpq_from_double(down_cast<const RealDouble &>(*n).i);
    else if (is_a<RealMPFR>(*n)) {
        const RealMPFR &m = down_cast<const RealMPFR &>(*n);
        a.prec = m.get_prec();
        mpfr_get_q(a.q.get_mpq_t(), m.i.get_mpfr_t());
    } else
        a.complex = true;
    AN.push_back(a);
}
enum { A_ADD, A_SUB, A_MUL, A_DIV, A_POW, A_NOPS };
static const char *AOPN[] = {"add", "sub", "mul", "div", "pow"};
static RCP<const Basic> arith(int level, int op, const RCP<const Number> &a, const RCP<const Number> &b)
{
    if (level == 0) {
        switch (op) {
            case A_ADD:
                return a->add(*b);
            case A_SUB:
                return a->sub(*b);
            case A_MUL:
                return a->mul(*b);
            case A_DIV:
                return a->div(*b);
            default:
                return a->pow(*b);
        }
    }
    switch (op) {
        case A_ADD:
            return add(a, b);
        case A_SUB:
            return sub(a, b);
        case A_MUL:
            return mul(a, b);
        case A_DIV:
            return div(a, b);
        default:
            return pow(a, b);
    }
}
enum { X_VALUE, X_POLE, X_COMPLEX, X_UNDECIDED, X_OVERFLOW };
struct Expect {
    int kind = X_VALUE;
    bool exact_known = false;
    mpq_class exact;
    MP val; // correctly rounded (RNDN) at P bits
    explicit Expect(long P) : val(P) {}
};
static bool q_is_int(const mpq_class &q)
{
    return mpz_cmp_ui(q.get_den_mpz_t(), 1) == 0;
}
static void expect_arith(int op, const mpq_class &a, const mpq_class &b, long P, Expect &X)
{
    auto set_exact = [&](const mpq_class &t) {
        X.exact_known = true;
        X.exact = t;
        mpfr_set_q(X.val.x, t.get_mpq_t(), MPFR_RNDN);
    };
    switch (op) {
        case A_ADD:
            return set_exact(a + b);
        case A_SUB:
            return set_exact(a - b);
        case A_MUL:
            return set_exact(a * b);
        case A_DIV:
            if (b == 0) {
                X.kind = X_POLE;
                return;
            }
            return set_exact(a / b);
        default:
            break;
    }
    // pow
    if (b == 0)
        return set_exact(mpq_class(1));
    if (a == 0) {
        if (b > 0)
            return set_exact(mpq_class(0));
        X.kind = X_POLE;
        return;
    }
    bool bint = q_is_int(b);
    if (a < 0 && !bint) {
        X.kind = X_COMPLEX;
        return;
    }
    if (bint && mpz_sizeinbase(b.get_num_mpz_t(), 2) <= 9
        && (long)(mpz_sizeinbase(a.get_num_mpz_t(), 2) + mpz_sizeinbase(a.get_den_mpz_t(), 2)) * 512 < 4000000) {
        long n = mpz_get_si(b.get_num_mpz_t());
        mpq_class base = n < 0 ? mpq_class(1) / a : a;
        unsigned long m = n < 0 ? -n : n;
        mpq_class t;
        mpz_pow_ui(t.get_num_mpz_t(), base.get_num_mpz_t(), m);
        mpz_pow_ui(t.get_den_mpz_t(), base.get_den_mpz_t(), m);
        t.canonicalize();
        return set_exact(t);
    }
    // |a|^b at 4000 bits, sign by parity for negative a with integer b
    const long HP = 4000;
    MP A(HP), B(HP), T(HP), lo(HP), hi(HP), eps(HP);
    mpq_class aa = abs(a);
    mpfr_set_q(A.x, aa.get_mpq_t(), MPFR_RNDN);
    mpfr_set_q(B.x, b.get_mpq_t(), MPFR_RNDN);
    mpfr_pow(T.x, A.x, B.x, MPFR_RNDN);
    if (!mpfr_number_p(T.x) || mpfr_zero_p(T.x)) {
        X.kind = X_OVERFLOW;
        return;
    }
    if (a < 0 && mpz_odd_p(b.get_num_mpz_t()))
        mpfr_neg(T.x, T.x, MPFR_RNDN);
    // relative error of T <= 2^-3900 generously (|b log a| < 2^90 in this alphabet)
    mpfr_mul_2si(eps.x, T.x, -3000, MPFR_RNDN);
    mpfr_sub(lo.x, T.x, eps.x, MPFR_RNDN);
    mpfr_add(hi.x, T.x, eps.x, MPFR_RNDN);
    MP rl(P), rh(P);
    mpfr_set(rl.x, lo.x, MPFR_RNDN);
    mpfr_set(rh.x, hi.x, MPFR_RNDN);
    if (!mpfr_equal_p(rl.x, rh.x)) {
        X.kind = X_UNDECIDED;
        return;
    }
    mpfr_set(X.val.x, rl.x, MPFR_RNDN);
}
static std::string signclass(const ANum &a)
{
    if (a.complex)
        return a.kind;
    return a.kind + (a.q < 0 ? "<0" : a.q == 0 ? "=0" : ">0");
}
enum { KA_CASES, KA_EXACT, KA_REFUSED_COMPLEX, KA_REFUSED_REAL, KA_POLE, KA_UNDECIDED, KA_OVERFLOW, KA_NONNUMBER, KA_BASIC_DIV_TOL, KA_EXACT_RESULT, KA_BASIC_OTHER_KIND };

static void arith_case(long long i, Ctx &c)
{
    long long n = AN.size();
    int op = i % A_NOPS;
    int level = (i / A_NOPS) % 2;
    const ANum &b = AN[(i / A_NOPS / 2) % n];
    const ANum &a = AN[i / A_NOPS / 2 / n];
    if (a.prec == 0 && b.prec == 0)
        return; // no RealMPFR operand: other properties
    c.eval();
    c.count(KA_CASES);
    long P = std::max(a.prec, b.prec);
    std::string call = std::string(level ? "" : "Number::") + AOPN[op] + "(" + a.name + ", " + b.name + ")";
    std::string cls = std::string(level ? "basic-" : "") + AOPN[op] + "(" + a.kind + "," + b.kind + ")";
    bool anycomplex = a.complex || b.complex;
    Expect X(P);
    if (!anycomplex)
        expect_arith(op, a.q, b.q, P, X);
    RCP<const Basic> r;
    try {
        r = arith(level, op, a.n, b.n);
    } catch (SymEngineException &x) {
        if (anycomplex || X.kind == X_COMPLEX) {
            c.count(KA_REFUSED_COMPLEX);
            c.outcome("refused-complex:" + cls);
        } else {
            c.count(KA_REFUSED_REAL);
            c.outcome(std::string("refused-real:") + AOPN[op] + "(" + signclass(a) + "," + signclass(b) + "):" + std::string(x.what()).substr(0, 30));
        }
        return;
    } catch (std::exception &x) {
        c.violation("arith:std-exception:" + cls, call + " threw a non-library exception: " + x.what());
        return;
    }
    c.nontrivial();
    std::string rt = type_code_name(r->get_type_code());
    if (anycomplex) {
        c.outcome("complex-operand-result:" + cls + "->" + rt); // needs MPC in general; only counted
        return;
    }
    if (X.kind == X_POLE) {
        c.count(KA_POLE);
        c.outcome("pole:" + cls + "->" + rt);
        if (is_a<RealMPFR>(*r) && mpfr_number_p(down_cast<const RealMPFR &>(*r).i.get_mpfr_t()))
            c.violation("arith:finite-at-pole:" + cls, call + " returned the finite value " + sstr(r));
        return;
    }
    if (X.kind == X_UNDECIDED) {
        c.count(KA_UNDECIDED);
        return;
    }
    if (X.kind == X_OVERFLOW) {
        c.count(KA_OVERFLOW);
        c.outcome("overflow:" + cls + "->" + rt);
        return;
    }
    if (X.kind == X_COMPLEX) {
        c.outcome("complex-expected:" + cls + "->" + rt);
        if (is_a<RealMPFR>(*r)) {
            mpfr_srcptr v = down_cast<const RealMPFR &>(*r).i.get_mpfr_t();
            c.violation(std::string(mpfr_nan_p(v) ? "arith:nan-for-complex:" : "arith:real-for-complex:") + AOPN[op] + "(" + signclass(a) + ","
                            + signclass(b) + ")",
                        call + ": the result is not real; the library returned RealMPFR " + mstr(v)
                            + " instead of a complex number or a refusal (other operand kinds throw 'Result is complex')");
        }
        return;
    }
    // a real value is expected
    if (is_a<Integer>(*r) || is_a<Rational>(*r)) {
        ExtReal er;
        to_extreal(*r, er);
        c.count(KA_EXACT_RESULT);
        c.outcome("exact-result:" + cls);
        bool ok = X.exact_known ? (er.v == X.exact) : false;
        if (!ok)
            c.violation("arith:wrong-exact-result:" + cls, call + " returned the exact number " + sstr(r) + "; expected "
                                                               + (X.exact_known ? X.exact.get_str() : mstr(X.val.x)));
        return;
    }
    // Basic-level constructors drop zero terms / unit factors (add(0.0, x) = x, pow(x, 0.0) = 1.0 of the exponent's kind):
    // an exactly correct value of another kind or precision is accepted there (canonical forms are C03/C06's business)
    if (level == 1 && X.exact_known && (is_a<RealDouble>(*r) || (is_a<RealMPFR>(*r) && (long)down_cast<const RealMPFR &>(*r).get_prec() != P))) {
        ExtReal er;
        mpq_class got;
        bool fin = true;
        if (is_a<RealDouble>(*r)) {
            fin = to_extreal(*r, er) && !er.inf;
            got = er.v;
        } else {
            mpfr_srcptr v = down_cast<const RealMPFR &>(*r).i.get_mpfr_t();
            fin = mpfr_number_p(v);
            if (fin)
                mpfr_get_q(got.get_mpq_t(), v);
        }
        if (fin && got == X.exact) {
            c.count(KA_BASIC_OTHER_KIND);
            c.outcome("basic-exact-value-other-kind:" + cls + "->" + rt);
            return;
        }
    }
    if (!is_a<RealMPFR>(*r)) {
        if (is_a_Number(*r))
            c.violation("arith:result-type:" + cls + "->" + rt, call + " returned " + sstr(r) + " (" + rt + "); expected a RealMPFR of "
                                                                    + std::to_string(P) + " bits with value " + mstr(X.val.x));
        else {
            c.count(KA_NONNUMBER);
            c.outcome("unevaluated:" + cls + "->" + rt);
        }
        return;
    }
    const RealMPFR &m = down_cast<const RealMPFR &>(*r);
    mpfr_srcptr L = m.i.get_mpfr_t();
    if ((long)m.get_prec() != P) {
        c.violation("arith:result-precision:" + cls, call + " returned precision " + std::to_string((long)m.get_prec()) + ", operands' precision is "
                                                         + std::to_string(P));
        return;
    }
    if (mpfr_equal_p(L, X.val.x)) {
        c.count(KA_EXACT);
        c.outcome("correctly-rounded:" + cls);
        return;
    }
    double ulps = 1e300;
    if (mpfr_number_p(L) && !mpfr_zero_p(X.val.x)) {
        MP d(64), u(64);
        absdiff(d, L, X.val.x);
        mpfr_set_ui_2exp(u.x, 1, (long)mpfr_get_exp(X.val.x) - P, MPFR_RNDN);
        mpfr_div(d.x, d.x, u.x, MPFR_RNDU);
        ulps = mpfr_get_d(d.x, MPFR_RNDU);
    }
    if (level == 1 && op == A_DIV) {
        // Basic-level div(a,b) is mul(a, pow(b,-1)) by construction: two roundings, the first one at the precision of b
        // (53 bits for a RealDouble); outside RealMPFR's dispatch, so 1 ulp of the coarsest inexact operand is allowed
        long pmin = P;
        for (const ANum *z : {&a, &b}) {
            if (z->prec)
                pmin = std::min(pmin, z->prec);
            else if (z->kind == "RealDouble")
                pmin = std::min(pmin, 53L);
        }
        if (ulps <= std::ldexp(1.0, (int)(P - pmin))) {
            c.count(KA_BASIC_DIV_TOL);
            c.outcome("basic-div-two-roundings:" + cls);
            return;
        }
    }
    std::string vc = "wrong-value";
    if (ulps <= 1.0)
        vc = "not-correctly-rounded"; // two roundings
    else {
        // explained by rounding the exact operand to P bits before a (correctly rounded) operation?
        mpq_class a2 = a.q, b2 = b.q;
        MP t(P);
        if (!a.prec && a.kind != "RealDouble") {
            mpfr_set_q(t.x, a.q.get_mpq_t(), MPFR_RNDN);
            mpfr_get_q(a2.get_mpq_t(), t.x);
        }
        if (!b.prec && b.kind != "RealDouble") {
            mpfr_set_q(t.x, b.q.get_mpq_t(), MPFR_RNDN);
            mpfr_get_q(b2.get_mpq_t(), t.x);
        }
        if (a2 != a.q || b2 != b.q) {
            Expect X2(P);
            expect_arith(op, a2, b2, P, X2);
            if (X2.kind == X_VALUE && mpfr_number_p(L)) {
                MP d(64), u(64);
                absdiff(d, L, X2.val.x);
                mpfr_set_ui_2exp(u.x, 1, (long)mpfr_get_exp(X2.val.x) - P, MPFR_RNDN);
                if (mpfr_cmp(d.x, u.x) <= 0)
                    vc = "exact-operand-pre-rounded";
            }
        }
    }
    c.outcome(vc + ":" + cls);
    c.violation("arith:" + vc + ":" + cls,
                call + " = " + mstr(L, 70) + " (" + mhex(L) + "); the correctly rounded (RNDN, " + std::to_string(P) + " bits) result is "
                    + mstr(X.val.x, 70) + " (" + mhex(X.val.x) + "); difference " + std::to_string(ulps) + " ulp");
}

// ------------------------------------------------------------------ RealMPFR predicates, comparisons, functions of RealMPFR arguments
static std::vector<int> MIDX; // indices of the RealMPFR members of AN
static std::vector<std::pair<std::string, U1>> MF; // constructors applied to RealMPFR arguments
enum { KM_PRED, KM_PAIR, KM_FN, KM_FN_JUDGED, KM_FN_REFUSED, KM_FN_ILL, KM_FN_INT, KM_FN_OTHER };

static void pred_case(long long i, Ctx &c)
{
    const ANum &a = AN[MIDX[i]];
    const RealMPFR &m = down_cast<const RealMPFR &>(*a.n);
    c.eval();
    c.count(KM_PRED);
    c.nontrivial();
    int s = sgn(a.q);
    auto chk = [&](const char *nm, bool got, bool want) {
        if (got != want)
            c.violation(std::string("RealMPFR::") + nm, std::string("RealMPFR ") + a.name + ": " + nm + "() = " + (got ? "true" : "false")
                                                           + ", value sign is " + std::to_string(s));
    };
    chk("is_zero", m.is_zero(), s == 0);
    chk("is_positive", m.is_positive(), s > 0);
    chk("is_negative", m.is_negative(), s < 0);
    chk("is_exact", m.is_exact(), false);
    chk("is_complex", m.is_complex(), false);
    c.outcome("sign:" + std::to_string(s));
    // neg: exact, same precision
    RCP<const Basic> ng = neg(a.n);
    bool ok = false;
    if (is_a<RealMPFR>(*ng)) {
        const RealMPFR &g = down_cast<const RealMPFR &>(*ng);
        mpq_class q;
        mpfr_get_q(q.get_mpq_t(), g.i.get_mpfr_t());
        ok = g.get_prec() == m.get_prec() && q == -a.q;
    }
    if (!ok)
        c.violation("RealMPFR:neg", "neg(" + a.name + ") = " + sstr(ng));
}
static void pair_case(long long i, Ctx &c)
{
    long long n = MIDX.size();
    const ANum &a = AN[MIDX[i / n]], &b = AN[MIDX[i % n]];
    c.eval();
    c.count(KM_PAIR);
    if (i / n != i % n)
        c.nontrivial();
    bool same = a.prec == b.prec && a.q == b.q;
    bool e1 = a.n->__eq__(*b.n), e2 = eq(*a.n, *b.n);
    c.outcome(std::string("eq:") + (e1 ? "1" : "0"));
    if (e1 != same || e2 != same)
        c.violation("RealMPFR:__eq__", "__eq__(" + a.name + ", " + b.name + ") = " + std::to_string(e1) + "/" + std::to_string(e2)
                                           + "; same precision and value: " + std::to_string(same));
    int cab = a.n->__cmp__(*b.n), cba = b.n->__cmp__(*a.n);
    if (cab != -cba || (cab == 0) != same)
        c.violation("RealMPFR:compare", "__cmp__(" + a.name + ", " + b.name + ") = " + std::to_string(cab) + ", reversed " + std::to_string(cba)
                                            + ", identical: " + std::to_string(same));
    if (a.prec == b.prec) {
        int want = cmp(a.q, b.q);
        want = (want > 0) - (want < 0);
        if (cab != want)
            c.violation("RealMPFR:compare-order", "__cmp__(" + a.name + ", " + b.name + ") = " + std::to_string(cab) + " but the values compare "
                                                      + std::to_string(want));
    }
}
static void fn_case(long long i, Ctx &c)
{
    long long nf = MF.size();
    const ANum &a = AN[MIDX[i / nf]];
    const auto &f = MF[i % nf];
    std::string call = f.first + "(" + a.name + ")";
    c.eval();
    c.count(KM_FN);
    RCP<const Basic> r;
    try {
        r = f.second(a.n);
    } catch (SymEngineException &x) {
        c.count(KM_FN_REFUSED);
        c.outcome("refused:" + f.first + ":" + std::string(x.what()).substr(0, 24));
        return;
    } catch (std::exception &x) {
        c.violation("fn(RealMPFR):std-exception:" + f.first, call + " threw " + x.what());
        return;
    }
    c.nontrivial();
    std::string rt = type_code_name(r->get_type_code());
    c.outcome(f.first + "->" + rt);
    if (f.first == "floor" || f.first == "ceiling" || f.first == "truncate") {
        c.count(KM_FN_INT);
        mpz_class w;
        if (f.first == "floor")
            mpz_fdiv_q(w.get_mpz_t(), a.q.get_num_mpz_t(), a.q.get_den_mpz_t());
        else if (f.first == "ceiling")
            mpz_cdiv_q(w.get_mpz_t(), a.q.get_num_mpz_t(), a.q.get_den_mpz_t());
        else
            mpz_tdiv_q(w.get_mpz_t(), a.q.get_num_mpz_t(), a.q.get_den_mpz_t());
        if (!is_a<Integer>(*r) || to_mpz(down_cast<const Integer &>(*r).as_integer_class()) != w)
            c.violation("fn(RealMPFR):wrong:" + f.first, call + " = " + sstr(r) + ", expected " + w.get_str());
        return;
    }
    if (!is_a<RealMPFR>(*r)) {
        c.count(KM_FN_OTHER);
        return; // stays symbolic or exact (e.g. sign): evaluated as a term elsewhere
    }
    const RealMPFR &m = down_cast<const RealMPFR &>(*r);
    if ((long)m.get_prec() != a.prec) {
        c.violation("fn(RealMPFR):result-precision:" + f.first, call + " has precision " + std::to_string((long)m.get_prec()));
        return;
    }
    // oracle: the function node applied to the exact leaf, budget at the leaf's precision
    OC oc{a.prec, a.prec + 64};
    OV x = leaf_mpfr_exact(oc, down_cast<const RealMPFR &>(*a.n).i.get_mpfr_t());
    OV o(oc.wp);
    std::string fnm = f.first;
    if (fnm == "exp")
        o = fn1(oc, mpfr_exp, x, "exp");
    else if (fnm == "abs")
        o = fn1(oc, mpfr_abs, x, "abs", false);
    else if (fnm == "sqrt")
        o = fn1(oc, mpfr_sqrt, x, "sqrt");
    else {
        const UFn *u = nullptr;
        for (auto &uu : UFNS)
            if (fnm == uu.name)
                u = &uu;
        if (!u) {
            c.count(KM_FN_OTHER);
            return;
        }
        o = apply_ufn(oc, *u, x);
    }
    mpfr_srcptr L = m.i.get_mpfr_t();
    if (o.st == S_NONREAL) {
        c.violation(std::string(mpfr_nan_p(L) ? "fn(RealMPFR):nan-for-complex:" : "fn(RealMPFR):real-for-complex:") + fnm,
                    call + " has no real value but the library returned RealMPFR " + mstr(L));
        return;
    }
    if (o.st != S_OK) {
        c.count(KM_FN_ILL);
        return;
    }
    MP err(64), tol(64);
    if (!mpfr_number_p(L)) {
        c.violation("fn(RealMPFR):nonfinite:" + fnm, call + " = " + mstr(L) + ", true value " + mstr(o.v.x));
        return;
    }
    absdiff(err, L, o.v.x);
    mpfr_mul_2si(tol.x, o.r.x, -8, MPFR_RNDU);
    mpfr_add(tol.x, tol.x, o.r.x, MPFR_RNDU);
    c.count(KM_FN_JUDGED);
    if (mpfr_cmp(err.x, tol.x) > 0)
        c.violation("fn(RealMPFR):budget-exceeded:" + fnm, call + " = " + mstr(L, 70) + "; true value " + mstr(o.v.x, 70) + "; |error| "
                                                               + mstr(err.x, 6) + " exceeds the budget " + mstr(o.r.x, 6));
}

// directed rounding of single-rounding leaves through eval_mpfr(result, leaf, rnd)
static std::vector<int> DIRLEAF;
static void dir_case(long long i, Ctx &c)
{
    static const mpfr_rnd_t RN[3] = {MPFR_RNDD, MPFR_RNDU, MPFR_RNDZ};
    static const char *RNN[3] = {"RNDD", "RNDU", "RNDZ"};
    int ri = i % 3, pi = (i / 3) % 4;
    int si = DIRLEAF[i / 12];
    long prec = PRECS[pi];
    const Basic &e = *TS[si].e;
    c.eval();
    OC oc{prec, prec + 64};
    OV o = oeval(e, oc);
    MP L(prec), W(prec);
    try {
        eval_mpfr(L.x, e, RN[ri]);
    } catch (SymEngineException &) {
        c.outcome("refused");
        return;
    }
    if (o.st != S_OK)
        return;
    c.nontrivial();
    mpfr_set(W.x, o.v.x, RN[ri]); // exact leaves: v is exact; constants: wrong only if within 2^-(prec+64) of a representable number
    if (is_a<Rational>(e))
        mpfr_set_q(W.x, to_mpq(down_cast<const Rational &>(e).as_rational_class()).get_mpq_t(), RN[ri]);
    c.outcome(std::string(RNN[ri]) + (mpfr_equal_p(L.x, W.x) ? ":ok" : ":bad"));
    if (!mpfr_equal_p(L.x, W.x))
        c.violation(std::string("eval_mpfr:directed-rounding:") + type_code_name(e.get_type_code()),
                    "eval_mpfr(" + recipe(si) + ", " + std::to_string(prec) + " bits, " + RNN[ri] + ") = " + mhex(L.x) + ", expected " + mhex(W.x));
}

// ------------------------------------------------------------------ layers
static std::unordered_map<uint64_t, int> INDEX;
static int add_state_idx(const RCP<const Basic> &e, int op, int a, int b, int nodes, bool *fresh)
{
    *fresh = false;
    if (is_a<Integer>(*e) && exact_bits(*e) > 4096) {
        g_dropped_huge++;
        return -1;
    }
    uint64_t h = key_hash(*e);
    auto it = INDEX.find(h);
    if (it != INDEX.end()) {
        g_dup++;
        return it->second;
    }
    TState s;
    s.e = e;
    s.op = op;
    s.a = a;
    s.b = b;
    s.nodes = nodes;
    s.compose = !is_a_Number(*e) && !has_nonreal_number(*e);
    TS.push_back(s);
    INDEX[h] = (int)TS.size() - 1;
    *fresh = true;
    return (int)TS.size() - 1;
}
static std::string rec_desc(const Rec &r)
{
    const OpD &o = OPS[r.op];
    return std::string(o.name) + "(" + recipe(r.a) + (o.b ? ", " + recipe(r.b) : "") + ")";
}
// constructs every rec in crash-isolated workers, then (for the clean ones) in the parent; evaluates the fresh states
static std::vector<int> run_layer(const std::string &tag, const std::vector<Rec> &recs, int nodes, std::vector<int> &fresh_out)
{
    CaseSet cc;
    cc.name = "construct-" + tag;
    cc.n = recs.size();
    cc.counter_names = {"constructor_calls", "constructor_calls_guarded(out of space: would build astronomically large exact numbers)",
                        "constructor_threw"};
    cc.desc = [&](long long i) { return rec_desc(recs[i]); };
    cc.crash_sig = [&](long long i, const std::string &oc) { return "construct:" + oc + ":" + OPS[recs[i].op].name; };
    cc.body = [&](long long i, Ctx &c) {
        const Rec &r = recs[i];
        if (!guard_ok(r.op, *TS[r.a].e, OPS[r.op].b ? TS[r.b].e.get() : nullptr)) {
            c.count(1);
            return;
        }
        c.count(0);
        try {
            RCP<const Basic> e = construct(r.op, r.a, r.b);
            c.outcome("ctor:" + std::string(OPS[r.op].name) + "->" + type_code_name(e->get_type_code()));
            (void)key_hash(*e);
        } catch (std::exception &x) {
            c.count(2);
            c.outcome(std::string("ctor-throw:") + OPS[r.op].name);
        }
    };
    run_cases(cc);
    std::vector<int> idx(recs.size(), -1);
    fresh_out.clear();
    if (replaying() && opts().only_check != "eval-" + tag && opts().only_check.rfind("construct-", 0) == 0)
        return idx;
    for (size_t i = 0; i < recs.size(); i++) {
        const Rec &r = recs[i];
        if (cc.bad.count(i) || !guard_ok(r.op, *TS[r.a].e, OPS[r.op].b ? TS[r.b].e.get() : nullptr))
            continue;
        try {
            RCP<const Basic> e = construct(r.op, r.a, r.b);
            bool fresh;
            idx[i] = add_state_idx(e, r.op, r.a, r.b, nodes, &fresh);
            if (fresh)
                fresh_out.push_back(idx[i]);
        } catch (std::exception &) {
            g_ctor_throw++;
        }
    }
    CaseSet ce;
    ce.name = "eval-" + tag;
    ce.n = fresh_out.size();
    ce.counter_names = eval_counter_names();
    ce.hang_s = 60;
    ce.desc = [&](long long i) { return recipe(fresh_out[i]) + (g_nprec == 4 ? " at 64/113/200/1000 bits" : " at 64/113 bits"); };
    ce.crash_sig = [&](long long i, const std::string &oc) {
        return "eval_mpfr:" + oc + ":" + type_code_name(TS[fresh_out[i]].e->get_type_code());
    };
    ce.body = [&](long long i, Ctx &c) { eval_term(fresh_out[i], c); };
    run_cases(ce);
    run().counters["states_after_" + tag] = TS.size();
    return idx;
}

int main(int argc, char **argv)
{
    init(argc, argv, "C45");
    init_ops();
    bool thorough = opts().thorough();
    Run &R = run();
    auto Q = [](long a, long b) { return RCP<const Basic>(Rational::from_two_ints(a, b)); };
    RCP<const Basic> BIGI = integer(integer_class("1180591620717411303425")); // 2^70+1
    struct LeafD {
        std::string name;
        RCP<const Basic> e;
        bool r, l2, thorough_only;
    };
    std::vector<LeafD> LD = {
        {"0", integer(0), false, false, false},
        {"1", integer(1), false, false, false},
        {"-1", integer(-1), false, true, false},
        {"2", integer(2), true, true, false},
        {"3", integer(3), false, false, false},
        {"10", integer(10), false, false, false},
        {"1/2", Q(1, 2), false, false, false},
        {"-2/3", Q(-2, 3), false, false, false},
        {"1/3", Q(1, 3), false, true, false},
        {"7/5", Q(7, 5), false, false, false},
        {"2^70+1", BIGI, false, false, false},
        {"pi", pi, true, true, false},
        {"E", E, false, true, false},
        {"EulerGamma", EulerGamma, false, false, false},
        {"Catalan", Catalan, false, false, false},
        {"GoldenRatio", GoldenRatio, false, false, false},
        {"0.5", real_double(0.5), false, true, false},
        {"-1.25", real_double(-1.25), false, false, false},
        {"mpfr64(0.3)", mk_mpfr("0.3", 64), false, true, false},
        {"mpfr200(1.7)", mk_mpfr("1.7", 200), true, true, false},
        {"5/2", Q(5, 2), false, false, true},
        {"mpfr1000(0.9)", mk_mpfr("0.9", 1000), false, false, true},
        {"mpfr64(-2.5)", mk_mpfr("-2.5", 64), false, false, true},
    };
    std::vector<int> L0, L0r, L0l2;
    for (auto &l : LD) {
        if (l.thorough_only && !thorough)
            continue;
        bool fresh;
        int i = add_state_idx(l.e, -1, -1, -1, 0, &fresh);
        if (!fresh) {
            fprintf(stderr, "duplicate leaf %s\n", l.name.c_str());
            return 2;
        }
        LEAFN.resize(TS.size());
        LEAFN[i] = l.name;
        L0.push_back(i);
        if (l.r)
            L0r.push_back(i);
        if (l.l2)
            L0l2.push_back(i);
    }
    const int NOPS = OPS.size();

    // ---- E5 table alphabet
    {
        auto I = [](const char *s) { return RCP<const Number>(integer(integer_class(s))); };
        auto QQ = [](const char *n, const char *d) {
            return RCP<const Number>(Rational::from_two_ints(*integer(integer_class(n)), *integer(integer_class(d))));
        };
        add_anum("Integer:0", I("0"));
        add_anum("Integer:1", I("1"));
        add_anum("Integer:-1", I("-1"));
        add_anum("Integer:2", I("2"));
        add_anum("Integer:3", I("3"));
        add_anum("Integer:-7", I("-7"));
        add_anum("Integer:10", I("10"));
        add_anum("Integer:2^70+1", I("1180591620717411303425"));
        add_anum("Rational:1/2", QQ("1", "2"));
        add_anum("Rational:-2/3", QQ("-2", "3"));
        add_anum("Rational:1/3", QQ("1", "3"));
        add_anum("Rational:7/5", QQ("7", "5"));
        add_anum("Rational:(2^70+1)/3", QQ("1180591620717411303425", "3"));
        add_anum("RealDouble:0.5", real_double(0.5));
        add_anum("RealDouble:-2.0", real_double(-2.0));
        add_anum("RealDouble:0.1", real_double(0.1));
        add_anum("RealDouble:3.0", real_double(3.0));
        add_anum("RealDouble:-0.75", real_double(-0.75));
        add_anum("RealMPFR64:0", mk_mpfr("0", 64));
        add_anum("RealMPFR64:1", mk_mpfr("1", 64));
        add_anum("RealMPFR64:-1.5", mk_mpfr("-1.5", 64));
        add_anum("RealMPFR64:0.1", mk_mpfr("0.1", 64));
        add_anum("RealMPFR64:pi", mk_mpfr_pi(64));
        add_anum("RealMPFR64:1/3", mk_mpfr("0.33333333333333333333333333333333333", 64));
        add_anum("RealMPFR64:3", mk_mpfr("3", 64));
        add_anum("RealMPFR64:-2", mk_mpfr("-2", 64));
        add_anum("RealMPFR64:20.7", mk_mpfr("20.7", 64));
        add_anum("RealMPFR200:0.1", mk_mpfr("0.1", 200));
        add_anum("RealMPFR200:pi", mk_mpfr_pi(200));
        add_anum("RealMPFR200:-2/3", mk_mpfr("-0.666666666666666666666666666666666666666666666666666666666666666666666666666666", 200));
        add_anum("RealMPFR200:2^100+1", mk_mpfr("1267650600228229401496703205377", 200));
        add_anum("RealMPFR200:1", mk_mpfr("1", 200));
        add_anum("RealMPFR24:0.1", mk_mpfr("0.1", 24));
        add_anum("RealMPFR1000:0.9", mk_mpfr("0.9", 1000));
        add_anum("Complex:I", RCP<const Number>(SymEngine::I));
        add_anum("Complex:1+I/2", Complex::from_two_nums(*integer(1), *Rational::from_two_ints(1, 2)));
        add_anum("ComplexDouble:1+2i", complex_double(std::complex<double>(1.0, 2.0)));
        if (thorough) {
            add_anum("Integer:-2", I("-2"));
            add_anum("Rational:-7/2", QQ("-7", "2"));
            add_anum("RealDouble:1e10", real_double(1e10));
            add_anum("RealMPFR64:1e-5", mk_mpfr("0.00001", 64));
            add_anum("RealMPFR200:-1.3", mk_mpfr("-1.3", 200));
            add_anum("RealMPFR113:2.5", mk_mpfr("2.5", 113));
        }
        for (size_t i = 0; i < AN.size(); i++)
            if (AN[i].prec)
                MIDX.push_back(i);
    }
    {
        CaseSet cs;
        cs.name = "arith-pairs";
        cs.n = (long long)AN.size() * AN.size() * 2 * A_NOPS;
        cs.counter_names = {"arith_cases_with_a_RealMPFR_operand", "arith_results_bit_identical_to_correct_rounding", "arith_refused_complex_result",
                            "arith_refused_although_result_is_real", "arith_pole_not_judged", "arith_rounding_undecided_at_4000_bits",
                            "arith_overflow_or_underflow_not_judged", "arith_result_unevaluated", "basic_div_within_1ulp(two roundings by construction)",
                            "arith_exact_result(Integer/Rational)",
                            "basic_level_exact_value_of_other_kind_or_precision(accepted)"};
        cs.desc = [&](long long i) {
            long long n = AN.size();
            return std::string((i / A_NOPS) % 2 ? "" : "Number::") + AOPN[i % A_NOPS] + "(" + AN[i / A_NOPS / 2 / n].name + ", "
                   + AN[(i / A_NOPS / 2) % n].name + ")";
        };
        cs.crash_sig = [&](long long i, const std::string &oc) {
            long long n = AN.size();
            return "arith:" + oc + ":" + AOPN[i % A_NOPS] + "(" + AN[i / A_NOPS / 2 / n].kind + "," + AN[(i / A_NOPS / 2) % n].kind + ")";
        };
        cs.body = arith_case;
        run_cases(cs);
    }
    {
        CaseSet cs;
        cs.name = "mpfr-predicates";
        cs.n = MIDX.size();
        cs.counter_names = {"predicate_cases", "comparison_pairs", "function_of_RealMPFR_cases", "function_of_RealMPFR_judged",
                            "function_of_RealMPFR_refused", "function_of_RealMPFR_not_judged(pole/ill)", "function_of_RealMPFR_integer_result",
                            "function_of_RealMPFR_other_result"};
        cs.desc = [&](long long i) { return "predicates of " + AN[MIDX[i]].name; };
        cs.body = pred_case;
        run_cases(cs);
        CaseSet cp;
        cp.name = "mpfr-compare";
        cp.n = (long long)MIDX.size() * MIDX.size();
        cp.counter_names = cs.counter_names;
        cp.desc = [&](long long i) { return "compare " + AN[MIDX[i / MIDX.size()]].name + " , " + AN[MIDX[i % MIDX.size()]].name; };
        cp.body = pair_case;
        run_cases(cp);
        for (auto &o : OPS)
            if (o.u && std::string(o.name) != "neg" && std::string(o.name) != "sign")
                MF.push_back({o.name, o.u});
        MF.push_back({"ceiling", SymEngine::ceiling});
        MF.push_back({"truncate", SymEngine::truncate});
        CaseSet cf;
        cf.name = "fn-of-mpfr";
        cf.n = (long long)MIDX.size() * MF.size();
        cf.counter_names = cs.counter_names;
        cf.desc = [&](long long i) { return MF[i % MF.size()].first + "(" + AN[MIDX[i / MF.size()]].name + ")"; };
        cf.crash_sig = [&](long long i, const std::string &oc) { return "fn(RealMPFR):" + oc + ":" + MF[i % MF.size()].first; };
        cf.body = fn_case;
        run_cases(cf);
    }

    // ---- E1 closed terms
    std::vector<int> fresh0 = L0, dummy;
    {
        CaseSet ce;
        ce.name = "eval-L0";
        ce.n = L0.size();
        ce.counter_names = eval_counter_names();
        ce.desc = [&](long long i) { return recipe(L0[i]); };
        ce.body = [&](long long i, Ctx &c) { eval_term(L0[i], c); };
        run_cases(ce);
        DIRLEAF.clear();
        for (int i : L0)
            if (!(is_a<Constant>(*TS[i].e) && down_cast<const Constant &>(*TS[i].e).get_name() == "GoldenRatio"))
                DIRLEAF.push_back(i);
        CaseSet cd;
        cd.name = "leaf-directed-rounding";
        cd.n = (long long)DIRLEAF.size() * 12;
        cd.desc = [&](long long i) { return recipe(DIRLEAF[i / 12]) + " directed rounding"; };
        cd.body = dir_case;
        run_cases(cd);
    }
    std::vector<Rec> recs1;
    for (int op = 0; op < NOPS; op++) {
        if (OPS[op].u)
            for (int a : L0)
                recs1.push_back({op, a, -1});
        else
            for (int a : L0)
                for (int b : L0)
                    recs1.push_back({op, a, b});
    }
    std::vector<int> fresh1, fresh2, fresh3;
    std::vector<int> idx1 = run_layer("L1", recs1, 1, fresh1);
    std::string bound = "all closed terms with <= 1 constructor call over " + std::to_string(L0.size()) + " leaves x " + std::to_string(NOPS)
                        + " constructors";
    std::vector<Rec> recs2;
    std::vector<int> idx2;
    if (!past_deadline()) {
        // T1q: 1-call terms over the 9 "l2" leaves; second call: unary constructors on T1q (quick) / on all of T1 (thorough),
        // binary constructors with T1q on one side and a leaf on the other
        std::set<int> l2set(L0l2.begin(), L0l2.end()), t1q;
        for (size_t k = 0; k < recs1.size(); k++)
            if (idx1[k] >= 0 && TS[idx1[k]].op >= 0 && TS[idx1[k]].compose && l2set.count(recs1[k].a) && (recs1[k].b < 0 || l2set.count(recs1[k].b)))
                t1q.insert(idx1[k]);
        std::vector<int> Lbig, Lsmall; // leaves for the main / the remaining binary constructors
        for (int l : L0) {
            const std::string &n = LEAFN[l];
            if (n == "2" || n == "1/3" || n == "pi")
                Lsmall.push_back(l);
            if (thorough ? l2set.count(l) > 0 : (n == "2" || n == "1/3" || n == "pi" || n == "mpfr64(0.3)"))
                Lbig.push_back(l);
        }
        std::set<int> done_u;
        auto costly = [&](int t) { // quick: incomplete-gamma/beta terms are composed further only in the thorough tier
            std::string on = OPS[TS[t].op].name;
            return !thorough && (on == "uppergamma" || on == "lowergamma" || on == "beta");
        };
        auto push_unary = [&](int t) {
            if (!TS[t].compose || costly(t) || !done_u.insert(t).second)
                return;
            for (int op = 0; op < NOPS; op++)
                if (OPS[op].u)
                    recs2.push_back({op, t, -1});
        };
        for (int t : t1q)
            push_unary(t);
        if (thorough)
            for (int t : fresh1) {
                std::string on = TS[t].op >= 0 ? OPS[TS[t].op].name : "";
                if (on == "uppergamma" || on == "lowergamma" || on == "beta")
                    continue; // the costly incomplete-gamma/beta terms are composed further only when built over the l2 leaves (t1q)
                push_unary(t);
            }
        for (int t : t1q)
            for (int op = 0; op < NOPS; op++) {
                if (OPS[op].u || (!thorough && !OPS[op].l2) || costly(t))
                    continue;
                for (int l : OPS[op].l2 ? Lbig : Lsmall) {
                    recs2.push_back({op, t, l});
                    recs2.push_back({op, l, t});
                }
            }
        R.counters["T1q_terms(1 call over the 9 l2 leaves)"] = t1q.size();
        g_nprec = thorough ? 4 : 2;
        idx2 = run_layer("L2", recs2, 2, fresh2);
        g_nprec = 4;
        if (R.exhaustive)
            bound += thorough ? "; 2 calls: every unary constructor on every 1-call term (beta/uppergamma/lowergamma terms: only those over the 9 l2-leaves); every binary constructor with a 1-call term over the 9 "
                                "l2-leaves on one side and a leaf on the other ({add,sub,mul,div,pow,atan2,max}: 9 leaves; others: {2,1/3,pi})"
                              : "; 2 calls (judged at 64 and 113 bits): every unary constructor on every 1-call term over the 9 l2-leaves; binary "
                                "{add,sub,mul,div,pow,atan2,max} with such a term on one side and a leaf of {2,1/3,pi,mpfr64(0.3)} on the other";
    }
    if (thorough && !past_deadline()) {
        // n <= 3 over the restricted alphabet
        std::set<int> r0(L0r.begin(), L0r.end()), r1, r2;
        for (size_t k = 0; k < recs1.size(); k++) {
            const Rec &r = recs1[k];
            if (idx1[k] < 0 || !OPS[r.op].restricted || !TS[idx1[k]].compose || TS[idx1[k]].op < 0)
                continue;
            if (r0.count(r.a) && (r.b < 0 || r0.count(r.b)))
                r1.insert(idx1[k]);
        }
        for (size_t k = 0; k < recs2.size(); k++) {
            const Rec &r = recs2[k];
            if (idx2[k] < 0 || !OPS[r.op].restricted || !TS[idx2[k]].compose || TS[idx2[k]].op < 0)
                continue;
            bool ok = r.b < 0 ? r1.count(r.a) > 0 : ((r1.count(r.a) && r0.count(r.b)) || (r0.count(r.a) && r1.count(r.b)));
            if (ok)
                r2.insert(idx2[k]);
        }
        std::vector<Rec> recs3;
        for (int op = 0; op < NOPS; op++) {
            if (!OPS[op].restricted)
                continue;
            if (OPS[op].u) {
                for (int t : r2)
                    recs3.push_back({op, t, -1});
            } else {
                for (int t : r2)
                    for (int l : r0) {
                        recs3.push_back({op, t, l});
                        recs3.push_back({op, l, t});
                    }
                for (int s : r1)
                    for (int t : r1)
                        recs3.push_back({op, s, t});
            }
        }
        R.counters["restricted_1node_terms"] = r1.size();
        R.counters["restricted_2node_terms"] = r2.size();
        run_layer("L3", recs3, 3, fresh3);
        if (R.exhaustive) {
            int nr = 0;
            for (auto &o : OPS)
                nr += o.restricted;
            bound += "; plus all terms with 3 constructor calls over the restricted alphabet (" + std::to_string(r0.size()) + " leaves, "
                     + std::to_string(nr) + " constructors)";
        }
    }
    {
        std::string cl;
        for (auto &o : R.outcomes)
            if (o.rfind("refused-real:", 0) == 0)
                cl += (cl.empty() ? "" : ",") + jstr(o);
        R.extra_json = "\"arith_refusals_although_result_is_real\":[" + cl + "]";
    }
    R.counters["duplicate_arrivals"] = g_dup;
    R.counters["dropped_huge_integer_states"] = g_dropped_huge;
    R.states = TS.size();
    R.transitions = R.evaluations;
    R.bound_completed = bound + "; E5: all ordered pairs of " + std::to_string(AN.size()) + " numbers with >= 1 RealMPFR operand x {add,sub,mul,div,pow}"
                        + " x {Number method, Basic-level constructor}; " + std::to_string(MIDX.size()) + " RealMPFR values x "
                        + std::to_string(MF.size()) + " functions";
    R.rule = "E1: closed numeric terms built by real constructor calls (de-duplicated by structural key incl. precision+mantissa of RealMPFR leaves), "
             "each evaluated with eval_mpfr(RNDN) and evalf(.,prec,Real) at 64/113/200/1000 bits and compared with an independent MPFR evaluator at "
             "prec+64 bits that carries a running error bound (half-ulp at prec per rounding, propagated by perturbing each argument by its bound): "
             "|library - true| must not exceed the bound; evalf must return a RealMPFR of exactly prec bits bit-identical to eval_mpfr. "
             "E5: operand-pair table, result must be bit-identical to the exact result (GMP mpq / 4000-bit pow) rounded once to nearest at the "
             "operands' precision. distinct_nontrivial = non-number terms judged at >= 1 precision + arithmetic/function cases that returned a value";
    R.assumptions = {"MPFR elementary/special functions are correctly rounded at prec+64 bits (oracle) and GMP mpq arithmetic is exact",
                     "first-order error propagation (argument perturbation by its own bound); cases losing > 20 bits or touching a domain edge are skipped",
                     "acot(x)=atan(1/x), asec=acos(1/x), acsc=asin(1/x), acsch=asinh(1/x), asech=acosh(1/x), acoth=atanh(1/x); "
                     "Beta=G(x)G(y)/G(x+y); lowergamma=G(s)-G(s,x)",
                     "a NaN result where the expression has no real value is accepted for eval_mpfr/evalf(Real)",
                     "eval_mpc/ComplexMPC need mpc.h, absent from the image: MPC half not covered"};
    return R.finish();
}
