// key.h -- structural state key, independent of the library's __hash__/__eq__/compare/__str__
// (DESIGN.md 3.9).  Two expressions with equal keys are structurally identical trees up to the
// internal order of commutative containers.
#ifndef VERIF_KEY_H
#define VERIF_KEY_H
#include "exact.h"
#include <symengine/add.h>
#include <symengine/mul.h>
#include <symengine/pow.h>
#include <symengine/symbol.h>
#include <symengine/functions.h>
#include <symengine/sets.h>
#include <symengine/logic.h>
#include <symengine/polys/uintpoly.h>
#include <symengine/polys/uratpoly.h>
#include <symengine/polys/uexprpoly.h>
#include <symengine/polys/msymenginepoly.h>
#include <symengine/fields.h>
#include <symengine/matrices/matrix_expr.h>
#include <symengine/matrices/immutable_dense_matrix.h>
#include <symengine/matrices/matrix_symbol.h>

namespace verif
{
using namespace SymEngine;

inline std::string hexd(double d)
{
    uint64_t u;
    memcpy(&u, &d, 8);
    char b[24];
    snprintf(b, sizeof b, "%016llx", (unsigned long long)u);
    return b;
}
inline std::string intstr(const integer_class &i)
{
    std::ostringstream s;
    s << i;
    return s.str();
}

struct KeyCtx {
    std::map<size_t, int> dummy_rank;
};

inline void collect_dummies(const Basic &e, std::set<size_t> &out)
{
    if (is_a<Dummy>(e)) {
        out.insert(down_cast<const Dummy &>(e).get_index());
        return;
    }
    for (auto &a : e.get_args())
        collect_dummies(*a, out);
}

inline std::string key_rec(const Basic &e, KeyCtx &kc);

inline std::string key_sorted(const vec_basic &v, KeyCtx &kc)
{
    std::vector<std::string> ks;
    for (auto &a : v)
        ks.push_back(key_rec(*a, kc));
    std::sort(ks.begin(), ks.end());
    std::string o;
    for (auto &k : ks)
        o += k + ",";
    return o;
}

inline std::string key_rec(const Basic &e, KeyCtx &kc)
{
    switch (e.get_type_code()) {
        case SYMENGINE_INTEGER:
            return "I:" + intstr(down_cast<const Integer &>(e).as_integer_class());
        case SYMENGINE_RATIONAL: {
            const rational_class &q = down_cast<const Rational &>(e).as_rational_class();
            return "Q:" + intstr(get_num(q)) + "/" + intstr(get_den(q));
        }
        case SYMENGINE_COMPLEX: {
            const Complex &c = down_cast<const Complex &>(e);
            return "C:" + intstr(get_num(c.real_)) + "/" + intstr(get_den(c.real_)) + "," + intstr(get_num(c.imaginary_))
                   + "/" + intstr(get_den(c.imaginary_));
        }
        case SYMENGINE_REAL_DOUBLE:
            return "D:" + hexd(down_cast<const RealDouble &>(e).i);
        case SYMENGINE_COMPLEX_DOUBLE: {
            std::complex<double> z = down_cast<const ComplexDouble &>(e).i;
            return "Z:" + hexd(z.real()) + "," + hexd(z.imag());
        }
        case SYMENGINE_SYMBOL:
            return "S:" + down_cast<const Symbol &>(e).get_name();
        case SYMENGINE_DUMMY: {
            const Dummy &d = down_cast<const Dummy &>(e);
            auto it = kc.dummy_rank.find(d.get_index());
            return "Dm:" + d.get_name() + "#" + std::to_string(it == kc.dummy_rank.end() ? -1 : it->second);
        }
        case SYMENGINE_CONSTANT:
            return "K:" + down_cast<const Constant &>(e).get_name();
        case SYMENGINE_INFTY:
            return "Inf(" + key_rec(*down_cast<const Infty &>(e).get_direction(), kc) + ")";
        case SYMENGINE_NOT_A_NUMBER:
            return "NaN";
        case SYMENGINE_ADD: {
            const Add &a = down_cast<const Add &>(e);
            std::vector<std::string> ks;
            for (auto &p : a.get_dict())
                ks.push_back(key_rec(*p.second, kc) + "*" + key_rec(*p.first, kc));
            std::sort(ks.begin(), ks.end());
            std::string o = "Add(" + key_rec(*a.get_coef(), kc) + ";";
            for (auto &k : ks)
                o += k + ",";
            return o + ")";
        }
        case SYMENGINE_MUL: {
            const Mul &m = down_cast<const Mul &>(e);
            std::vector<std::string> ks;
            for (auto &p : m.get_dict())
                ks.push_back(key_rec(*p.first, kc) + "^" + key_rec(*p.second, kc));
            std::sort(ks.begin(), ks.end());
            std::string o = "Mul(" + key_rec(*m.get_coef(), kc) + ";";
            for (auto &k : ks)
                o += k + ",";
            return o + ")";
        }
        case SYMENGINE_FUNCTIONSYMBOL: {
            const FunctionSymbol &f = down_cast<const FunctionSymbol &>(e);
            std::string o = "F:" + f.get_name() + "(";
            for (auto &a : f.get_args())
                o += key_rec(*a, kc) + ",";
            return o + ")";
        }
        case SYMENGINE_FINITESET:
        case SYMENGINE_UNION:
        case SYMENGINE_INTERSECTION:
        case SYMENGINE_AND:
        case SYMENGINE_OR:
        case SYMENGINE_MAX:
        case SYMENGINE_MIN:
            return type_code_name(e.get_type_code()) + "{" + key_sorted(e.get_args(), kc) + "}";
        case SYMENGINE_BOOLEAN_ATOM:
            return down_cast<const BooleanAtom &>(e).get_val() ? "True" : "False";
        case SYMENGINE_UINTPOLY: {
            const UIntPoly &p = down_cast<const UIntPoly &>(e);
            std::string o = "UIntPoly[" + key_rec(*p.get_var(), kc) + ";";
            for (auto &t : p.get_poly().get_dict())
                o += std::to_string(t.first) + ":" + intstr(t.second) + ",";
            return o + "]";
        }
        case SYMENGINE_URATPOLY: {
            const URatPoly &p = down_cast<const URatPoly &>(e);
            std::string o = "URatPoly[" + key_rec(*p.get_var(), kc) + ";";
            for (auto &t : p.get_poly().get_dict())
                o += std::to_string(t.first) + ":" + intstr(get_num(t.second)) + "/" + intstr(get_den(t.second)) + ",";
            return o + "]";
        }
        case SYMENGINE_UEXPRPOLY: {
            const UExprPoly &p = down_cast<const UExprPoly &>(e);
            std::string o = "UExprPoly[" + key_rec(*p.get_var(), kc) + ";";
            for (auto &t : p.get_poly().get_dict())
                o += std::to_string(t.first) + ":" + key_rec(*t.second.get_basic(), kc) + ",";
            return o + "]";
        }
        case SYMENGINE_MINTPOLY: {
            const MIntPoly &p = down_cast<const MIntPoly &>(e);
            std::string o = "MIntPoly[";
            for (auto &v : p.get_vars())
                o += key_rec(*v, kc) + ",";
            o += ";";
            std::vector<std::string> ts;
            for (auto &t : p.get_poly().dict_) {
                std::string m;
                for (auto x : t.first)
                    m += std::to_string(x) + ".";
                ts.push_back(m + ":" + intstr(t.second));
            }
            std::sort(ts.begin(), ts.end());
            for (auto &t : ts)
                o += t + ",";
            return o + "]";
        }
        case SYMENGINE_MEXPRPOLY: {
            const MExprPoly &p = down_cast<const MExprPoly &>(e);
            std::string o = "MExprPoly[";
            for (auto &v : p.get_vars())
                o += key_rec(*v, kc) + ",";
            o += ";";
            std::vector<std::string> ts;
            for (auto &t : p.get_poly().dict_) {
                std::string m;
                for (auto x : t.first)
                    m += std::to_string(x) + ".";
                ts.push_back(m + ":" + key_rec(*t.second.get_basic(), kc));
            }
            std::sort(ts.begin(), ts.end());
            for (auto &t : ts)
                o += t + ",";
            return o + "]";
        }
        case SYMENGINE_GALOISFIELD: {
            const GaloisField &p = down_cast<const GaloisField &>(e);
            std::string o = "GF[" + key_rec(*p.get_var(), kc) + ";" + intstr(p.get_poly().modulo_) + ";";
            for (auto &c : p.get_poly().dict_)
                o += intstr(c) + ",";
            return o + "]";
        }
        case SYMENGINE_IMMUTABLEDENSEMATRIX: {
            const ImmutableDenseMatrix &m = down_cast<const ImmutableDenseMatrix &>(e);
            std::string o = "IDM[" + std::to_string(m.nrows()) + "x" + std::to_string(m.ncols()) + ";";
            for (auto &a : m.get_values())
                o += key_rec(*a, kc) + ",";
            return o + "]";
        }
        case SYMENGINE_MATRIXSYMBOL:
            return "MS:" + down_cast<const MatrixSymbol &>(e).get_name();
        default: {
            // positional: Pow, one-/two-argument functions, relationals, Interval, Piecewise, Not, Xor,
            // Contains, ConditionSet, ImageSet, Complement, Derivative, Subs, Tuple, matrix expressions, ...
            std::string o = type_code_name(e.get_type_code()) + "(";
            for (auto &a : e.get_args())
                o += key_rec(*a, kc) + ",";
            return o + ")";
        }
    }
}

inline std::string key(const Basic &e)
{
    KeyCtx kc;
    std::set<size_t> ds;
    collect_dummies(e, ds);
    int r = 0;
    for (auto d : ds)
        kc.dummy_rank[d] = r++;
    return key_rec(e, kc);
}
inline std::string key(const RCP<const Basic> &e)
{
    return key(*e);
}

// safe printing for descriptions (str itself may be under test / may throw)
inline std::string sstr(const RCP<const Basic> &e)
{
    try {
        return e->__str__();
    } catch (std::exception &x) {
        return std::string("<str threw ") + x.what() + ">";
    }
}

} // namespace verif
#endif
