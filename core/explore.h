// explore.h -- E1: explicit-state search of the constructor algebra (DESIGN.md 0, 2, 3.9).
// States are distinct canonical expressions, de-duplicated by the independent structural key;
// each keeps the first (shortest, simplest-first) recipe that reached it.
#ifndef VERIF_EXPLORE_H
#define VERIF_EXPLORE_H
#include "key.h"
namespace verif
{
struct State {
    RCP<const Basic> e;
    std::string key, recipe;
    int depth;
};
struct StateSet {
    std::vector<State> S;
    std::unordered_map<std::string, int> idx;
    uint64_t duplicate_arrivals = 0;
    // returns index; fresh=true when the state is new
    int add(const RCP<const Basic> &e, const std::string &recipe, int depth, bool *fresh = nullptr)
    {
        std::string k = key(*e);
        auto it = idx.find(k);
        if (it != idx.end()) {
            duplicate_arrivals++;
            if (fresh)
                *fresh = false;
            return it->second;
        }
        int i = S.size();
        S.push_back(State{e, k, recipe, depth});
        idx[k] = i;
        if (fresh)
            *fresh = true;
        return i;
    }
    size_t size() const
    {
        return S.size();
    }
};
} // namespace verif
#endif
