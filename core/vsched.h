// sched.h -- E3: controlled scheduler + stateless explorer over the library's atomic operations
// (DESIGN.md 3.3).  The implementation (sched.cpp) is compiled WITHOUT the vatomic rename.
#ifndef VERIF_SCHED_H
#define VERIF_SCHED_H
#include <functional>
#include <string>
#include <vector>
#include <cstdint>

namespace vsched
{
struct Harness {
    std::string name;
    int nthreads = 2;
    std::function<void()> setup;        // main thread: build fresh shared objects (atomics born here are shared)
    std::function<void(int)> body;      // worker thread `tid`
    std::function<std::string()> check; // main thread, after all workers finished: "" when the oracle holds
    std::function<void()> teardown;     // main thread: drop the shared objects
};

struct Stats {
    uint64_t executions = 0, points = 0, max_points = 0, states = 0, pruned_revisits = 0, alternatives_beyond_bound = 0;
    uint64_t late_shared = 0, handoffs = 0, private_ops = 0;
    uint64_t distinct_final_states = 0;
    bool complete = true;  // false: deadline or cap cut the search
    bool diverged = false; // replay divergence: machinery error
    bool horizon = false;
};

struct Found {
    std::vector<int> schedule; // thread id chosen at every scheduling point
    std::string what;
};

// bound < 0: all interleavings (state-memoised); bound >= 0: at most `bound` preemptions
Stats explore(const Harness &h, int bound, double deadline_monotonic_s, std::vector<Found> &out, size_t max_found);

// run one recorded schedule twice; true when the same violation text is observed both times
bool replay(const Harness &h, const std::vector<int> &schedule, std::string &what, bool &deterministic);

// sequential reference run (thread 0 to completion, then 1, ...) -- returns check() text
std::string run_sequential(const Harness &h);

double now_s();
} // namespace vsched
#endif
