// sched.cpp -- cooperative scheduler over hooked atomic operations + DFS explorer.
// Compiled WITHOUT hooks/vatomic.h and without sanitizer instrumentation.
#include "vsched.h"
#include <pthread.h>
#include <unordered_map>
#include <unordered_set>
#include <cstring>
#include <cstdio>
#include <cstdlib>
#include <time.h>
#include <exception>

namespace vsched
{
double now_s()
{
    struct timespec ts;
    clock_gettime(CLOCK_MONOTONIC, &ts);
    return ts.tv_sec + 1e-9 * ts.tv_nsec;
}

enum { MAXT = 4 };

struct RegEntry {
    int owner;          // -1 main / pre-main, else worker tid
    unsigned epoch;     // execution in which it was born (0 = before any execution)
    uint64_t id;        // stable id for state keys
};

struct Point {
    unsigned enabled_mask;
    int chosen, running_before;
    uint64_t key;
};

static pthread_mutex_t reg_mu = PTHREAD_MUTEX_INITIALIZER;
static std::unordered_map<const void *, RegEntry> *reg()
{
    static std::unordered_map<const void *, RegEntry> *m = new std::unordered_map<const void *, RegEntry>();
    return m;
}

static __thread int my_tid = -1;

struct Exec {
    bool active = false;
    int nthreads = 0;
    unsigned epoch = 0;
    uint64_t birth_counter = 0;
    int current = -1; // running worker, -1 = controller
    bool finished[MAXT];
    uint64_t steps[MAXT], readhash[MAXT];
    uint64_t vals_hash = 0;
    std::unordered_map<uint64_t, uint64_t> vals; // id -> current value (only atoms written by workers)
    std::vector<int> prefix;
    size_t pos = 0;
    std::vector<Point> trace;
    bool diverged = false, horizon = false;
    uint64_t total_steps = 0, horizon_steps = 2000000;
    uint64_t late_shared = 0, handoffs = 0, private_ops = 0;
    int bound_mode = -1, preempt_used = 0;
};
static Exec X;
static pthread_mutex_t mu = PTHREAD_MUTEX_INITIALIZER;
static pthread_cond_t cv[MAXT + 1];
static pthread_t threads[MAXT];
static bool pool_started = false;
static uint64_t job_gen = 0;
static const Harness *cur_h = nullptr;

static inline uint64_t mix(uint64_t a, uint64_t b)
{
    uint64_t x = a * 0x9e3779b97f4a7c15ULL ^ (b + 0x7f4a7c159e3779b9ULL + (a << 6) + (a >> 2));
    x ^= x >> 31;
    x *= 0xbf58476d1ce4e5b9ULL;
    x ^= x >> 29;
    return x;
}

static uint64_t state_key()
{
    uint64_t k = X.vals_hash;
    for (int t = 0; t < X.nthreads; t++)
        k = mix(k, mix(X.steps[t] * 2 + (X.finished[t] ? 1 : 0), X.readhash[t]));
    if (X.bound_mode >= 0)
        k = mix(k, (uint64_t)(X.preempt_used * 8 + (X.current + 1)));
    return k;
}

// caller is the running worker (or the controller for the initial point with running = -1)
static int choose(int running)
{
    unsigned mask = 0;
    for (int t = 0; t < X.nthreads; t++)
        if (!X.finished[t])
            mask |= 1u << t;
    if (!mask)
        return -1;
    bool running_enabled = running >= 0 && (mask >> running & 1);
    int def = running_enabled ? running : __builtin_ctz(mask);
    int c = def;
    if (X.pos < X.prefix.size()) {
        c = X.prefix[X.pos];
        if (c < 0 || c >= X.nthreads || !(mask >> c & 1)) {
            X.diverged = true;
            c = def;
        }
    }
    Point p;
    p.enabled_mask = mask;
    p.chosen = c;
    p.running_before = running_enabled ? running : -1;
    p.key = state_key();
    X.trace.push_back(p);
    X.pos++;
    if (running_enabled && c != running)
        X.preempt_used++;
    return c;
}

static void handoff_from_worker(int next)
{
    pthread_mutex_lock(&mu);
    X.current = next;
    X.handoffs++;
    pthread_cond_signal(&cv[next < 0 ? MAXT : next]);
    while (X.current != my_tid)
        pthread_cond_wait(&cv[my_tid], &mu);
    pthread_mutex_unlock(&mu);
}

static bool lookup(const void *addr, RegEntry &e)
{
    pthread_mutex_lock(&reg_mu);
    auto it = reg()->find(addr);
    bool f = it != reg()->end();
    if (f)
        e = it->second;
    pthread_mutex_unlock(&reg_mu);
    return f;
}

// is this atomic visible to another thread?  (born by this worker during this execution => private)
static bool shared_for(const void *addr, int tid, uint64_t &id)
{
    RegEntry e;
    if (!lookup(addr, e)) { // constant-initialised global (e.g. Dummy::count_): shared, address is stable
        id = (1ULL << 60) | (uint64_t)(uintptr_t)addr;
        return true;
    }
    if (e.owner == tid && e.epoch == X.epoch)
        return false;
    if (e.owner >= 0 && e.epoch == X.epoch) { // born by another worker in this execution
        X.late_shared++;
        id = (3ULL << 60) | e.id;
        return true;
    }
    id = e.epoch == X.epoch ? e.id : ((2ULL << 60) | (uint64_t)(uintptr_t)addr);
    return true;
}

static void *worker_main(void *arg)
{
    my_tid = (int)(intptr_t)arg;
    uint64_t seen = 0;
    for (;;) {
        pthread_mutex_lock(&mu);
        while (!(job_gen != seen && X.current == my_tid))
            pthread_cond_wait(&cv[my_tid], &mu);
        seen = job_gen;
        pthread_mutex_unlock(&mu);
        try {
            cur_h->body(my_tid);
        } catch (...) {
            // bodies catch their own exceptions; anything here is a harness bug
            fprintf(stderr, "vsched: uncaught exception in worker body\n");
        }
        X.finished[my_tid] = true;
        int next = choose(my_tid); // not enabled any more => no preemption cost
        pthread_mutex_lock(&mu);
        X.current = next;
        X.handoffs++;
        pthread_cond_signal(&cv[next < 0 ? MAXT : next]);
        pthread_mutex_unlock(&mu);
    }
    return nullptr;
}

static void start_pool()
{
    if (pool_started)
        return;
    for (int i = 0; i <= MAXT; i++)
        pthread_cond_init(&cv[i], nullptr);
    for (int t = 0; t < MAXT; t++) {
        pthread_attr_t a;
        pthread_attr_init(&a);
        pthread_attr_setstacksize(&a, 64u << 20);
        pthread_create(&threads[t], &a, worker_main, (void *)(intptr_t)t);
    }
    pool_started = true;
}

struct RunOut {
    std::vector<Point> trace;
    std::string what;
    bool diverged, horizon;
    uint64_t final_key;
};

static RunOut run_one(const Harness &h, const std::vector<int> &prefix, int bound)
{
    start_pool();
    cur_h = &h;
    X.nthreads = h.nthreads;
    X.epoch++;
    X.birth_counter = 0;
    X.vals.clear();
    X.vals_hash = 0;
    for (int t = 0; t < MAXT; t++) {
        X.finished[t] = t >= h.nthreads;
        X.steps[t] = 0;
        X.readhash[t] = 0;
    }
    X.prefix = prefix;
    X.pos = 0;
    X.trace.clear();
    X.diverged = X.horizon = false;
    X.total_steps = 0;
    X.bound_mode = bound;
    X.preempt_used = 0;
    X.current = -1;
    X.active = true; // births by main are now registered as shared members of this epoch
    h.setup();
    int first = choose(-1);
    pthread_mutex_lock(&mu);
    job_gen++;
    X.current = first;
    for (int t = 0; t < h.nthreads; t++)
        pthread_cond_signal(&cv[t]);
    while (X.current != -1)
        pthread_cond_wait(&cv[MAXT], &mu);
    pthread_mutex_unlock(&mu);
    RunOut o;
    o.final_key = state_key();
    X.active = false;
    o.what = h.check();
    h.teardown();
    o.trace = X.trace;
    o.diverged = X.diverged;
    o.horizon = X.horizon;
    if (o.horizon && o.what.empty())
        o.what = "step horizon exceeded (livelock?)";
    return o;
}

Stats explore(const Harness &h, int bound, double deadline, std::vector<Found> &out, size_t max_found)
{
    Stats st;
    std::vector<std::vector<int>> work;
    work.push_back({});
    std::unordered_set<uint64_t> visited, finals;
    uint64_t ls0 = X.late_shared, ho0 = X.handoffs, po0 = X.private_ops;
    while (!work.empty()) {
        if (now_s() > deadline) {
            st.complete = false;
            break;
        }
        std::vector<int> prefix = std::move(work.back());
        work.pop_back();
        RunOut r = run_one(h, prefix, bound);
        st.executions++;
        st.points += r.trace.size();
        if (r.trace.size() > st.max_points)
            st.max_points = r.trace.size();
        finals.insert(r.final_key);
        if (r.diverged) {
            st.diverged = true;
            st.complete = false;
            break;
        }
        if (r.horizon)
            st.horizon = true;
        if (!r.what.empty()) {
            Found f;
            for (auto &p : r.trace)
                f.schedule.push_back(p.chosen);
            f.what = r.what;
            out.push_back(f);
            if (out.size() >= max_found) {
                st.complete = false;
                break;
            }
            continue; // do not expand below a violating execution
        }
        int used = 0;
        for (size_t i = 0; i < r.trace.size(); i++) {
            const Point &p = r.trace[i];
            if (i >= prefix.size()) {
                if (!visited.insert(p.key).second) {
                    st.pruned_revisits++;
                    break;
                }
                st.states++;
                for (int alt = 0; alt < h.nthreads; alt++) {
                    if (!(p.enabled_mask >> alt & 1) || alt == p.chosen)
                        continue;
                    int cost = used + ((p.running_before >= 0 && alt != p.running_before) ? 1 : 0);
                    if (bound >= 0 && cost > bound) {
                        st.alternatives_beyond_bound++;
                        continue;
                    }
                    std::vector<int> np;
                    np.reserve(i + 1);
                    for (size_t j = 0; j < i; j++)
                        np.push_back(r.trace[j].chosen);
                    np.push_back(alt);
                    work.push_back(std::move(np));
                }
            } else if (i + 1 == prefix.size()) {
                // the state *at* the deviation point was registered by the execution that pushed us
            }
            if (p.running_before >= 0 && p.chosen != p.running_before)
                used++;
        }
    }
    st.late_shared = X.late_shared - ls0;
    st.handoffs = X.handoffs - ho0;
    st.private_ops = X.private_ops - po0;
    st.distinct_final_states = finals.size();
    return st;
}

bool replay(const Harness &h, const std::vector<int> &schedule, std::string &what, bool &deterministic)
{
    RunOut a = run_one(h, schedule, -1);
    RunOut b = run_one(h, schedule, -1);
    deterministic = !a.diverged && !b.diverged && a.what == b.what && a.trace.size() == b.trace.size();
    if (deterministic)
        for (size_t i = 0; i < a.trace.size(); i++)
            if (a.trace[i].key != b.trace[i].key || a.trace[i].chosen != b.trace[i].chosen)
                deterministic = false;
    what = a.what;
    return !a.what.empty();
}

std::string run_sequential(const Harness &h)
{
    RunOut r = run_one(h, {}, -1);
    return r.what;
}
} // namespace vsched

using namespace vsched;

extern "C" void verif_atomic_born(const void *addr)
{
    RegEntry e;
    e.owner = my_tid;
    e.epoch = X.active ? X.epoch : 0;
    e.id = X.active && my_tid < 0 ? ++X.birth_counter : 0;
    pthread_mutex_lock(&reg_mu);
    (*reg())[addr] = e;
    pthread_mutex_unlock(&reg_mu);
}

extern "C" void verif_atomic_died(const void *addr)
{
    pthread_mutex_lock(&reg_mu);
    reg()->erase(addr);
    pthread_mutex_unlock(&reg_mu);
}

static __thread uint64_t pending_id;
static __thread bool pending_shared;

extern "C" void verif_sync_point(const void *addr, int kind)
{
    (void)kind;
    pending_shared = false;
    if (my_tid < 0 || !X.active)
        return;
    uint64_t id;
    if (!shared_for(addr, my_tid, id)) {
        X.private_ops++;
        return;
    }
    pending_shared = true;
    pending_id = id;
    X.steps[my_tid]++;
    if (++X.total_steps > X.horizon_steps) {
        X.horizon = true;
        return;
    }
    int next = choose(my_tid);
    if (next != my_tid)
        handoff_from_worker(next);
}

extern "C" void verif_sync_done(const void *addr, unsigned long long read, unsigned long long nowv, int wrote)
{
    (void)addr;
    if (my_tid < 0 || !X.active || !pending_shared)
        return;
    X.readhash[my_tid] = mix(X.readhash[my_tid], mix(pending_id, read));
    if (wrote) {
        auto it = X.vals.find(pending_id);
        if (it != X.vals.end())
            X.vals_hash -= mix(pending_id, it->second + 1);
        X.vals[pending_id] = nowv;
        X.vals_hash += mix(pending_id, nowv + 1);
    }
    pending_shared = false;
}
