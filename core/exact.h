// exact.h -- boring exact reference models (GMP rationals / Gaussian rationals / extended reals).
#ifndef VERIF_EXACT_H
#define VERIF_EXACT_H
#include <gmpxx.h>
#include <symengine/basic.h>
#include <symengine/integer.h>
#include <symengine/rational.h>
#include <symengine/complex.h>
#include <symengine/real_double.h>
#include <symengine/complex_double.h>
#include <symengine/infinity.h>
#include <symengine/nan.h>
#include <symengine/constants.h>

namespace verif
{
using SymEngine::Basic;
using SymEngine::RCP;

inline mpz_class to_mpz(const SymEngine::integer_class &i)
{
    // backend independent: go through the decimal string
    std::ostringstream s;
    s << i;
    return mpz_class(s.str());
}
inline mpq_class to_mpq(const SymEngine::rational_class &q)
{
    mpq_class r(to_mpz(SymEngine::get_num(q)), to_mpz(SymEngine::get_den(q)));
    r.canonicalize();
    return r;
}
inline mpq_class mpq_from_double(double d)
{
    mpq_class q;
    mpq_set_d(q.get_mpq_t(), d);
    return q;
}

// extended real: -oo < finite rationals < +oo
struct ExtReal {
    int inf = 0; // -1, 0, +1
    mpq_class v;
    bool is_float = false;
};
inline int cmp(const ExtReal &a, const ExtReal &b)
{
    if (a.inf || b.inf)
        return (a.inf > b.inf) - (a.inf < b.inf);
    int c = ::cmp(a.v, b.v);
    return (c > 0) - (c < 0);
}
// returns false when e is not a real number (nan, zoo, complex, non-number)
inline bool to_extreal(const Basic &e, ExtReal &out)
{
    using namespace SymEngine;
    out = ExtReal();
    if (is_a<Integer>(e)) {
        out.v = mpq_class(to_mpz(down_cast<const Integer &>(e).as_integer_class()));
        return true;
    }
    if (is_a<Rational>(e)) {
        out.v = to_mpq(down_cast<const Rational &>(e).as_rational_class());
        return true;
    }
    if (is_a<RealDouble>(e)) {
        double d = down_cast<const RealDouble &>(e).i;
        out.is_float = true;
        if (std::isnan(d))
            return false;
        if (std::isinf(d)) {
            out.inf = d > 0 ? 1 : -1;
            return true;
        }
        out.v = mpq_from_double(d);
        return true;
    }
    if (is_a<Infty>(e)) {
        const Infty &i = down_cast<const Infty &>(e);
        if (i.is_positive())
            out.inf = 1;
        else if (i.is_negative())
            out.inf = -1;
        else
            return false;
        return true;
    }
    return false;
}

// Gaussian rational
struct GQ {
    mpq_class re, im;
    bool operator==(const GQ &o) const
    {
        return re == o.re && im == o.im;
    }
    bool is_zero() const
    {
        return re == 0 && im == 0;
    }
};
inline GQ operator+(const GQ &a, const GQ &b)
{
    return {a.re + b.re, a.im + b.im};
}
inline GQ operator-(const GQ &a, const GQ &b)
{
    return {a.re - b.re, a.im - b.im};
}
inline GQ operator*(const GQ &a, const GQ &b)
{
    return {a.re * b.re - a.im * b.im, a.re * b.im + a.im * b.re};
}
inline GQ gq_div(const GQ &a, const GQ &b) // b != 0
{
    mpq_class n = b.re * b.re + b.im * b.im;
    return {(a.re * b.re + a.im * b.im) / n, (a.im * b.re - a.re * b.im) / n};
}
inline GQ gq_pow(GQ a, long n) // n >= 0
{
    GQ r{1, 0};
    while (n > 0) {
        if (n & 1)
            r = r * a;
        a = a * a;
        n >>= 1;
    }
    return r;
}
inline bool to_gq(const Basic &e, GQ &out)
{
    using namespace SymEngine;
    out = GQ();
    if (is_a<Integer>(e)) {
        out.re = mpq_class(to_mpz(down_cast<const Integer &>(e).as_integer_class()));
        return true;
    }
    if (is_a<Rational>(e)) {
        out.re = to_mpq(down_cast<const Rational &>(e).as_rational_class());
        return true;
    }
    if (is_a<Complex>(e)) {
        const Complex &c = down_cast<const Complex &>(e);
        out.re = to_mpq(c.real_);
        out.im = to_mpq(c.imaginary_);
        return true;
    }
    return false;
}
inline std::string gq_str(const GQ &g)
{
    return g.re.get_str() + (g.im == 0 ? "" : "+" + g.im.get_str() + "*I");
}

} // namespace verif
#endif
