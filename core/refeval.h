// refeval.h -- independent numeric reference evaluator (DESIGN.md 4.1).
// Structural recursion over an expression tree through public accessors only, in
// 113-bit complex arithmetic (libquadmath); real special functions through MPFR at 192 bits.
// Anything the evaluator cannot decide (non-finite, complex special function, point on/near a
// discontinuity) is reported as ok=false with a reason: callers skip-and-count, never guess.
#ifndef VERIF_REFEVAL_H
#define VERIF_REFEVAL_H
#include <quadmath.h>
#include <mpfr.h>
#include "key.h"

namespace verif
{
typedef __float128 rq;
typedef __complex128 cq;

inline cq mkc(rq re, rq im)
{
    cq z;
    __real__ z = re;
    __imag__ z = im;
    return z;
}
inline rq re(cq z)
{
    return __real__ z;
}
inline rq im(cq z)
{
    return __imag__ z;
}
inline rq absq(cq z)
{
    return cabsq(z);
}
inline bool finite(cq z)
{
    return finiteq(re(z)) && finiteq(im(z));
}
inline std::string qstr(rq x, int digits = 20)
{
    char b[128];
    quadmath_snprintf(b, sizeof b, "%.*Qg", digits, x);
    return b;
}
inline std::string cstr(cq z, int digits = 20)
{
    return qstr(re(z), digits) + (im(z) < 0 || (im(z) == 0 && signbitq(im(z))) ? "-" : "+") + qstr(fabsq(im(z)), digits) + "i";
}

struct Env {
    std::map<std::string, cq> sym;
};

struct EvalState {
    const Env *env;
    int side;            // +1 / -1: which side of a branch cut exact on-cut arguments are pushed to
    bool ok = true;
    std::string why;     // first reason for failure
    bool has_float = false;
    bool on_cut = false; // some node was evaluated exactly on a cut (both sides should be tried)
    rq scale = 0;        // max |intermediate|
    long nodes = 0;
    void fail(const std::string &w)
    {
        if (ok) {
            ok = false;
            why = w;
        }
    }
};

inline rq q_from_int(const integer_class &i)
{
    std::string s = intstr(i);
    return strtoflt128(s.c_str(), nullptr);
}
inline rq q_from_rat(const rational_class &q)
{
    // exact enough: numerator and denominator are rounded separately (relative error 2^-112 each)
    return q_from_int(get_num(q)) / q_from_int(get_den(q));
}

// ---- MPFR bridge for real special functions
struct MP {
    mpfr_t x;
    MP()
    {
        mpfr_init2(x, 192);
    }
    explicit MP(rq v)
    {
        mpfr_init2(x, 192);
        char b[96];
        quadmath_snprintf(b, sizeof b, "%.40Qe", v);
        mpfr_set_str(x, b, 10, MPFR_RNDN);
    }
    ~MP()
    {
        mpfr_clear(x);
    }
    MP(const MP &) = delete;
    rq get() const
    {
        char b[128];
        mpfr_snprintf(b, sizeof b, "%.42Re", x);
        return strtoflt128(b, nullptr);
    }
};

inline bool is_real_val(cq z)
{
    return im(z) == 0;
}
inline bool near_int(rq x)
{
    rq r = roundq(x);
    return fabsq(x - r) < 1e-20Q * (fabsq(x) + 1) && x != r;
}

// reference meaning of undefined function symbols: fixed entire functions of the arguments
inline cq ref_undefined(const std::string &name, const std::vector<cq> &a)
{
    cq s = mkc(0.3Q + 0.1Q * (rq)(fnv(name) % 7), 0);
    rq k = 1;
    for (auto &z : a) {
        s += csinq(z * mkc(0.7Q + 0.2Q * k, 0) + mkc(0.2Q * k, 0)) + z * z * mkc(0.11Q * k, 0);
        k += 1;
    }
    return s;
}

inline cq ev(const Basic &e, EvalState &st);

inline cq push_side(cq z, EvalState &st, bool cut_on_real_axis, bool on_cut)
{
    // z has an exactly vanishing imaginary (cut_on_real_axis) or real part and lies on the cut
    if (!on_cut)
        return z;
    st.on_cut = true;
    rq eps = 1e-70Q * (absq(z) + 1) * st.side;
    if (cut_on_real_axis)
        return mkc(re(z), eps);
    return mkc(eps, im(z));
}
// |part| tiny but non-zero relative to |z| : too close to a cut to call
inline bool nearly(rq part, cq z)
{
    return part != 0 && fabsq(part) < 0x1p-30Q * absq(z);
}

inline cq ev_pow(cq b, cq x, bool exp_is_small_int, long n, EvalState &st)
{
    if (exp_is_small_int) {
        if (b == 0 && n < 0) {
            st.fail("pole");
            return 0;
        }
        cq r = mkc(1, 0), p = b;
        unsigned long m = n < 0 ? -n : n;
        while (m) {
            if (m & 1)
                r *= p;
            p *= p;
            m >>= 1;
        }
        return n < 0 ? mkc(1, 0) / r : r;
    }
    if (b == 0) {
        if (re(x) > 0)
            return 0;
        st.fail("0^nonpositive");
        return 0;
    }
    if (nearly(im(b), b) && re(b) < 0) {
        st.fail("near-cut");
        return 0;
    }
    cq bb = b;
    if (im(b) == 0)
        bb = mkc(re(b), 0.0Q); // +0: universal convention arg(-r) = +pi
    return cexpq(x * clogq(bb));
}

inline cq ev_log(cq z, EvalState &st)
{
    if (z == 0) {
        st.fail("log(0)");
        return 0;
    }
    if (nearly(im(z), z) && re(z) < 0) {
        st.fail("near-cut");
        return 0;
    }
    if (im(z) == 0)
        z = mkc(re(z), 0.0Q);
    return clogq(z);
}

// inverse trig / hyperbolic with two-sided treatment of exact on-cut arguments
inline cq ev_asin(cq z, EvalState &st)
{ // cuts: real axis |x|>1
    if (nearly(im(z), z) && fabsq(re(z)) > 1) {
        st.fail("near-cut");
        return 0;
    }
    z = push_side(z, st, true, im(z) == 0 && fabsq(re(z)) > 1);
    return casinq(z);
}
inline cq ev_acos(cq z, EvalState &st)
{
    if (nearly(im(z), z) && fabsq(re(z)) > 1) {
        st.fail("near-cut");
        return 0;
    }
    z = push_side(z, st, true, im(z) == 0 && fabsq(re(z)) > 1);
    return cacosq(z);
}
inline cq ev_atan(cq z, EvalState &st)
{ // cuts: imaginary axis |y|>1 ; poles at +-i
    if (re(z) == 0 && fabsq(im(z)) == 1) {
        st.fail("pole");
        return 0;
    }
    if (nearly(re(z), z) && fabsq(im(z)) > 1) {
        st.fail("near-cut");
        return 0;
    }
    z = push_side(z, st, false, re(z) == 0 && fabsq(im(z)) > 1);
    return catanq(z);
}
inline cq ev_asinh(cq z, EvalState &st)
{ // cuts: imaginary axis |y|>1
    if (nearly(re(z), z) && fabsq(im(z)) > 1) {
        st.fail("near-cut");
        return 0;
    }
    z = push_side(z, st, false, re(z) == 0 && fabsq(im(z)) > 1);
    return casinhq(z);
}
inline cq ev_acosh(cq z, EvalState &st)
{ // cut: real axis x<1
    if (nearly(im(z), z) && re(z) < 1) {
        st.fail("near-cut");
        return 0;
    }
    z = push_side(z, st, true, im(z) == 0 && re(z) < 1);
    return cacoshq(z);
}
inline cq ev_atanh(cq z, EvalState &st)
{ // cuts: real axis |x|>1 ; poles at +-1
    if (im(z) == 0 && fabsq(re(z)) == 1) {
        st.fail("pole");
        return 0;
    }
    if (nearly(im(z), z) && fabsq(re(z)) > 1) {
        st.fail("near-cut");
        return 0;
    }
    z = push_side(z, st, true, im(z) == 0 && fabsq(re(z)) > 1);
    return catanhq(z);
}
inline cq ev_inv(cq z, EvalState &st)
{
    if (z == 0) {
        st.fail("pole");
        return 0;
    }
    return mkc(1, 0) / z;
}

inline cq ev_lambertw(cq z, EvalState &st)
{
    if (!is_real_val(z)) {
        st.fail("complex-special");
        return 0;
    }
    rq x = re(z);
    rq em1 = -expq(-1.0Q);
    if (x < em1 + 1e-12Q) {
        st.fail("lambertw-branch-point-or-complex");
        return 0;
    }
    rq w = x < 1 ? 0.0Q : logq(x) - logq(logq(x) + 1);
    if (x < -0.2Q)
        w = -0.5Q;
    for (int i = 0; i < 200; i++) {
        rq ew = expq(w), f = w * ew - x;
        rq d = ew * (w + 1) - (w + 2) * f / (2 * w + 2);
        rq nw = w - f / d;
        if (fabsq(nw - w) <= 1e-33Q * (fabsq(nw) + 1e-40Q)) {
            w = nw;
            break;
        }
        w = nw;
    }
    return mkc(w, 0);
}

inline bool args_real(const std::vector<cq> &a)
{
    for (auto &z : a)
        if (im(z) != 0)
            return false;
    return true;
}

inline cq mp1(int (*fn)(mpfr_t, const mpfr_t, mpfr_rnd_t), rq x, EvalState &st)
{
    MP a(x), r;
    fn(r.x, a.x, MPFR_RNDN);
    if (!mpfr_number_p(r.x)) {
        st.fail("nonfinite-special");
        return 0;
    }
    return mkc(r.get(), 0);
}

inline bool small_int(const Basic &e, long &n)
{
    if (!is_a<Integer>(e))
        return false;
    const integer_class &i = down_cast<const Integer &>(e).as_integer_class();
    if (mp_fits_slong_p(i)) {
        n = mp_get_si(i);
        return n > -100000 && n < 100000;
    }
    return false;
}

// central 8th-order numeric derivative of e with respect to symbol name at the current env
inline cq numdiff(const Basic &e, const std::string &name, EvalState &st, rq h = 0x1p-12Q)
{
    static const rq w[4] = {4.0Q / 5, -1.0Q / 5, 4.0Q / 105, -1.0Q / 280};
    auto it = st.env->sym.find(name);
    if (it == st.env->sym.end()) {
        st.fail("unbound-symbol " + name);
        return 0;
    }
    cq x0 = it->second;
    rq hh = h * (absq(x0) + 1);
    cq acc = 0;
    Env e2 = *st.env;
    const Env *saved = st.env;
    st.env = &e2;
    for (int k = 1; k <= 4 && st.ok; k++) {
        e2.sym[name] = x0 + mkc(k * hh, 0);
        cq fp = ev(e, st);
        e2.sym[name] = x0 - mkc(k * hh, 0);
        cq fm = ev(e, st);
        acc += (fp - fm) * mkc(w[k - 1], 0);
    }
    st.env = saved;
    return acc / mkc(hh, 0);
}

inline cq ev(const Basic &e, EvalState &st)
{
    if (!st.ok)
        return 0;
    st.nodes++;
    cq r = 0;
    TypeID t = e.get_type_code();
    std::vector<cq> a;
    auto args = [&]() {
        for (auto &x : e.get_args())
            a.push_back(ev(*x, st));
    };
    switch (t) {
        case SYMENGINE_INTEGER:
            r = mkc(q_from_int(down_cast<const Integer &>(e).as_integer_class()), 0);
            break;
        case SYMENGINE_RATIONAL:
            r = mkc(q_from_rat(down_cast<const Rational &>(e).as_rational_class()), 0);
            break;
        case SYMENGINE_COMPLEX: {
            const Complex &c = down_cast<const Complex &>(e);
            r = mkc(q_from_rat(c.real_), q_from_rat(c.imaginary_));
            break;
        }
        case SYMENGINE_REAL_DOUBLE:
            st.has_float = true;
            r = mkc(down_cast<const RealDouble &>(e).i, 0);
            break;
        case SYMENGINE_COMPLEX_DOUBLE: {
            st.has_float = true;
            std::complex<double> z = down_cast<const ComplexDouble &>(e).i;
            r = mkc(z.real(), z.imag());
            break;
        }
        case SYMENGINE_SYMBOL:
        case SYMENGINE_DUMMY: {
            auto it = st.env->sym.find(down_cast<const Symbol &>(e).get_name());
            if (it == st.env->sym.end()) {
                st.fail("unbound-symbol " + down_cast<const Symbol &>(e).get_name());
                return 0;
            }
            r = it->second;
            break;
        }
        case SYMENGINE_CONSTANT: {
            const std::string &n = down_cast<const Constant &>(e).get_name();
            if (n == "pi")
                r = mkc(M_PIq, 0);
            else if (n == "E")
                r = mkc(M_Eq, 0);
            else if (n == "EulerGamma")
                r = mkc(0.57721566490153286060651209008240243104215933593992Q, 0);
            else if (n == "Catalan")
                r = mkc(0.91596559417721901505460351493238411077414937428167Q, 0);
            else if (n == "GoldenRatio")
                r = mkc((1 + sqrtq(5.0Q)) / 2, 0);
            else {
                st.fail("unknown-constant " + n);
                return 0;
            }
            break;
        }
        case SYMENGINE_INFTY:
        case SYMENGINE_NOT_A_NUMBER:
            st.fail("nonfinite-leaf");
            return 0;
        case SYMENGINE_ADD: {
            const Add &ad = down_cast<const Add &>(e);
            r = ev(*ad.get_coef(), st);
            rq big = absq(r);
            for (auto &p : ad.get_dict()) {
                cq term = ev(*p.first, st) * ev(*p.second, st);
                big = fmaxq(big, absq(term));
                r += term;
            }
            if (st.ok)
                st.scale = fmaxq(st.scale, big);
            break;
        }
        case SYMENGINE_MUL: {
            const Mul &m = down_cast<const Mul &>(e);
            r = ev(*m.get_coef(), st);
            for (auto &p : m.get_dict()) {
                long n;
                bool si = small_int(*p.second, n);
                cq b = ev(*p.first, st);
                cq x = si ? mkc(0, 0) : ev(*p.second, st);
                if (!st.ok)
                    return 0;
                r *= ev_pow(b, x, si, n, st);
            }
            break;
        }
        case SYMENGINE_POW: {
            const Pow &p = down_cast<const Pow &>(e);
            long n;
            bool si = small_int(*p.get_exp(), n);
            cq b = ev(*p.get_base(), st);
            cq x = si ? mkc(0, 0) : ev(*p.get_exp(), st);
            if (!st.ok)
                return 0;
            r = ev_pow(b, x, si, n, st);
            break;
        }
        case SYMENGINE_LOG:
            args();
            r = ev_log(a[0], st);
            break;
        case SYMENGINE_SIN:
            args();
            r = csinq(a[0]);
            break;
        case SYMENGINE_COS:
            args();
            r = ccosq(a[0]);
            break;
        case SYMENGINE_TAN:
            args();
            r = csinq(a[0]) * ev_inv(ccosq(a[0]), st);
            break;
        case SYMENGINE_COT:
            args();
            r = ccosq(a[0]) * ev_inv(csinq(a[0]), st);
            break;
        case SYMENGINE_CSC:
            args();
            r = ev_inv(csinq(a[0]), st);
            break;
        case SYMENGINE_SEC:
            args();
            r = ev_inv(ccosq(a[0]), st);
            break;
        case SYMENGINE_ASIN:
            args();
            r = ev_asin(a[0], st);
            break;
        case SYMENGINE_ACOS:
            args();
            r = ev_acos(a[0], st);
            break;
        case SYMENGINE_ASEC:
            args();
            r = ev_acos(ev_inv(a[0], st), st);
            break;
        case SYMENGINE_ACSC:
            args();
            r = ev_asin(ev_inv(a[0], st), st);
            break;
        case SYMENGINE_ATAN:
            args();
            r = ev_atan(a[0], st);
            break;
        case SYMENGINE_ACOT:
            args();
            r = ev_atan(ev_inv(a[0], st), st);
            break;
        case SYMENGINE_ATAN2:
            args();
            if (!args_real(a)) {
                st.fail("complex-atan2");
                return 0;
            }
            if (a[0] == 0 && a[1] == 0) {
                st.fail("atan2(0,0)");
                return 0;
            }
            r = mkc(atan2q(re(a[0]), re(a[1])), 0);
            break;
        case SYMENGINE_SINH:
            args();
            r = csinhq(a[0]);
            break;
        case SYMENGINE_COSH:
            args();
            r = ccoshq(a[0]);
            break;
        case SYMENGINE_TANH:
            args();
            r = csinhq(a[0]) * ev_inv(ccoshq(a[0]), st);
            break;
        case SYMENGINE_COTH:
            args();
            r = ccoshq(a[0]) * ev_inv(csinhq(a[0]), st);
            break;
        case SYMENGINE_CSCH:
            args();
            r = ev_inv(csinhq(a[0]), st);
            break;
        case SYMENGINE_SECH:
            args();
            r = ev_inv(ccoshq(a[0]), st);
            break;
        case SYMENGINE_ASINH:
            args();
            r = ev_asinh(a[0], st);
            break;
        case SYMENGINE_ACOSH:
            args();
            r = ev_acosh(a[0], st);
            break;
        case SYMENGINE_ATANH:
            args();
            r = ev_atanh(a[0], st);
            break;
        case SYMENGINE_ACOTH:
            args();
            r = ev_atanh(ev_inv(a[0], st), st);
            break;
        case SYMENGINE_ASECH:
            args();
            r = ev_acosh(ev_inv(a[0], st), st);
            break;
        case SYMENGINE_ACSCH:
            args();
            r = ev_asinh(ev_inv(a[0], st), st);
            break;
        case SYMENGINE_ABS:
            args();
            r = mkc(absq(a[0]), 0);
            break;
        case SYMENGINE_CONJUGATE:
            args();
            r = conjq(a[0]);
            break;
        case SYMENGINE_SIGN:
            args();
            r = a[0] == 0 ? mkc(0, 0) : a[0] / mkc(absq(a[0]), 0);
            break;
        case SYMENGINE_FLOOR:
        case SYMENGINE_CEILING:
        case SYMENGINE_TRUNCATE: {
            args();
            if (!st.ok)
                return 0;
            if (near_int(re(a[0])) || near_int(im(a[0]))) {
                st.fail("near-discontinuity");
                return 0;
            }
            auto f = [&](rq x) { return t == SYMENGINE_FLOOR ? floorq(x) : t == SYMENGINE_CEILING ? ceilq(x) : truncq(x); };
            r = mkc(f(re(a[0])), f(im(a[0])));
            break;
        }
        case SYMENGINE_MAX:
        case SYMENGINE_MIN: {
            args();
            if (!st.ok)
                return 0;
            if (!args_real(a)) {
                st.fail("complex-maxmin");
                return 0;
            }
            rq m = re(a[0]);
            for (auto &z : a)
                m = t == SYMENGINE_MAX ? fmaxq(m, re(z)) : fminq(m, re(z));
            r = mkc(m, 0);
            break;
        }
        case SYMENGINE_LAMBERTW:
            args();
            if (!st.ok)
                return 0;
            r = ev_lambertw(a[0], st);
            break;
        case SYMENGINE_GAMMA:
        case SYMENGINE_LOGGAMMA:
        case SYMENGINE_ERF:
        case SYMENGINE_ERFC:
        case SYMENGINE_ZETA:
        case SYMENGINE_DIRICHLET_ETA: {
            args();
            if (!st.ok)
                return 0;
            if (!args_real(a)) {
                st.fail("complex-special");
                return 0;
            }
            rq x = re(a[0]);
            if (t == SYMENGINE_GAMMA) {
                if (x <= 0 && x == floorq(x)) {
                    st.fail("pole");
                    return 0;
                }
                r = mp1(mpfr_gamma, x, st);
            } else if (t == SYMENGINE_LOGGAMMA) {
                if (x <= 0) {
                    st.fail("loggamma-nonpositive");
                    return 0;
                }
                r = mp1(mpfr_lngamma, x, st);
            } else if (t == SYMENGINE_ERF)
                r = mp1(mpfr_erf, x, st);
            else if (t == SYMENGINE_ERFC)
                r = mp1(mpfr_erfc, x, st);
            else {
                if (a.size() > 1 && !(a[1] == mkc(1, 0))) {
                    st.fail("hurwitz-zeta");
                    return 0;
                }
                if (x == 1) {
                    if (t == SYMENGINE_ZETA) {
                        st.fail("pole");
                        return 0;
                    }
                    r = mkc(M_LN2q, 0);
                } else {
                    r = mp1(mpfr_zeta, x, st);
                    if (t == SYMENGINE_DIRICHLET_ETA)
                        r *= mkc(1 - powq(2.0Q, 1 - x), 0);
                }
            }
            break;
        }
        case SYMENGINE_BETA: {
            args();
            if (!st.ok)
                return 0;
            if (!args_real(a)) {
                st.fail("complex-special");
                return 0;
            }
            rq x = re(a[0]), y = re(a[1]);
            auto pole = [](rq v) { return v <= 0 && v == floorq(v); };
            if (pole(x) || pole(y) || pole(x + y)) {
                st.fail("pole");
                return 0;
            }
            MP mx(x), my(y), r1;
            mpfr_beta(r1.x, mx.x, my.x, MPFR_RNDN);
            if (!mpfr_number_p(r1.x)) {
                st.fail("nonfinite-special");
                return 0;
            }
            r = mkc(r1.get(), 0);
            break;
        }
        case SYMENGINE_POLYGAMMA: {
            args();
            if (!st.ok)
                return 0;
            if (!args_real(a) || !(a[0] == 0)) {
                st.fail("polygamma-order>0-or-complex");
                return 0;
            }
            rq x = re(a[1]);
            if (x <= 0 && x == floorq(x)) {
                st.fail("pole");
                return 0;
            }
            r = mp1(mpfr_digamma, x, st);
            break;
        }
        case SYMENGINE_UPPERGAMMA:
        case SYMENGINE_LOWERGAMMA: {
            args();
            if (!st.ok)
                return 0;
            if (!args_real(a) || re(a[0]) <= 0 || re(a[1]) < 0) {
                st.fail("incomplete-gamma-domain");
                return 0;
            }
            MP ms(re(a[0])), mx(re(a[1])), up, g;
            mpfr_gamma_inc(up.x, ms.x, mx.x, MPFR_RNDN);
            if (t == SYMENGINE_UPPERGAMMA)
                r = mkc(up.get(), 0);
            else {
                mpfr_gamma(g.x, ms.x, MPFR_RNDN);
                mpfr_sub(g.x, g.x, up.x, MPFR_RNDN);
                r = mkc(g.get(), 0);
                st.scale = fmaxq(st.scale, fabsq(up.get()));
            }
            break;
        }
        case SYMENGINE_KRONECKERDELTA:
            args();
            r = (a[0] == a[1]) ? mkc(1, 0) : mkc(0, 0);
            if (st.ok && !(a[0] == a[1]) && absq(a[0] - a[1]) < 1e-20Q * (absq(a[0]) + 1)) {
                st.fail("near-discontinuity");
                return 0;
            }
            break;
        case SYMENGINE_FUNCTIONSYMBOL:
            args();
            r = ref_undefined(down_cast<const FunctionSymbol &>(e).get_name(), a);
            break;
        case SYMENGINE_DERIVATIVE: {
            const Derivative &d = down_cast<const Derivative &>(e);
            // build nested numeric differentiation, innermost first
            std::vector<std::string> vars;
            for (auto &s : d.get_symbols()) {
                if (!is_a_sub<Symbol>(*s)) {
                    st.fail("derivative-wrt-nonsymbol");
                    return 0;
                }
                vars.push_back(down_cast<const Symbol &>(*s).get_name());
            }
            if (vars.size() > 2) {
                st.fail("derivative-order>2");
                return 0;
            }
            if (vars.size() == 1)
                r = numdiff(*d.get_arg(), vars[0], st);
            else {
                // second derivative: central second difference (8th order) when same var, else nested with larger step
                RCP<const Basic> inner = Derivative::create(d.get_arg(), {symbol(vars[0])});
                r = numdiff(*inner, vars[1], st, 0x1p-10Q);
            }
            break;
        }
        case SYMENGINE_SUBS: {
            const Subs &s = down_cast<const Subs &>(e);
            Env e2 = *st.env;
            vec_basic vars = s.get_variables(), pts = s.get_point();
            std::vector<cq> vals;
            for (auto &p : pts)
                vals.push_back(ev(*p, st));
            if (!st.ok)
                return 0;
            for (size_t i = 0; i < vars.size(); i++) {
                if (!is_a_sub<Symbol>(*vars[i])) {
                    st.fail("subs-nonsymbol");
                    return 0;
                }
                e2.sym[down_cast<const Symbol &>(*vars[i]).get_name()] = vals[i];
            }
            const Env *saved = st.env;
            st.env = &e2;
            r = ev(*s.get_arg(), st);
            st.env = saved;
            break;
        }
        case SYMENGINE_PIECEWISE:
        case SYMENGINE_BOOLEAN_ATOM:
        case SYMENGINE_EQUALITY:
        case SYMENGINE_UNEQUALITY:
        case SYMENGINE_LESSTHAN:
        case SYMENGINE_STRICTLESSTHAN:
        case SYMENGINE_AND:
        case SYMENGINE_OR:
        case SYMENGINE_NOT:
        case SYMENGINE_XOR:
        case SYMENGINE_CONTAINS:
            st.fail("boolean-node(use evbool)");
            return 0;
        default: {
            if (is_a<UnevaluatedExpr>(e)) {
                args();
                r = a[0];
                break;
            }
            st.fail("unsupported-node " + type_code_name(t));
            return 0;
        }
    }
    if (!st.ok)
        return 0;
    if (!finite(r)) {
        st.fail("nonfinite");
        return 0;
    }
    st.scale = fmaxq(st.scale, absq(r));
    return r;
}

struct Value {
    bool ok = false;
    cq v = 0;
    std::string why;
    bool has_float = false, on_cut = false;
    rq scale = 0;
    long nodes = 0;
};

inline Value refeval(const Basic &e, const Env &env, int side = +1)
{
    EvalState st;
    st.env = &env;
    st.side = side;
    Value r;
    r.v = ev(e, st);
    r.ok = st.ok;
    r.why = st.why;
    r.has_float = st.has_float;
    r.on_cut = st.on_cut;
    r.scale = st.scale;
    r.nodes = st.nodes;
    return r;
}

// |a-b| <= tol * max(scale, |a|, |b|, tiny)
inline bool closeq(cq a, cq b, rq tol, rq scale)
{
    rq s = fmaxq(fmaxq(absq(a), absq(b)), scale);
    if (s < 1e-300Q)
        s = 1e-300Q;
    return absq(a - b) <= tol * s;
}

// Compare two expression trees at env under the two-sided cut rule: returns
//  1 equal, 0 different, -1 undecidable (reason in why)
inline int same_value(const Basic &x, const Basic &y, const Env &env, std::string &why, rq tol_exact = 1e-25Q,
                      rq tol_float = 1e-9Q)
{
    Value xs[2], ys[2];
    xs[0] = refeval(x, env, +1);
    ys[0] = refeval(y, env, +1);
    if (!xs[0].ok || !ys[0].ok) {
        why = !xs[0].ok ? xs[0].why : ys[0].why;
        return -1;
    }
    bool fl = xs[0].has_float || ys[0].has_float;
    rq tol = fl ? tol_float : tol_exact;
    rq scale = fmaxq(xs[0].scale, ys[0].scale);
    if (closeq(xs[0].v, ys[0].v, tol * (rq)(xs[0].nodes + ys[0].nodes + 1), scale))
        return 1;
    if (xs[0].on_cut || ys[0].on_cut) {
        xs[1] = refeval(x, env, -1);
        ys[1] = refeval(y, env, -1);
        if (!xs[1].ok || !ys[1].ok) {
            why = "cut-side-eval-failed";
            return -1;
        }
        for (int i = 0; i < 2; i++)
            for (int j = 0; j < 2; j++)
                if (closeq(xs[i].v, ys[j].v, tol * (rq)(xs[0].nodes + ys[0].nodes + 1), scale))
                    return 1;
    }
    why = "lhs=" + cstr(xs[0].v) + " rhs=" + cstr(ys[0].v);
    return 0;
}

// fixed complex evaluation grid for symbols x,y,z (part of the alphabet, DESIGN 4.1)
inline std::vector<Env> complex_grid()
{
    std::vector<Env> g(4);
    g[0].sym = {{"x", mkc(0.7Q, 0.4Q)}, {"y", mkc(-1.3Q, 0.6Q)}, {"z", mkc(0.45Q, -0.8Q)}, {"t", mkc(1.1Q, 0.3Q)}};
    g[1].sym = {{"x", mkc(1.7Q, 0)}, {"y", mkc(0.6Q, 0)}, {"z", mkc(2.3Q, 0)}, {"t", mkc(0.9Q, 0)}};
    g[2].sym = {{"x", mkc(-0.8Q, 0.3Q)}, {"y", mkc(2.1Q, -0.9Q)}, {"z", mkc(-0.35Q, 1.2Q)}, {"t", mkc(-1.4Q, 0.7Q)}};
    g[3].sym = {{"x", mkc(0.3Q, -1.1Q)}, {"y", mkc(0.45Q, 0)}, {"z", mkc(-1.6Q, -0.2Q)}, {"t", mkc(0.25Q, 0.15Q)}};
    return g;
}

} // namespace verif
#endif
