// common.h -- shared plumbing of every driver: options, deadline, known findings,
// violation/replay records, evidence file, and the crash-/hang-isolated parallel
// case runner (DESIGN.md 3.2, 3.5, 3.6, 3.8, 3.10).
#ifndef VERIF_COMMON_H
#define VERIF_COMMON_H
#include <bits/stdc++.h>
#include <sys/mman.h>
#include <sys/wait.h>
#include <sys/stat.h>
#include <sys/resource.h>
#include <unistd.h>
#include <signal.h>
#include <fcntl.h>

namespace verif
{

inline double now()
{
    struct timespec ts;
    clock_gettime(CLOCK_MONOTONIC, &ts);
    return ts.tv_sec + 1e-9 * ts.tv_nsec;
}

inline std::string jstr(const std::string &s)
{
    std::string o = "\"";
    for (unsigned char c : s) {
        if (c == '"')
            o += "\\\"";
        else if (c == '\\')
            o += "\\\\";
        else if (c == '\n')
            o += "\\n";
        else if (c == '\t')
            o += "\\t";
        else if (c < 0x20 || c >= 0x7f) {
            char b[8];
            snprintf(b, sizeof b, "\\u%04x", c);
            o += b;
        } else
            o += (char)c;
    }
    return o + "\"";
}

inline uint64_t fnv(const std::string &s)
{
    uint64_t h = 1469598103934665603ULL;
    for (unsigned char c : s) {
        h ^= c;
        h *= 1099511628211ULL;
    }
    return h;
}

struct Opts {
    std::string pid, tier = "quick", replay, root = "/verif", evidence;
    std::string only_check;
    long long only_index = -1;
    std::string only_sig;
    double deadline_s = 150, t0 = 0;
    int jobs = 16;
    long seed = 0;
    bool thorough() const
    {
        return tier == "thorough";
    }
};
inline Opts &opts()
{
    static Opts o;
    return o;
}
inline bool past_deadline()
{
    return now() - opts().t0 > opts().deadline_s;
}
inline bool replaying()
{
    return opts().only_index >= 0;
}

// ---------------------------------------------------------------- findings
struct Finding {
    std::string sig, text;
    bool is_regex = false;
    bool hit = false;
};

struct Violation {
    std::string sig, check, desc;
    long long index;
};

// tiny JSON field extractor for replay files we wrote ourselves (flat objects)
inline std::string jget(const std::string &doc, const std::string &key)
{
    std::string k = "\"" + key + "\":";
    size_t p = doc.find(k);
    if (p == std::string::npos)
        return "";
    p += k.size();
    while (p < doc.size() && doc[p] == ' ')
        p++;
    if (doc[p] == '"') {
        std::string o;
        for (p++; p < doc.size() && doc[p] != '"'; p++) {
            if (doc[p] == '\\' && p + 1 < doc.size()) {
                p++;
                if (doc[p] == 'n')
                    o += '\n';
                else if (doc[p] == 't')
                    o += '\t';
                else if (doc[p] == 'u') {
                    o += (char)strtol(doc.substr(p + 1, 4).c_str(), nullptr, 16);
                    p += 4;
                } else
                    o += doc[p];
            } else
                o += doc[p];
        }
        return o;
    }
    size_t e = doc.find_first_of(",}\n", p);
    return doc.substr(p, e - p);
}

struct Run {
    std::string level = "model_checking", rule, bound_completed;
    std::vector<std::string> assumptions;
    std::map<std::string, uint64_t> counters; // free-form measured counters
    uint64_t evaluations = 0, nontrivial = 0, states = 0, transitions = 0;
    std::vector<std::string> samples; // JSON fragments
    std::vector<Finding> findings;
    std::map<std::string, Violation> new_violations; // by signature
    uint64_t violations_total = 0, known_total = 0;
    bool exhaustive = true;
    std::set<std::string> outcomes; // distinct observed outcomes (vacuity check)
    std::string extra_json;         // additional coverage keys ("k":v,...)
    bool replay_reproduced = false;

    void load_findings()
    {
        std::ifstream f(opts().root + "/known_findings.txt");
        std::string line;
        while (std::getline(f, line)) {
            if (line.rfind("finding:", 0) != 0)
                continue;
            std::string want = "property=" + opts().pid + " ";
            size_t p = line.find(want);
            if (p == std::string::npos)
                continue;
            Finding fd;
            size_t s = line.find("sig=", p), r = line.find("sig~=", p);
            size_t sep = line.find(" :: ");
            if (sep == std::string::npos)
                sep = line.size();
            if (r != std::string::npos && r < sep) {
                fd.is_regex = true;
                fd.sig = line.substr(r + 5, sep - r - 5);
            } else if (s != std::string::npos && s < sep) {
                fd.sig = line.substr(s + 4, sep - s - 4);
            } else
                continue;
            fd.text = sep < line.size() ? line.substr(sep + 4) : "";
            findings.push_back(fd);
        }
    }

    // returns true when the violation is new (not a listed finding)
    bool violation(const std::string &sig, const std::string &check, long long index, const std::string &desc)
    {
        if (replaying()) {
            if (opts().only_sig.empty() || opts().only_sig == sig)
                replay_reproduced = true;
            printf("REPLAY-OBSERVED sig=%s :: %s\n", sig.c_str(), desc.c_str());
            return true;
        }
        for (auto &f : findings) {
            bool m = false;
            if (f.is_regex) {
                try {
                    m = std::regex_match(sig, std::regex(f.sig));
                } catch (...) {
                    m = false;
                }
            } else
                m = (f.sig == sig);
            if (m) {
                known_total++;
                if (!f.hit) {
                    f.hit = true;
                    printf("KNOWN-FINDING: property=%s %s (%s) e.g. %s\n", opts().pid.c_str(), f.sig.c_str(),
                           f.text.c_str(), desc.c_str());
                    fflush(stdout);
                }
                return false;
            }
        }
        violations_total++;
        auto it = new_violations.find(sig);
        if (it == new_violations.end()) {
            if (new_violations.size() < 400)
                new_violations[sig] = Violation{sig, check, desc, index};
        } else if (it->second.check == check && index < it->second.index)
            it->second = Violation{sig, check, desc, index};
        return true;
    }

    void sample(const std::string &json, size_t cap = 12)
    {
        if (samples.size() < cap)
            samples.push_back(json);
    }

    int finish()
    {
        Opts &o = opts();
        if (replaying()) {
            printf("%s\n", replay_reproduced ? "REPRODUCED" : "NOT-REPRODUCED");
            return replay_reproduced ? 1 : 0;
        }
        double wall = now() - o.t0;
        int n = 0;
        mkdir((o.root + "/replays").c_str(), 0755);
        for (auto &kv : new_violations) {
            const Violation &v = kv.second;
            char hb[32];
            snprintf(hb, sizeof hb, "%012llx", (unsigned long long)(fnv(v.sig) & 0xffffffffffffULL));
            std::string path = o.root + "/replays/" + o.pid + "-" + hb + ".json";
            std::ofstream f(path);
            f << "{\"property\":" << jstr(o.pid) << ",\n \"tier\":" << jstr(o.tier) << ",\n \"check\":" << jstr(v.check)
              << ",\n \"index\":" << v.index << ",\n \"signature\":" << jstr(v.sig) << ",\n \"description\":"
              << jstr(v.desc) << "\n}\n";
            f.close();
            if (n < 25)
                printf("VIOLATION property=%s replay=%s\n   sig=%s\n   %s\n", o.pid.c_str(), path.c_str(),
                       v.sig.c_str(), v.desc.c_str());
            n++;
        }
        if (getenv("VERIF_LIST_SIGS"))
            for (auto &kv : new_violations)
                printf("SIG %s\n", kv.first.c_str());
        if (samples.empty())
            samples.push_back("\"(no sample recorded)\"");
        std::ostringstream e;
        e << "{\"property_id\":" << jstr(o.pid) << ",\"tier\":" << jstr(o.tier) << ",\"seed\":" << o.seed
          << ",\"level\":" << jstr(level) << ",\"wall_s\":" << wall << ",\"violations\":" << new_violations.size()
          << ",\n \"coverage\":{";
        if (level == "model_checking")
            e << "\"states\":" << std::max<uint64_t>(states, 1) << ",\"transitions\":" << std::max<uint64_t>(transitions, 1)
              << ",\"traces_validated_against_impl\":" << evaluations << ",";
        e << "\"evaluations\":" << evaluations << ",\"distinct_nontrivial\":" << nontrivial << ",\"exhaustive\":"
          << (exhaustive ? "true" : "false") << ",\"bound_completed\":" << jstr(bound_completed)
          << ",\"rule\":" << jstr(rule) << ",\"distinct_outcomes\":" << outcomes.size()
          << ",\"violating_cases\":" << violations_total << ",\"known_finding_cases\":" << known_total
          << ",\"known_findings_hit\":[";
        bool first = true;
        for (auto &f : findings)
            if (f.hit) {
                e << (first ? "" : ",") << jstr(f.sig);
                first = false;
            }
        e << "],\n  \"counters\":{";
        first = true;
        for (auto &kv : counters) {
            e << (first ? "" : ",") << jstr(kv.first) << ":" << kv.second;
            first = false;
        }
        e << "},";
        if (!extra_json.empty())
            e << extra_json << ",";
        e << "\n  \"samples\":[";
        for (size_t i = 0; i < samples.size(); i++)
            e << (i ? ",\n   " : "") << samples[i];
        e << "]},\n \"assumptions\":[";
        for (size_t i = 0; i < assumptions.size(); i++)
            e << (i ? "," : "") << jstr(assumptions[i]);
        e << "]}\n";
        std::string path = o.evidence.empty() ? o.root + "/evidence/" + o.pid + ".json" : o.evidence;
        std::ofstream f(path);
        f << e.str();
        f.close();
        printf("[%s] tier=%s evaluations=%llu distinct_nontrivial=%llu states=%llu transitions=%llu outcomes=%zu "
               "violations=%zu (cases %llu) known_cases=%llu exhaustive=%s bound=%s wall=%.1fs\n",
               o.pid.c_str(), o.tier.c_str(), (unsigned long long)evaluations, (unsigned long long)nontrivial,
               (unsigned long long)states, (unsigned long long)transitions, outcomes.size(), new_violations.size(),
               (unsigned long long)violations_total, (unsigned long long)known_total, exhaustive ? "true" : "false",
               bound_completed.c_str(), wall);
        fflush(stdout);
        return new_violations.empty() ? 0 : 1;
    }
};

inline Run &run()
{
    static Run r;
    return r;
}

inline void init(int argc, char **argv, const char *pid)
{
    Opts &o = opts();
    o.pid = pid;
    o.t0 = now();
    if (const char *e = getenv("VERIF_TIER"))
        o.tier = e;
    if (const char *e = getenv("VERIF_DEADLINE_S"))
        o.deadline_s = atof(e);
    if (const char *e = getenv("VERIF_SEED"))
        o.seed = atol(e);
    if (const char *e = getenv("VERIF_ROOT"))
        o.root = e;
    if (const char *e = getenv("VERIF_EVIDENCE"))
        o.evidence = e;
    if (const char *e = getenv("VERIF_JOBS"))
        o.jobs = atoi(e);
    else {
        o.jobs = std::max(1L, sysconf(_SC_NPROCESSORS_ONLN));
        // be a good neighbour on an oversubscribed machine (several checks running at once)
        double la[1] = {0};
        if (getloadavg(la, 1) == 1) {
            if (la[0] > 2.0 * o.jobs)
                o.jobs = std::max(2, o.jobs / 4);
            else if (la[0] > 1.0 * o.jobs)
                o.jobs = std::max(2, o.jobs / 2);
        }
    }
    for (int i = 1; i < argc; i++) {
        std::string a = argv[i];
        if (a == "--tier" && i + 1 < argc)
            o.tier = argv[++i];
        else if (a == "--deadline" && i + 1 < argc)
            o.deadline_s = atof(argv[++i]);
        else if (a == "--jobs" && i + 1 < argc)
            o.jobs = atoi(argv[++i]);
        else if (a == "--replay" && i + 1 < argc) {
            o.replay = argv[++i];
            std::ifstream f(o.replay);
            std::stringstream ss;
            ss << f.rdbuf();
            std::string doc = ss.str();
            o.only_check = jget(doc, "check");
            o.only_index = atoll(jget(doc, "index").c_str());
            o.only_sig = jget(doc, "signature");
            o.tier = jget(doc, "tier");
        } else if (a == "--only" && i + 2 < argc) {
            o.only_check = argv[++i];
            o.only_index = atoll(argv[++i]);
        }
    }
    if (replaying())
        o.deadline_s = 1e9;
    run().load_findings();
    setvbuf(stdout, nullptr, _IOLBF, 0);
}

// ---------------------------------------------------------------- case runner
// Per-case context handed to the body; counters live in shared memory so that the
// parent can sum them even when a worker dies.
enum { NCOUNT = 48 };
struct Shared {
    volatile long long cur;     // index being executed (-1 none)
    volatile long long done;    // number of cases finished by this worker
    volatile double stamp;      // time the current case started
    volatile uint64_t eval, nontriv;
    volatile uint64_t cnt[NCOUNT];
    volatile int phase;         // 0 = inside the library under test (default), 1 = inside the check's own oracle
};

struct Ctx {
    Shared *sh = nullptr;
    FILE *out = nullptr;   // violation / sample / outcome records
    long long index = 0;
    int worker = 0;
    std::vector<std::string> *counter_names = nullptr;
    std::set<uint64_t> outcome_seen;
    int nsamples = 0;
    // A driver whose oracle can be expensive brackets the oracle with oracle(true)/oracle(false): a case that
    // exceeds the wall limit while the ORACLE is running is a case the check could not judge (counted), not a
    // hang of the library.
    void oracle(bool on)
    {
        sh->phase = on ? 1 : 0;
    }
    void eval(uint64_t n = 1)
    {
        sh->eval += n;
    }
    void nontrivial(uint64_t n = 1)
    {
        sh->nontriv += n;
    }
    void count(int k, uint64_t n = 1)
    {
        sh->cnt[k] += n;
    }
    void violation(const std::string &sig, const std::string &desc)
    {
        fprintf(out, "V\t%lld\t%s\t%s\n", index, sig.c_str(), jstr(desc).c_str());
        fflush(out);
    }
    void outcome(const std::string &o)
    {
        uint64_t h = fnv(o);
        if (outcome_seen.size() < 4096 && outcome_seen.insert(h).second)
            fprintf(out, "O\t%s\n", jstr(o.substr(0, 120)).c_str());
    }
    void sample(const std::string &json)
    {
        if (nsamples < 3) {
            nsamples++;
            fprintf(out, "S\t%s\n", json.c_str());
        }
    }
};

struct CaseSet {
    std::string name;
    long long n = 0;
    std::function<void(long long, Ctx &)> body;
    std::function<std::string(long long)> desc;          // human-readable case, computed without running it
    std::function<std::string(long long, const std::string &)> crash_sig; // optional: signature for crash/hang
    double hang_s = 20;                                   // per-case wall limit
    std::vector<std::string> counter_names;               // names for Ctx::count slots
    int jobs = 0;                                         // 0 = opts().jobs
    std::set<long long> bad;                              // out: indices that violated, crashed or hung (quarantine)
};

namespace detail
{
inline std::string unjson(const std::string &s)
{
    return jget("{\"x\":" + s + "}", "x");
}

// extract a call-site class from a sanitizer report (ASan SUMMARY line / UBSan "runtime error" line)
inline std::string sanitizer_summary(const std::string &path)
{
    std::ifstream f(path);
    std::string line, best;
    auto strip = [](std::string t) {
        // drop absolute path prefixes and hex addresses so the class is stable across runs
        size_t p;
        while ((p = t.find("/repo/")) != std::string::npos)
            t.erase(p, 6);
        std::string o;
        for (size_t i = 0; i < t.size(); i++) {
            if (t[i] == '0' && i + 1 < t.size() && t[i + 1] == 'x') {
                size_t j = i + 2;
                while (j < t.size() && isxdigit((unsigned char)t[j]))
                    j++;
                o += "0x..";
                i = j - 1;
            } else
                o += t[i];
        }
        return o.substr(0, 220);
    };
    while (std::getline(f, line)) {
        size_t p = line.find("runtime error:");
        if (p != std::string::npos && best.empty()) {
            best = "ubsan:" + strip(line);
        }
        p = line.find("SUMMARY: ");
        if (p != std::string::npos) {
            // a stack overflow is reported at whatever frame happened to touch the guard page: keep the class only
            if (line.find("stack-overflow") != std::string::npos)
                return "AddressSanitizer: stack-overflow";
            return strip(line.substr(p + 9));
        }
    }
    return best;
}

// run exactly one case in a forked child; returns "" if clean, else outcome class
inline std::string run_alone(const CaseSet &cs, long long i, double limit_s, Shared *sh, const std::string &outpath,
                             std::string *summary = nullptr)
{
    std::string errpath = outpath + ".stderr";
    fflush(stdout);
    fflush(stderr);
    pid_t p = fork();
    if (p == 0) {
        int fd = open(errpath.c_str(), O_WRONLY | O_CREAT | O_TRUNC, 0644);
        if (fd >= 0) {
            dup2(fd, 2);
            close(fd);
        }
        Ctx c;
        c.sh = sh;
        c.index = i;
        c.out = fopen(outpath.c_str(), "a");
        sh->cur = i;
        sh->phase = 0;
        cs.body(i, c);
        fclose(c.out);
        _exit(0);
    }
    double t = now();
    int st = 0;
    std::string res;
    while (true) {
        pid_t r = waitpid(p, &st, WNOHANG);
        if (r == p)
            break;
        if (now() - t > limit_s) {
            kill(p, SIGKILL);
            waitpid(p, &st, 0);
            res = sh->phase == 1 ? "oracle-timeout" : "hang";
            break;
        }
        usleep(2000);
    }
    if (res.empty()) {
        if (WIFSIGNALED(st))
            res = std::string("crash:") + strsignal(WTERMSIG(st));
        else if (WIFEXITED(st) && WEXITSTATUS(st) != 0)
            res = "exit:" + std::to_string(WEXITSTATUS(st));
    }
    if (summary)
        *summary = sanitizer_summary(errpath);
    unlink(errpath.c_str());
    return res;
}
} // namespace detail

// Execute every case 0..n-1 of cs across forked workers with crash/hang isolation.
inline void run_cases(CaseSet &cs)
{
    Run &R = run();
    Opts &o = opts();
    int J = cs.jobs > 0 ? cs.jobs : o.jobs;
    if (cs.n < 64)
        J = 1;
    J = std::min<long long>(J, std::max<long long>(1, cs.n));
    static int serial = 0;
    serial++;
    std::string dir = o.root + "/build/run/" + o.pid + "." + std::to_string(getpid());
    mkdir((o.root + "/build").c_str(), 0755);
    mkdir((o.root + "/build/run").c_str(), 0755);
    mkdir(dir.c_str(), 0755);
    Shared *sh = (Shared *)mmap(nullptr, sizeof(Shared) * (J + 1), PROT_READ | PROT_WRITE, MAP_SHARED | MAP_ANONYMOUS,
                                -1, 0);
    memset((void *)sh, 0, sizeof(Shared) * (J + 1));
    auto outpath = [&](int w) { return dir + "/" + std::to_string(serial) + ".w" + std::to_string(w); };

    if (replaying()) {
        if (o.only_check != cs.name || o.only_index >= cs.n) {
            munmap((void *)sh, sizeof(Shared) * (J + 1));
            return;
        }
        std::string op = outpath(0);
        printf("REPLAY %s[%lld]: %s\n", cs.name.c_str(), o.only_index, cs.desc ? cs.desc(o.only_index).c_str() : "");
        std::string summ;
        std::string oc = detail::run_alone(cs, o.only_index, cs.hang_s * 3, &sh[0], op, &summ);
        if (!oc.empty()) {
            std::string d = cs.desc ? cs.desc(o.only_index) : "";
            if (!summ.empty())
                oc += " [" + summ + "]";
            std::string sig = cs.crash_sig ? cs.crash_sig(o.only_index, oc) : cs.name + ":" + oc + (summ.empty() ? ":" + d : "");
            R.violation(sig, cs.name, o.only_index, oc + " in " + d);
        }
        std::ifstream f(op);
        std::string line;
        while (std::getline(f, line)) {
            if (line[0] != 'V')
                continue;
            size_t a = line.find('\t', 2), b = line.find('\t', a + 1);
            R.violation(line.substr(a + 1, b - a - 1), cs.name, o.only_index, detail::unjson(line.substr(b + 1)));
        }
        unlink(op.c_str());
        munmap((void *)sh, sizeof(Shared) * (J + 1));
        return;
    }

    struct W {
        pid_t pid = -1;
        long long next = 0; // next index this worker starts from
        bool finished = false;
    };
    std::vector<W> ws(J);
    std::vector<std::pair<long long, std::string>> suspects; // (index, outcome class)
    bool cut = false;
    auto spawn = [&](int w) {
        fflush(stdout);
        pid_t p = fork();
        if (p == 0) {
            Ctx c;
            c.sh = &sh[w];
            c.worker = w;
            c.out = fopen(outpath(w).c_str(), "a");
            for (long long i = ws[w].next; i < cs.n; i += J) {
                if ((i / J) % 64 == 0 && past_deadline()) {
                    sh[w].cur = -2; // deadline
                    fclose(c.out);
                    _exit(3);
                }
                c.index = i;
                sh[w].stamp = now();
                sh[w].cur = i;
                sh[w].phase = 0;
                cs.body(i, c);
                sh[w].done++;
            }
            sh[w].cur = -1;
            fclose(c.out);
            _exit(0);
        }
        ws[w].pid = p;
    };
    for (int w = 0; w < J; w++) {
        ws[w].next = w;
        sh[w].cur = -1;
        sh[w].stamp = now();
        if (w < cs.n)
            spawn(w);
        else
            ws[w].finished = true;
    }
    int live = 0;
    for (auto &w : ws)
        if (!w.finished)
            live++;
    while (live > 0) {
        bool progressed = false;
        for (int w = 0; w < J; w++) {
            if (ws[w].finished)
                continue;
            int st = 0;
            pid_t r = waitpid(ws[w].pid, &st, WNOHANG);
            if (r == ws[w].pid) {
                progressed = true;
                if (WIFEXITED(st) && WEXITSTATUS(st) == 0) {
                    ws[w].finished = true;
                    live--;
                } else if (WIFEXITED(st) && WEXITSTATUS(st) == 3 && sh[w].cur == -2) {
                    ws[w].finished = true;
                    live--;
                    cut = true;
                } else {
                    long long at = sh[w].cur;
                    std::string oc = WIFSIGNALED(st) ? std::string("crash:") + strsignal(WTERMSIG(st))
                                                     : "exit:" + std::to_string(WEXITSTATUS(st));
                    suspects.push_back({at, oc});
                    ws[w].next = at + J;
                    if (at < 0 || ws[w].next >= cs.n) {
                        ws[w].finished = true;
                        live--;
                    } else
                        spawn(w);
                }
            } else if (sh[w].cur >= 0 && now() - sh[w].stamp > cs.hang_s) {
                long long at = sh[w].cur;
                kill(ws[w].pid, SIGKILL);
                waitpid(ws[w].pid, &st, 0);
                suspects.push_back({at, sh[w].phase == 1 ? "oracle-timeout" : "hang"});
                progressed = true;
                ws[w].next = at + J;
                if (ws[w].next >= cs.n) {
                    ws[w].finished = true;
                    live--;
                } else {
                    sh[w].stamp = now();
                    spawn(w);
                }
            }
        }
        if (!progressed)
            usleep(3000);
    }
    // replay each suspect alone before reporting (DESIGN 3.10)
    std::sort(suspects.begin(), suspects.end());
    size_t reported = 0;
    for (auto &s : suspects) {
        if (s.first < 0)
            continue;
        std::string d = cs.desc ? cs.desc(s.first) : "";
        std::string oc = s.second;
        bool summarized = false;
        if (reported < 400) {
            std::string summ;
            std::string again = detail::run_alone(cs, s.first, cs.hang_s * 3, &sh[J], outpath(J), &summ);
            if (again.empty()) {
                R.counters[cs.name + ":suspect_clean_when_alone"]++;
                if (oc == "hang" || oc == "oracle-timeout") {
                    // exceeded the wall limit inside a busy worker but completes, clean, when run alone with 3x
                    // the limit: a timing artefact of the shared machine, not a reproducible behaviour. The case
                    // HAS now been executed and judged (alone); count it and go on.
                    R.counters[cs.name + ":slow_in_worker_clean_when_alone"]++;
                    continue;
                }
                oc = "state-dependent-" + oc;
            } else
                oc = again;
            if (oc == "oracle-timeout") {
                // the check's own oracle did not finish within 3x the limit: not judged, counted, never an alarm
                R.counters[cs.name + ":oracle_timeout_not_judged"]++;
                R.counters["cases_not_judged(oracle too slow)"]++;
                fprintf(stderr, "[%s] not judged (oracle exceeded %.0f s): %s\n", cs.name.c_str(), cs.hang_s * 3, d.c_str());
                continue;
            }
            if (!summ.empty()) {
                oc += " [" + summ + "]";
                summarized = true;
            }
            reported++;
        }
        std::string sig = cs.crash_sig ? cs.crash_sig(s.first, oc) : cs.name + ":" + oc + (summarized ? "" : ":" + d);
        R.violation(sig, cs.name, s.first, oc + " in " + d);
        cs.bad.insert(s.first);
        R.counters[cs.name + ":crash_or_hang_cases"]++;
    }
    // merge
    uint64_t done = 0;
    for (int w = 0; w <= J; w++) {
        R.evaluations += sh[w].eval;
        R.nontrivial += sh[w].nontriv;
        done += sh[w].done;
        for (size_t k = 0; k < cs.counter_names.size() && k < NCOUNT; k++)
            R.counters[cs.counter_names[k]] += sh[w].cnt[k];
        std::ifstream f(outpath(w));
        std::string line;
        while (std::getline(f, line)) {
            if (line.size() < 2)
                continue;
            if (line[0] == 'V') {
                size_t a = line.find('\t', 2), b = line.find('\t', a + 1);
                long long idx = atoll(line.substr(2, a - 2).c_str());
                cs.bad.insert(idx);
                R.violation(line.substr(a + 1, b - a - 1), cs.name, idx, detail::unjson(line.substr(b + 1)));
            } else if (line[0] == 'O') {
                if (R.outcomes.size() < 100000)
                    R.outcomes.insert(detail::unjson(line.substr(2)));
            } else if (line[0] == 'S') {
                R.sample(line.substr(2));
            }
        }
        unlink(outpath(w).c_str());
    }
    rmdir(dir.c_str());
    R.counters[cs.name + ":cases"] += cs.n;
    R.counters[cs.name + ":cases_done"] += done + suspects.size();
    if (cut || done + suspects.size() < (uint64_t)cs.n) {
        R.exhaustive = false;
        R.counters[cs.name + ":cut_by_deadline"] = 1;
    }
    munmap((void *)sh, sizeof(Shared) * (J + 1));
}

} // namespace verif
#endif
