// Forced-included (-include) when building /repo in the `assert` configuration.
// symengine_assert.h only defines SYMENGINE_ASSERT when it is not defined already, so
// pre-defining it here turns every canonical-form assertion into a catchable,
// attributable C++ exception instead of abort().  No source change in /repo.
#ifndef VERIF_ASSERT_THROW_H
#define VERIF_ASSERT_THROW_H
#ifdef __cplusplus
#include <string>
#include <exception>
namespace verif
{
struct AssertFailure : public std::exception {
    std::string file, func, cond, msg;
    AssertFailure(const char *f, const char *fn, const char *c)
        : file(f), func(fn), cond(c)
    {
        std::size_t p = file.rfind("symengine/");
        if (p != std::string::npos)
            file = file.substr(p);
        msg = "SYMENGINE_ASSERT failed: " + file + " " + func + " : " + cond;
    }
    const char *what() const noexcept override
    {
        return msg.c_str();
    }
};
} // namespace verif
#define SYMENGINE_ASSERT(cond)                                                 \
    {                                                                          \
        if (!(cond)) {                                                         \
            throw verif::AssertFailure(__FILE__, __func__, #cond);             \
        }                                                                      \
    }
#define SYMENGINE_ASSERT_MSG(cond, msg)                                        \
    {                                                                          \
        if (!(cond)) {                                                         \
            throw verif::AssertFailure(__FILE__, __func__, #cond);             \
        }                                                                      \
    }
#endif
#endif
