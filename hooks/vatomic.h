// Forced-included (-include) when building /repo in the `sched` configuration (and first thing in
// the drivers' precompiled prefix).  Routes EVERY std::atomic operation of the thread-safe
// library (refcount_, hash_, Dummy::count_, nifty_counter) through the scheduler hooks, with no
// source change in /repo: a change that splits an atomic read-modify-write into load + store
// automatically becomes two scheduling points.
#ifndef VERIF_VATOMIC_H
#define VERIF_VATOMIC_H
#ifdef __cplusplus
#include <bits/stdc++.h> // every standard header is now included (guards) before `atomic` is renamed
extern "C" {
void verif_sync_point(const void *addr, int kind); // before the operation; may switch threads
void verif_sync_done(const void *addr, unsigned long long read, unsigned long long now, int wrote); // after it
void verif_atomic_born(const void *addr);
void verif_atomic_died(const void *addr);
}
namespace std
{
template <class T>
struct vatomic {
    std::atomic<T> a_;
    enum { K_LOAD = 0, K_STORE = 1, K_RMW = 2 };
    vatomic() noexcept
    {
        verif_atomic_born(this);
    }
    constexpr vatomic(T v) noexcept : a_(v)
    {
        if (!__builtin_is_constant_evaluated())
            verif_atomic_born(this);
    }
    ~vatomic()
    {
        verif_atomic_died(this);
    }
    vatomic(const vatomic &) = delete;
    vatomic &operator=(const vatomic &) = delete;
    T load(memory_order m = memory_order_seq_cst) const noexcept
    {
        verif_sync_point(this, K_LOAD);
        T v = a_.load(m);
        verif_sync_done(this, (unsigned long long)v, (unsigned long long)v, 0);
        return v;
    }
    void store(T v, memory_order m = memory_order_seq_cst) noexcept
    {
        verif_sync_point(this, K_STORE);
        a_.store(v, m);
        verif_sync_done(this, 0, (unsigned long long)v, 1);
    }
    operator T() const noexcept
    {
        return load();
    }
    T operator=(T v) noexcept
    {
        store(v);
        return v;
    }
    T exchange(T v, memory_order m = memory_order_seq_cst) noexcept
    {
        verif_sync_point(this, K_RMW);
        T o = a_.exchange(v, m);
        verif_sync_done(this, (unsigned long long)o, (unsigned long long)v, 1);
        return o;
    }
    bool compare_exchange_strong(T &e, T d, memory_order m = memory_order_seq_cst) noexcept
    {
        verif_sync_point(this, K_RMW);
        bool ok = a_.compare_exchange_strong(e, d, m);
        verif_sync_done(this, (unsigned long long)e, (unsigned long long)a_.load(), ok);
        return ok;
    }
    bool compare_exchange_strong(T &e, T d, memory_order s, memory_order) noexcept
    {
        return compare_exchange_strong(e, d, s);
    }
    bool compare_exchange_weak(T &e, T d, memory_order m = memory_order_seq_cst) noexcept
    {
        return compare_exchange_strong(e, d, m);
    }
    bool compare_exchange_weak(T &e, T d, memory_order s, memory_order) noexcept
    {
        return compare_exchange_strong(e, d, s);
    }
    T fetch_add(T v, memory_order m = memory_order_seq_cst) noexcept
    {
        verif_sync_point(this, K_RMW);
        T o = a_.fetch_add(v, m);
        verif_sync_done(this, (unsigned long long)o, (unsigned long long)(T)(o + v), 1);
        return o;
    }
    T fetch_sub(T v, memory_order m = memory_order_seq_cst) noexcept
    {
        verif_sync_point(this, K_RMW);
        T o = a_.fetch_sub(v, m);
        verif_sync_done(this, (unsigned long long)o, (unsigned long long)(T)(o - v), 1);
        return o;
    }
    T operator++() noexcept
    {
        return fetch_add(1) + 1;
    }
    T operator++(int) noexcept
    {
        return fetch_add(1);
    }
    T operator--() noexcept
    {
        return fetch_sub(1) - 1;
    }
    T operator--(int) noexcept
    {
        return fetch_sub(1);
    }
    T operator+=(T v) noexcept
    {
        return fetch_add(v) + v;
    }
    T operator-=(T v) noexcept
    {
        return fetch_sub(v) - v;
    }
    bool is_lock_free() const noexcept
    {
        return true;
    }
};
} // namespace std
#define atomic vatomic
#endif
#endif
